#!/usr/bin/env python3
"""Writes seeded/<name>/meta.json for the seeded changes listed below (what the change needs to manifest, which check
catches it, and whether the first version of the check caught it).  tryseed.txt (bin/tryall) is quoted when present."""
import json
import os

ROOT = os.path.dirname(os.path.dirname(os.path.abspath(__file__)))
M = {
 # round 2 (sub-agents were told the round-1 changes and asked for something different in kind)
 "C01_toggle_wipes_receipts": ("C01", "a receive, then governance toggling the client of the source chain (the clean-up iterates the whole xibc store and also deletes receipts/acks of that chain), then a replay of the receive",
     "C01 quick (C01.ReceiptStable, C01.MarksExact at the Retoggle step)", "missed by the first version (no client replacement in the XIBC world); caught after XIBC.tla got the Retoggle action"),
 "C02_bsc_unauthenticated_value": ("C02", "a BSC storage proof whose proven word has a leading zero byte: the unauthenticated JSON 'value' member is compared instead of the proven value",
     "C08 quick (C08.AllRightIsAccepted / AcceptedOnlyIfAllRight for the leading-zero value classes); the C02 check itself uses Tendermint counterparties and does not see it", "caught at first attempt by C08"),
 "C03_second_ack_after_commitment_gone": ("C03", "an error acknowledgement replayed after the commitment was deleted, while another transfer keeps enough escrow for the second refund",
     "C03 quick (C03.Conservation) and C05 quick (C05.AckOnce, C05.AckOfThatPacket)", "missed by the first version (no replay of an already processed acknowledgement in the generator); caught after the AckDup category and a directed regression behaviour were added"),
 "C04_hook_skips_indirect_sends": ("C04", "a send whose transaction goes to an intermediary contract that calls endpoint.crossChainCall",
     "C04 quick (C04.SendStep, C04.SeqAgree)", "missed by the first version (sends only directly to the endpoint); caught after call-only sends through a forwarding contract (SendVia) were added"),
 "C05_ack_commitment_exists_only": ("C05", "an acknowledgement message carrying another packet on the same path and sequence (e.g. another sender) with the genuine ack and proof",
     "C05 quick (C05.AckOfThatPacket) and C02 quick (C02.AuthAck)", "the first version of C05 missed it (C02 caught it); C05.AckOfThatPacket added"),
 "C06_reregistration_dropped": ("C06", "a governance re-registration of a relayer for the same chains with another counterparty address",
     "C06 quick (C06.RegistrationInstalled, C06.AckRelayerField)", "missed by the first version (one address per relayer and chain); caught after Auth.tla got address versions and re-registrations"),
 "C07_stores_validators_hash": ("C07", "a header that rotates the validator set (next validators differ from the signing set)", "C07 quick (C07.StoresExactly)", "caught at first attempt"),
 "C08_bsc_value_right_padded": ("C08", "a commitment hash with leading zero bytes", "C08 quick (C08.AllRightIsAccepted for the leading-zero value classes)", "caught at first attempt"),
 "C09_stale_limit_on_switch": ("C09", "a validator set growing from 3 to 7 at the switch block: the sealer of block s-2 seals s+1",
     "C09 quick (C09.NotARecentSealer)", "missed by the first version twice over: the universe had 4 validators, and C09.SignerEligible read the client's own recent-signer records (which the change corrupts); caught after the universe grew to 7 and the judge keeps its own history of accepted sealers"),
 "C10_basefee_floor_on_decrease": ("C10", "a parent below its gas target whose base-fee delta rounds to zero", "C10 quick (C10.NeverWedged, C10.OnlyRuleAbiding)",
     "missed by the first version (gas used = target everywhere); caught after the header universe got base-fee and gas-limit classes (a1 below target, b1 above, mutants n2, p2, k1, l1)"),
 "C11_blocked_check_on_sender": ("C11", "MsgConvertCoin naming a blocked module account as receiver", "C11 quick (C11.Gate, C11.ExactCoinToToken)", "caught at first attempt"),
 "C12_update_guard_by_pair_id": ("C12", "UpdateTokenPairERC20 onto a contract that already belongs to another pair", "C12 quick (C12.Findable, C12.NoSharing)", "caught at first attempt"),
 "C13_import_first_denom_only": ("C13", "a pair with two denominations (add-coin), exported and imported", "C13 quick (C13.RoundTripLossless on the final states of the aggregate behaviours)", "caught at first attempt (by the second leg added earlier in the round)"),
 "C14_bsc_validators_map_order": ("C14", "a BSC client crossing a validator change block", "C14 quick (C14.SameState between the two replicas)", "caught at first attempt"),
 "C15_bsc_prune_pointer_assert": ("C15", "an upgrade proposal of a BSC client executed when the earliest consensus state has expired (pruning branch)",
     "C15 quick (C15.NoPanicInHandler, state class 'expired')", "missed by the first version (no expired state class); caught after the class was added"),
 "C16_hook_source_channel": ("C16", "a channel whose two ends have different identifiers, and a registered voucher of the same base denomination on another channel",
     "C16 quick (C16.OtherDenomsUntouched)", "missed by the first version (one channel with equal identifiers); caught after the replay got a third chain and the voucher vc"),
 "C17_hook_skips_nested_callers": ("C17", "staking called by a contract (forwarder)", "C17 quick (C17.ExactArgs)", "caught at first attempt"),
 "C18_upgrade_guard_cons_type": ("C18", "an upgrade proposal whose client state has another type than the installed client while its consensus state has the installed type",
     "C18 quick (C18.InstallsExactly, C18.Initialised, C18.UsableActive)", "missed by the first version's random behaviours; a directed regression behaviour was added (the generator can produce it: Upgrade with content 'wrongcons' on a client of the other type)"),
 "C19_sequence_key_signed": ("C19", "sequences of 2^63 and above", "C19 quick (C19.KeyParseBack, class n=2p63 / max)", "caught at first attempt"),
 "C20_amountof_unsorted_rewards": ("C20", "an unsorted reward list", "C20 quick (Release)", "caught at first attempt"),
 # round 3 (sub-agents were told rounds 1 and 2 and asked for changes a checker of the obvious scenarios would still miss)
 "C01_export_drops_tss_receipts": ("C01", "a receive through a TSS client, then an export/import of the genesis (the export filter drops receipts and acknowledgements of chains whose client has a zero height), then a replay", "C13 quick (C13.RoundTripLossless on the final states of the authorisation behaviours); C01 itself replays no genesis restart", "caught at first attempt by C13"),
 "C02_tm_ack_height_rev0_rewritten": ("C02", "a genuine acknowledgement whose proof height is stated in revision 0", "C02 quick (C02.AuthAck)", "missed by the first version (proof-height alterations kept the revision); caught after the 'rev0' proof class, its generator categories and a directed behaviour were added"),
 "C03_ack_callback_error_swallowed": ("C03", "an error acknowledgement of a transfer whose acknowledgement callback reverts (callback contract without the function)", "C03 quick (C03.Conservation)", "missed by the first version (no callback contracts); caught after packets with a bad callback contract were added (their acknowledgements are never accepted on the unchanged code)"),
 "C04_hook_returns_after_first_send": ("C04", "one transaction sending to two destinations", "C04 quick (C04.SendTwoStep), three-chain leg", "missed by the first version (one send per transaction, two chains); caught after SendTwo and the three-chain replay leg were added"),
 "C05_unknown_relayer_ack_half_processed": ("C05", "an acknowledgement naming a relayer address the source chain's registry no longer holds (re-registration between receive and acknowledgement)", "C05 quick (C05.AckAllOrNothing, C05.AckOnce, C05.FeesHeld)", "missed by the first version (static registry in the XIBC world); caught after the Rotate action was added"),
 "C06_callback_failed_ack_names_signer": ("C06", "a packet whose call data is not decodable (the callback itself reverts) relayed by a relayer whose counterparty address differs from its account", "C06 quick (C06.AckRelayerField, authorisation world)", "caught (the 'malformed' call-data class was added just before, pre-emptively)"),
 "C07_revision_check_against_latest": ("C07", "a governance upgrade to the next revision, then a header of the new revision trusting a consensus state of the old one", "C07 quick (C07.AcceptedIsSound)", "missed by the first version (one revision); caught after heights became (revision, number) keys and the Upgrade action was added"),
 "C08_eth_ack_height_check_dropped": ("C08", "an ETH client reorganised to a lower head, a proof at a stored height above the head, acknowledgement path", "C08 quick (C08.AcceptedOnlyIfAllRight, height class 'abovestored')", "missed by the first version (no consensus state above the head); caught after the class was added"),
 "C09_single_validator_never_switches": ("C09", "a validator set of one: the switch offset 0 falls on the epoch block itself", "C09 quick (C09.SetSwitchesAtOffset, epoch-2 single-validator leg)", "missed by the first version; caught after the third configuration and the judge were added"),
 "C10_restrict_skips_identical_state": ("C10", "a fork whose first re-pointed header has the same timestamp and state root as the header kept at that height", "C10 quick (C10.NeverWedged)", "caught at first attempt (siblings with equal roots are in the universe)"),
 "C11_update_reenables_pair": ("C11", "a disabled pair whose ERC-20 address governance then replaces", "C11 quick (C11.EnabledOnlyByToggle)", "missed by the first version (the gate judge read the registry's own flag); caught after the judge on the flag's history and a directed behaviour were added"),
 "C12_addcoin_indexes_name": ("C12", "AddCoin with metadata whose name differs from the base denomination", "C12 quick (C12.Findable)", "missed by the random behaviours of the quick tier; directed behaviour added"),
 "C13_tss_update_stores_typed_nil": ("C13", "a MsgUpdateClient for a TSS client, then an export", "C13 quick (C13.Validates) and C18 quick (C18.TssKeepsNothing)", "caught at first attempt"),
 "C14_eth_future_check_wall_clock": ("C14", "an Ethereum header dated around the node's wall clock", "C14 quick (C14.SameResults: the two replicas judge the wall-clock probe header differently)", "caught (the wall-clock probe was added just before, pre-emptively)"),
 "C15_equal_aliases_index_panic": ("C15", "a second RegisterCoin proposal for the same coin whose unit lists fewer aliases than the stored metadata", "C15 quick (C15.NoPanicInHandler, class 'againfeweraliases')", "missed by the first version; caught after the repeated-proposal classes were added"),
 "C16_error_ack_for_misbehaving_token": ("C16", "a voucher of a pair whose external token takes a cut on transfer", "C16 quick (C16.AckPreserved, C16.SuccessAcked)", "caught (the misbehaving-token class was added just before, pre-emptively)"),
 "C17_gov_hook_keeps_last_error": ("C17", "a contract voting twice in one transaction, the first vote failing natively", "C17 quick (C17.OncePerEvent)", "caught (the two-call path Tx2 was added just before, pre-emptively)"),
 "C18_toggle_wipes_cons_prefix_only": ("C18", "Tendermint -> TSS -> Tendermint toggles with updates in between", "C18 quick (C18.NoPartialMetadata / C18.TssKeepsNothing)", "caught at first attempt"),
 "C19_decode_lowercases_sender": ("C19", "a sender that is a 20-byte hex account with upper-case digits", "C19 quick (C19.DecodeEncode, string class 'hexaddr')", "missed by the first version; caught after the class was added"),
 "C20_full_reward_on_raw_balance": ("C20", "a denomination listed twice with the pool between the later entry and the sum", "C20 quick (NeverHalts / Release)", "caught at first attempt"),
 # round 4 (sub-agents were told rounds 1-3)
 "C01_history_window_prunes_receipt": ("C01", "a receive of (S,D,n), then a receive of exactly (S,D,n+256), then a replay of (S,D,n)", "C01 thorough (C01.ReceiptStable / MarksExact on the long-history leg, about 280 packets on one path)", "missed by the first version (bounded models and 25-step behaviours cannot reach a threshold of 256); the long-history leg was added; the quick tier (70 packets) does not reach the threshold"),
 "C02_commitment_concat_no_lengths": ("C02", "two packets differing only in where the boundary between adjacent variable-length fields falls", "C02 quick (C02.AuthRecv: the stored commitment is not the reference hash of the packet) and C19 quick (C19.CommitmentsDiffer)", "caught at first attempt"),
 "C03_hook_skips_when_to_not_system": ("C03", "a send reached through an intermediary contract", "C04 quick (C04.SendStep, C04.NoStrayEscrow via SendVia)", "caught at first attempt (by C04; the conservation operator of C03 counts packets the chain recorded)"),
 "C04_identical_second_send_skipped": ("C04", "one transaction with two byte-identical sends to the same destination", "C04 quick (C04.SendTwoStep)", "caught at first attempt"),
 "C05_tss_ack_proof_kept_when_given": ("C05", "an acknowledgement through a TSS client from a non-TSS signer whose proof bytes are the TSS address", "C06 quick (C06.TssOnly, proof class 'tssaddr')", "caught at first attempt (by C06)"),
 "C06_validatebasic_sorts_chains": ("C06", "a register-relayer proposal whose chains are not in lexicographic order", "C06 quick (C06.RegistrationInstalled)", "caught at first attempt"),
 "C07_backfill_lowers_latest": ("C07", "an upgrade to the next revision at a low height, then a back-filled header of the previous revision", "C07 quick (C07.LatestMonotone)", "caught at first attempt"),
 "C08_eth_storage_root_self_compare": ("C08", "a genuine account proof with a storage root and storage proof of another storage trie in which the slot holds the claimed value", "C08 quick (C08.AcceptedOnlyIfAllRight, account class 'forgedstorage')", "missed by the first version (the wrong-storage class proved another value); class added"),
 "C09_upgrade_keeps_stale_pending": ("C09", "a governance upgrade of a live BSC client whose epoch header announces the set already in force, while an older pending list is stored", "C09 quick (C09.PendingIsAnnounced, C09.SwitchesToAnnounced)", "missed by the first version (no upgrades in BSCClient.tla, and the switch judge read the client's own pending set); Upgrade action and ghost 'announced' added"),
 "C10_rinkeby_skips_gas_basefee": ("C10", "a Rinkeby client, a header whose difficulty is not the ethash value and which breaks the gas-limit or base-fee rule", "C10 quick (C10.OnlyRuleAbiding)", "caught at first attempt"),
 "C11_param_pairs_crossed": ("C11", "a governance parameter-change proposal setting EnableAggregate=false by key, then a conversion", "C11 quick (C11.GateGoverned, C11.ParamReadsBack)", "missed by the first version (the gate judge read the module's own parameter struct); ghost govOn added"),
 "C12_voucher_lookup_prefers_contract_index": ("C12", "two address updates, the second onto the address the first released", "C12 quick (C12.FoundByLookup)", "missed by the first version (raw indexes stay consistent); public lookups recorded per pair, third standard token, directed behaviour"),
 "C13_packet_chain_name_bound_50": ("C13", "a chain name of 51..64 characters with packet traffic, then an export", "C13 quick (C13.Validates on the final states of the authorisation behaviours)", "missed by the first version (short chain names only); names of 51 and 64 characters in the authorisation world"),
 "C14_relayer_lookup_map_order": ("C14", "two relayers registered with the same counterparty address on a chain, then acknowledgements paying the fee", "C14 quick (C14.SameState / SameResults on the authorisation behaviours)", "missed by the first version (one address per relayer; auth driver not in the C14 plan); shared addresses (version 3) and directed behaviours added"),
 "C15_eth_bloom_length_unchecked": ("C15", "an ETH client proposal whose header bloom has more than 256 bytes", "C15 quick (C15.NoPanicInHandler, class 'longbloom')", "caught at first attempt"),
 "C16_hook_converts_whole_balance": ("C16", "a receiver already holding vouchers of the denomination when a packet for a registered pair arrives", "C16 quick (C16.ConversionAtomic)", "caught at first attempt"),
 "C17_notbonded_burn_destroys": ("C17", "a double-sign slash that also hits an unbonding delegation (burn from the not-bonded pool)", "C17 quick (C17.SlashSupplyUnchanged, C17.SlashBurnToCollector)", "missed by the first version (no slashing); Slash action added"),
 "C18_bsc_upgrade_keeps_later_signers": ("C18", "a BSC client updated past an epoch header and then upgraded back to that header", "C18 quick (C18.BscUpgradeInstalls, C18.BscValidUpdateAccepted; BSC leg)", "missed by the first version (BSC upgrades not replayed); BSC leg added"),
 "C19_iterate_splits_on_sequences": ("C19", "a chain named like a constant element of the store paths ('sequences')", "C19 quick (C19.KeyParseBack, name class 'kwsequences')", "missed by the first version; keyword name classes added"),
 "C20_params_cached_in_keeper": ("C20", "a governance parameter change between blocks", "C20 quick (ParamChange / Release)", "caught at first attempt"),
 # round 5 (sub-agents were told rounds 1-4)
 "C01_createclient_drops_prefix_named_state": ("C01", "a delivery, then governance creating a client for a chain whose name is a proper prefix of the source chain's name, then a replay", "C01 quick (C01.ReceiptStable / MarksExact at the NewClient step)", "missed by the first version (no client creation in the XIBC world); NewClient action added"),
 "C02_duplicate_update_overwrites_consensus": ("C02", "a second MsgUpdateClient for a height the client already verified, carrying a header of a private chain", "C02 quick (C02.ForgedHeaderRejected) and C07 quick (C07.AcceptedIsSound)", "caught at first attempt by C07; the C02 check missed it until forged-header updates by the registered relayer were added"),
 "C03_hook_breaks_after_first_packet": ("C03", "one transaction sending to two destinations", "C04 quick (C04.SendTwoStep, three-chain leg)", "caught at first attempt (by C04)"),
 "C04_no_commitment_for_tss_destination": ("C04", "a send to a destination whose client is a TSS client", "C04 quick (C04.TssSendCommits; authorisation-world leg)", "missed by the first version (the XIBC world has Tendermint clients only); TSS-destination leg added"),
 "C05_ack_deletes_commitment_prefix": ("C05", "ten or more packets in flight on one path, the acknowledgement of sequence 1 first", "C05 quick (C05.CommitRemovedOnlyByAck on the long-history leg)", "missed by the quick tier (short behaviours); long-history leg added to the quick tier of C05, acknowledgements late and oldest first"),
 "C06_getallrelayers_reuses_message": ("C06", "two or more relayers, then an export/import of the genesis", "C06 quick (C06.RegistrationInstalled) and C13 quick (C13.RoundTripLossless)", "caught at first attempt"),
 "C07_known_header_shortcut_ignores_apphash": ("C07", "a second fully signed header for a height the client already holds, same time and next validators, other app hash", "C07 quick (C07.StoresExactly)", "missed by the first version (random times rarely coincide); generator category added"),
 "C08_bsc_balance_truncated_uint64": ("C08", "a BSC contract account holding 2^64 wei or more", "C08 quick (C08.AllRightIsAccepted in the large-balance world)", "missed by the first version (small balances); a world with a balance above 2^64 and a nonce above 2^63 added"),
 "C09_prune_first_listed_signer": ("C09", "block numbers gaining a decimal digit (9 -> 10), then the sealer of the newest block sealing again", "C09 quick (C09.NotARecentSealer)", "missed by the random behaviours of the quick tier; directed behaviour added"),
 "C10_uncle_term_from_header": ("C10", "a proof-of-work client, a header/parent pair of which exactly one includes uncles", "C10 quick (C10.DifficultyRule, ETHPow.tla)", "missed by the first version (Rinkeby clients only; no valid seals can be produced); the difficulty rule is now observed through the stage of refusal, 128 classes"),
 "C11_receiver_gains_at_least": ("C11", "an external token whose transfer credits more than the amount", "C11 quick (C11.ExactCoinToToken, C11.BackedExternal)", "missed by the first version (no such token class); hand-assembled bonus token added"),
 "C12_equalmetadata_by_value": ("C12", "a coin whose metadata name differs from its base denomination, registered a second time (or added to another pair)", "C12 quick (C12.Findable, C12.NoSharing)", "missed by the random behaviours; directed behaviours added, AddCoin with differing names in the generator"),
 "C13_metadata_export_breaks_at_tss": ("C13", "a TSS client whose chain name sorts before a Tendermint client's, then an export", "C13 quick (C13.RoundTripLossless)", "caught at first attempt"),
 "C14_gov_hook_ranges_over_handlers": ("C14", "one transaction whose receipt holds a Voted and a VotedWeighted log of the same voter", "C14 quick (C14.SameState), C17 quick (C17.OncePerEvent)", "missed by the first version (two plain votes only); mixed-kind Tx2 added"),
 "C15_genesis_pair_without_denoms": ("C15", "an aggregate genesis token pair without denominations", "C15 quick (C15.NoPanicInGenesis)", "missed by the first version (no genesis family); genesis classes added to Halt.tla"),
 "C16_nil_ack_when_module_disabled": ("C16", "a registered voucher received while the module is disabled by governance", "C16 quick (C16.AckCommitted)", "caught at first attempt"),
 "C17_single_weighted_option_as_plain_vote": ("C17", "a weighted vote with one option whose weight is not 100%", "C17 quick (C17.ExactArgs)", "missed by the first version (weights 100 or 50/50 only); option classes 31/32 added"),
 "C18_update_msg_rejects_zero_height": ("C18", "a TSS update delivered as a transaction", "C18 quick (C18.ValidUpdateSucceeds)", "caught at first attempt"),
 "C19_bsc_iteration_key_drops_revision": ("C19", "a BSC consensus state under a non-zero revision number", "C19 quick (C19.ConsKeyParseBack)", "missed by the first version (revision 0 only); Codec family 'cons' added"),
 "C20_sweep_pool_when_nothing_exceeds": ("C20", "a pool holding a denomination that is not on the reward list when the rewarded one runs dry", "C20 quick (Release)", "caught at first attempt"),
 # round 6 (sub-agents were told rounds 1-5)
 "C01_recv_cache_not_committed_on_callback_error": ("C01", "a receive whose destination callback fails at the CallPacket level, then the same receive again", "C01 quick (C01.RecvOnce) and C05 quick (C05.AckWritten)", "caught at first attempt"),
 "C02_eth_storage_hash_unauthenticated": ("C02", "an Ethereum counterparty: genuine account proof with a storage root and storage proof of a made-up trie", "C08 quick (C08.AcceptedOnlyIfAllRight, account class forgedstorage); the C02 check uses Tendermint counterparties", "caught at first attempt (by C08)"),
 "C03_hook_ignores_log_emitter": ("C03", "a third-party contract emitting a PacketSent log with the next send sequence", "C03 quick (C03.Conservation) and C04 quick (C04.CommitIsSent)", "missed by the first version; SendFake action added"),
 "C04_sequence_memoized_outside_store": ("C04", "one transaction sending to a known and then to an unknown destination (rolled back), then an ordinary send", "C04 quick (C04.SeqAgree)", "caught at first attempt"),
 "C05_fee_paid_only_on_success": ("C05", "an error acknowledgement of a packet carrying a fee", "C05 quick (C05.FeesHeld)", "caught at first attempt"),
 "C06_tss_update_skips_registry": ("C06", "MsgUpdateClient for a TSS client from the TSS account while it is not registered for that chain", "C06 quick (C06.OnlyRegistered)", "caught at first attempt"),
 "C07_default_trust_level_used": ("C07", "a client configured with trust level 2/3 and a non-adjacent header signed by between 1/3 and 2/3 of the trusted set", "C07 quick (C07.AcceptedIsSound, trust-level-2/3 leg)", "missed by the first version (level 1/3 only); second leg added"),
 "C08_bsc_storage_key_suffix_match": ("C08", "a storage key shortened to a suffix of the derived slot with a genuine proof of the slot it left-pads to", "C08 quick (C08.AcceptedOnlyIfAllRight, storage class suffixkey)", "missed by the first version; class added"),
 "C09_difficulty_compared_mod_2_64": ("C09", "a difficulty wider than 64 bits whose low 64 bits are 1 or 2", "C09 quick (C09.SignerEligible)", "missed by the first version (difficulties 1 and 2 only); classes 101/102 added"),
 "C10_prune_first_expired_not_earliest": ("C10", "a fork history in which a young header is re-pointed below expired states of the other branch, trusting period elapsing in between", "C10 quick (C10.HeadersLeaveOnlyWithPrunedState, C10.NeverWedgedWhileFresh; expiry leg)", "missed by the first version (large trusting period, no clock); expiry leg added"),
 "C11_ibc_hook_ignores_pair_switch": ("C11", "an ICS-20 packet for a registered voucher whose pair governance disabled", "C11 quick (C11.HookHonoursSwitches, ICS-20 leg)", "missed by the first version (C16 does not state the gate); ICS-20 leg of C11 added"),
 "C12_addcoin_sorts_denoms": ("C12", "AddCoin of a denomination that sorts before the pair's first one", "C12 quick (C12.Findable)", "caught at first attempt"),
 "C13_rvesting_export_newcoins": ("C13", "reward-vesting parameters with a zero amount (or unsorted / repeated denominations), then an export", "C13 quick (C13.Validates / RoundTripLossless on the reward-vesting behaviours)", "missed by the first version (reward-vesting states not round-tripped); world added"),
 "C14_ethash_cache_on_disk": ("C14", "a node whose temp directory holds a damaged ethash cache file", "C14 quick (C14.SameResults between replica A and the third replica)", "missed by the first version (no valid seals, clean temp directories); main-net test headers and a third replica on a zeroed copy of replica A's temp directory added"),
 "C15_bsc_extra_min_length_seal_only": ("C15", "a BSC header whose extra data has 65..96 bytes and a valid seal", "C15 quick (C15.NoPanicInHandler, extra class sealonly)", "missed by the first version; class added"),
 "C16_gauge_int64_of_amount": ("C16", "a received amount of 2^63 or more for a registered, enabled voucher", "C16 quick (C16.AckCommitted)", "missed by the first version (amounts 1 and 2); amounts in units of 2^64+1"),
 "C17_gov_keeper_plain_bank": ("C17", "a proposal whose deposits are burned (no quorum / veto)", "C17 quick (C17.SupplyUnchanged, C17.BurnToCollector at Expire)", "caught at first attempt"),
 "C18_upgrade_keeps_existing_consensus": ("C18", "an upgrade at a height that already holds a consensus state with other content", "C18 quick (C18.InstallsExactly)", "missed by the first version (one content per height); content class altroot added"),
 "C19_trimright_cutset_on_destination": ("C19", "a destination chain name ending in one of s, e, q, u, n, c", "C19 quick (C19.KeyParseBack) and C13 quick", "caught at first attempt"),
 "C20_gauge_int64_of_vested": ("C20", "a block releasing more than 2^63-1 base units", "C20 quick (NeverHalts)", "missed by the first version (amounts 0..3); amounts in units of 2^64+1"),
}


def main():
    R3 = set(l.split()[0] for l in open(os.path.join(ROOT, "seeded", "round3.list")) if l.strip())
    R4 = set(l.split()[0] for l in open(os.path.join(ROOT, "seeded", "round4.list")) if l.strip())
    R5 = set(l.split()[0] for l in open(os.path.join(ROOT, "seeded", "round5.list")) if l.strip())
    R6 = set(l.split()[0] for l in open(os.path.join(ROOT, "seeded", "round6.list")) if l.strip())
    for n, (p, needs, by, hist) in M.items():
        d = os.path.join(ROOT, "seeded", n)
        if not os.path.isdir(d):
            continue
        ts = ""
        if os.path.exists(os.path.join(d, "tryseed.txt")):
            ts = open(os.path.join(d, "tryseed.txt")).read().strip()
        json.dump({"property": p, "needs_to_manifest": needs, "caught_by": [by], "history": hist,
                   "what_was_run": "bin/confirmseed in the scratch worktree (build ok, demonstration fails with / passes without the change, repository suite 414/414); "
                                   "bin/tryall (git -C /repo apply, quick check, git checkout): " + ts[:400],
                   "origin": "independent sub-agent given only the property text, the list of already known changes and a scratch worktree (round %d)"
                             % (6 if n in R6 else 5 if n in R5 else 4 if n in R4 else 3 if n in R3 else 2)},
                  open(os.path.join(d, "meta.json"), "w"), indent=1)
    print("ok")


if __name__ == "__main__":
    main()
