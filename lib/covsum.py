#!/usr/bin/env python3
"""Merge Go cover profiles (mode set/atomic/count) and print per-file statement coverage for teleport's own packages."""
import sys, glob, os, collections
blocks = {}
for f in glob.glob(os.path.join(sys.argv[1], "*.out")):
    for line in open(f):
        if line.startswith("mode:"):
            continue
        try:
            loc, n, cnt = line.rsplit(" ", 2)
        except ValueError:
            continue
        n = int(n); cnt = int(cnt)
        o = blocks.get(loc)
        blocks[loc] = (n, max(cnt, o[1]) if o else cnt)
per = collections.defaultdict(lambda: [0, 0, []])
for loc, (n, cnt) in blocks.items():
    fn, rng = loc.split(":", 1)
    fn = fn.replace("github.com/teleport-network/teleport/", "")
    if fn.endswith(".pb.go") or fn.endswith(".pb.gw.go") or "/testutil" in fn or fn.startswith("verif"):
        continue
    per[fn][1] += n
    if cnt > 0:
        per[fn][0] += n
    else:
        per[fn][2].append(rng.split(",")[0])
tot = [0, 0]
rows = []
for fn, (c, t, miss) in per.items():
    rows.append((fn, c, t, miss)); tot[0] += c; tot[1] += t
rows.sort()
for fn, c, t, miss in rows:
    print("%-70s %5d/%-5d %3d%%" % (fn, c, t, 100 * c // max(t, 1)))
print("TOTAL %d/%d %d%%" % (tot[0], tot[1], 100 * tot[0] // max(tot[1], 1)))
if len(sys.argv) > 2:
    for fn, c, t, miss in rows:
        if sys.argv[2] in fn:
            print(fn, "unreached blocks start at:", " ".join(sorted(miss, key=lambda x: int(x.split(".")[0]))))
