#!/usr/bin/env python3
"""Orchestrator for the TLA+ model-based checks of /verif.

bin/check <Cxx> quick|thorough [--replay <path>]

Three legs per property (DESIGN.md section 3):
  1. TLC model-checks the specification (design level, bounded, exhaustive);
  2. TLC generates behaviours of the same specification (simulation or
     exhaustive enumeration) which a Go driver replays on the real teleport
     application built from /repo's working tree, recording the projected real
     state after every step as ndjson;
  3. TLC validates the recorded trace: the *_Trace.tla specification binds its
     variables to the recorded real state, evaluates the property operators on
     every real step (lines <<"VIOL", k, name>>) and checks that every step
     is the specification's action of that name (lines <<"DRIFT", k, ev>>).

Verdict: VIOL lines on real steps decide; DRIFT is reported but is not an
alarm; anything that prevents a decision is exit 2.
"""
import json
import os
import re
import shutil
import subprocess
import sys
import time

ROOT = os.path.dirname(os.path.dirname(os.path.abspath(__file__)))
REPO = os.environ.get("VERIF_REPO", "/repo")
GOENV = dict(GOFLAGS="-mod=mod", GOPROXY="off", GOSUMDB="off", GOTOOLCHAIN="local")
NCPU = os.cpu_count() or 4


class Inconclusive(Exception):
    pass


def log(*a):
    print(*a, flush=True)


# ----------------------------------------------------------------------------
# work directory
# ----------------------------------------------------------------------------
class Work:
    def __init__(self, pid, tier, seed):
        self.pid, self.tier, self.seed = pid, tier, seed
        self.dir = os.path.join(ROOT, ".work", "%s.%d" % (pid, os.getpid()))
        shutil.rmtree(self.dir, ignore_errors=True)
        os.makedirs(self.dir)
        self.t0 = time.time()
        self.notes = []
        self.metan = 0

    def path(self, *p):
        return os.path.join(self.dir, *p)

    def cleanup(self):
        if not os.environ.get("VERIF_KEEP"):
            shutil.rmtree(self.dir, ignore_errors=True)

    def copy_spec(self, sub):
        d = self.path("spec_" + sub)
        if not os.path.isdir(d):
            shutil.copytree(os.path.join(ROOT, "spec", sub), d)
        return d


# ----------------------------------------------------------------------------
# Go harness
# ----------------------------------------------------------------------------
def build_harness(w):
    """Build the replay binary from /repo's current working tree (tag verif)."""
    if getattr(w, "binary", None):
        return w.binary
    out = w.path("harness.test")
    env = dict(os.environ, **GOENV)
    hdir = os.path.join(ROOT, "harness")
    if REPO != "/repo":
        # selftest: point the replace directive at a scratch copy
        hdir = w.path("harness_src")
        shutil.copytree(os.path.join(ROOT, "harness"), hdir)
        gm = open(os.path.join(hdir, "go.mod")).read().replace("=> /repo", "=> " + REPO)
        open(os.path.join(hdir, "go.mod"), "w").write(gm)
    shutil.copy(os.path.join(REPO, "go.sum"), os.path.join(hdir, "go.sum"))
    t = time.time()
    cover = ["-cover", "-coverpkg=github.com/teleport-network/teleport/..."] if os.environ.get("VERIF_COVER_DIR") else []
    p = subprocess.run(["go", "test", "-c", "-tags", "verif"] + cover + ["-o", out, "."], cwd=hdir, env=env,
                       stdout=subprocess.PIPE, stderr=subprocess.STDOUT, text=True)
    if p.returncode != 0:
        log(p.stdout[-4000:])
        raise Inconclusive("harness build failed (teleport does not compile with tag verif?)")
    log("[build] harness built from %s in %.1fs" % (REPO, time.time() - t))
    w.binary = out
    return out


def run_driver(w, binary, driver, infile, outfile, timeout=3600, extra_env=None, cwd=None):
    tmpd = w.path("tmp")
    os.makedirs(tmpd, exist_ok=True)
    env = dict(os.environ, VERIF_DRIVER=driver, VERIF_IN=infile, VERIF_OUT=outfile, VERIF_SEED=str(w.seed), TMPDIR=tmpd,
               DBUS_SESSION_BUS_ADDRESS="unix:path=/nonexistent-verif-dbus", VERIF_REPO_DIR=REPO)  # keyring's init() would otherwise dbus-launch a daemon per process
    if extra_env:
        env.update(extra_env)
    t = time.time()
    try:
        cover = []
        if os.environ.get("VERIF_COVER_DIR"):   # bin/coverage: statement coverage of teleport reached by the replayed behaviours
            os.makedirs(os.environ["VERIF_COVER_DIR"], exist_ok=True)
            cover = ["-test.coverprofile", os.path.join(os.environ["VERIF_COVER_DIR"], "%s.%d.%d.out" % (driver, os.getpid(), int(time.time() * 1000) % 10 ** 9))]
        p = subprocess.run([binary, "-test.run", "^TestDriver$", "-test.timeout", "0"] + cover, cwd=cwd or w.dir, env=env,
                           stdout=subprocess.PIPE, stderr=subprocess.STDOUT, text=True, timeout=timeout)
    except subprocess.TimeoutExpired:
        raise Inconclusive("driver %s timed out" % driver)
    if p.returncode != 0:
        log(p.stdout[-6000:])
        raise Inconclusive("driver %s failed (dead driver): exit %d" % (driver, p.returncode))
    log("[replay] driver %s: %.1fs" % (driver, time.time() - t))
    return p.stdout


# ----------------------------------------------------------------------------
# TLC
# ----------------------------------------------------------------------------
STATES_RE = re.compile(r"(\d+) states generated, (\d+) distinct states found")


def tlc(w, specdir, tla, cfg, args=(), env=None, timeout=1800, workers=None, heap=None):
    w.metan += 1
    meta = w.path("meta%d" % w.metan)
    cmd = ["java"]
    if heap:
        cmd.append("-Xmx" + heap)
    jtmp = w.path("jtmp")
    os.makedirs(jtmp, exist_ok=True)
    cmd += ["-XX:+UseParallelGC", "-Xss64m", "-Djava.io.tmpdir=" + jtmp, "-cp",
            "/opt/veriftools/tla/tla2tools.jar:/opt/veriftools/tla/CommunityModules-deps.jar", "tlc2.TLC",
            "-workers", str(workers or NCPU), "-metadir", meta, "-config", cfg]
    cmd += list(args) + [tla]
    e = dict(os.environ)
    if env:
        e.update(env)
    t = time.time()
    try:
        p = subprocess.run(cmd, cwd=specdir, env=e, stdout=subprocess.PIPE, stderr=subprocess.STDOUT, text=True,
                           timeout=timeout)
    except subprocess.TimeoutExpired:
        subprocess.run(["pkill", "-f", meta])
        raise Inconclusive("TLC timed out on %s" % tla)
    finally:
        shutil.rmtree(meta, ignore_errors=True)
    return p.returncode, p.stdout, time.time() - t


def parse_states(out):
    m = None
    for m in STATES_RE.finditer(out):
        pass
    if not m:
        return 0, 0
    return int(m.group(1)), int(m.group(2))


def model_check(w, sub, tla, cfg, timeout=1800, coverage=False, label=None):
    """Leg 1. Returns dict(generated, distinct, wall). Any error in the model is inconclusive."""
    d = w.copy_spec(sub)
    args = ["-coverage", "1"] if coverage else []
    rc, out, dt = tlc(w, d, tla, cfg, args=args, timeout=timeout)
    gen, dist = parse_states(out)
    if rc != 0 or "Model checking completed. No error has been found." not in out:
        log(out[-5000:])
        raise Inconclusive("model checking %s/%s did not complete cleanly (rc=%d): a counterexample in the "
                           "specification is a modelling problem, not a verdict about the code" % (tla, cfg, rc))
    zero = []
    if coverage:
        # actions never taken => vacuity
        for m in re.finditer(r"<(\w+) line (\d+), col \d+ to line \d+, col \d+ of module (\w+)>: (\d+):(\d+)", out):
            if int(m.group(5)) == 0 and m.group(1) not in ("Init",):
                zero.append("%s@%s:%s" % (m.group(1), m.group(3), m.group(2)))
    log("[mc] %s %s: %d generated, %d distinct, %.1fs%s" % (label or tla, cfg, gen, dist, dt,
                                                            (" UNUSED ACTIONS " + ",".join(zero)) if zero else ""))
    return dict(spec=tla, cfg=cfg, generated=gen, distinct=dist, wall_s=round(dt, 1), unused_actions=zero)


def apalache(w, sub, tla, inv, cinit="CInit", init="Init", length=0, timeout=900):
    """Symbolic (unbounded-integer) check of one invariant with Apalache; any outcome but NoError is inconclusive."""
    d = w.copy_spec(sub)
    out = w.path("apalache_%s_%s" % (tla.replace(".tla", ""), inv))
    cmd = ["apalache-mc", "check", "--out-dir=" + out, "--init=" + init, "--inv=" + inv, "--length=%d" % length, tla]
    if cinit and cinit != init:
        cmd.insert(3, "--cinit=" + cinit)
    t = time.time()
    try:
        p = subprocess.run(cmd, cwd=d, stdout=subprocess.PIPE, stderr=subprocess.STDOUT, text=True, timeout=timeout,
                           env=dict(os.environ, JVM_ARGS="-Djava.io.tmpdir=" + w.path("jtmp")))
    except subprocess.TimeoutExpired:
        raise Inconclusive("apalache timed out on %s/%s" % (tla, inv))
    if p.returncode != 0 or "The outcome is: NoError" not in p.stdout:
        log(p.stdout[-3000:])
        raise Inconclusive("apalache did not report NoError for %s/%s (rc=%d): a counterexample in the specification is a modelling problem" % (tla, inv, p.returncode))
    log("[apalache] %s %s: NoError in %.1fs" % (tla, inv, time.time() - t))
    return dict(spec=tla, invariant=inv, outcome="NoError", wall_s=round(time.time() - t, 1))


MBT_PREFIX = '<<"MBT", "'


def unescape_tla(s):
    out, i = [], 0
    while i < len(s):
        c = s[i]
        if c == "\\" and i + 1 < len(s):
            n = s[i + 1]
            out.append({"n": "\n", "t": "\t", '"': '"', "\\": "\\"}.get(n, n))
            i += 2
        else:
            out.append(c)
            i += 1
    return "".join(out)


def generate(w, sub, tla, cfg, outfile, num=None, depth=None, seed=None, timeout=1800, exhaustive=False, consts=None, limit=None):
    """Leg 2a. Behaviours printed by the *_MBT spec as <<"MBT", "<json>">> lines."""
    d = w.copy_spec(sub)
    cfgp = os.path.join(d, cfg)
    if consts:
        txt = open(cfgp).read()
        for k, v in consts.items():
            txt = re.sub(r"(?m)^(\s*%s\s*=\s*).*$" % re.escape(k), r"\g<1>%s" % v, txt)
        cfg = "gen_" + cfg
        open(os.path.join(d, cfg), "w").write(txt)
    if exhaustive:
        args, workers = [], 1
    else:
        args = ["-simulate", "num=%d" % num, "-depth", str(depth + 2), "-seed", str(seed if seed is not None else w.seed)]
        workers = 1
    rc, out, dt = tlc(w, d, tla, cfg, args=args, timeout=timeout, workers=workers)
    if rc != 0:
        log(out[-4000:])
        raise Inconclusive("behaviour generation %s failed rc=%d" % (tla, rc))
    seen, n = set(), 0
    with open(outfile, "a") as f:
        for line in out.splitlines():
            if line.startswith(MBT_PREFIX) and line.endswith('">>'):
                body = unescape_tla(line[len(MBT_PREFIX):-3])
                if body in seen or (limit and n >= limit):
                    continue
                seen.add(body)
                json.loads(body)
                f.write(body + "\n")
                n += 1
    log("[gen] %s: %d distinct behaviours (%s) in %.1fs" % (tla, n, "exhaustive" if exhaustive else "simulate num=%s depth=%s" % (num, depth), dt))
    if n == 0 and not exhaustive and not getattr(w, "_gen_retry", False):
        # a random walk that picks a disabled branch ends early and prints nothing; with few walks all may end that way:
        # one retry with five times as many walks and another seed before giving up
        w._gen_retry = True
        try:
            return generate(w, sub, tla, cfg if not consts else cfg[len("gen_"):], outfile, num=num * 5, depth=depth, seed=(seed if seed is not None else w.seed) + 7919,
                            timeout=timeout, consts=consts, limit=limit or num)
        finally:
            w._gen_retry = False
    if n == 0:
        raise Inconclusive("no behaviours generated by %s" % tla)
    return n


def append_regress(sub, name, outfile):
    """Fixed regression behaviours (every behaviour that ever exposed a defect)."""
    p = os.path.join(ROOT, "spec", sub, name)
    n = 0
    if os.path.exists(p):
        with open(outfile, "a") as f:
            for line in open(p):
                line = line.strip()
                if line and not line.startswith("#"):
                    json.loads(line)
                    f.write(line + "\n")
                    n += 1
    return n


VIOL_RE = re.compile(r'^<<"(VIOL|DRIFT)", (\d+), "([^"]*)">>$')


def validate(w, sub, tla, cfg, tracefile, timeout=1800, env=None):
    """Leg 3. Returns (viols, drifts, nlines): lists of (line_no, name)."""
    d = w.copy_spec(sub)
    nlines = sum(1 for _ in open(tracefile))
    if nlines == 0:
        raise Inconclusive("empty trace")
    e = {"TRACE_FILE": tracefile}
    if env:
        e.update(env)
    rc, out, dt = tlc(w, d, tla, cfg, env=e, timeout=timeout, workers=1)
    viols, drifts = [], []
    for line in out.splitlines():
        m = VIOL_RE.match(line.strip())
        if m:
            (viols if m.group(1) == "VIOL" else drifts).append((int(m.group(2)), m.group(3)))
    gen, dist = parse_states(out)
    w.partial = None
    if rc != 0 or "No error has been found" not in out or dist not in (nlines, nlines + 1):
        log(out[-5000:])
        why = ("trace validation %s did not consume the whole trace (rc=%d, %d of %d lines): "
               "evaluation error or malformed trace" % (tla, rc, dist, nlines))
        # operators that had already failed on real steps before TLC stopped are decided; the rest of the trace is not.
        # judge() reports them; if none of them is a new violation of this property the run stays without verdict (exit 2)
        viols = [(k, n) for (k, n) in viols if k <= max(dist, 1)]
        if not viols:
            raise Inconclusive(why + ", no verdict")
        w.partial = why
        log("NOTE " + why + "; %d operator failures were decided before that" % len(viols))
        return viols, [(k, n) for (k, n) in drifts if k <= max(dist, 1)], max(dist, 1)
    log("[trace] %s: %d lines validated in %.1fs, %d VIOL, %d DRIFT" % (tla, nlines, dt, len(viols), len(drifts)))
    return viols, drifts, nlines


# ----------------------------------------------------------------------------
# trace helpers, known findings, evidence
# ----------------------------------------------------------------------------
def never_taken(mcs):
    """actions (name@module:line) that no configuration of the run ever took: vacuity"""
    sets = [set(m["unused_actions"]) for m in mcs]
    return sorted(set.intersection(*sets)) if sets else []


def load_trace(path):
    return [json.loads(l) for l in open(path)]


def load_behaviours(path):
    return [json.loads(l) for l in open(path) if l.strip()]


def known_findings(pid):
    p = os.path.join(ROOT, "known_findings.json")
    if not os.path.exists(p):
        return []
    data = json.load(open(p))
    return [f for f in data.get("findings", []) if f.get("property") == pid and f.get("status") == "open"]


def match_finding(findings, viol_name, line):
    """A finding lists the violated operator and the case signature emitted by the driver ('sig')."""
    sig = line.get("sig", "")
    for f in findings:
        if viol_name in f.get("viol", []) and re.fullmatch(f.get("sig", ""), sig):
            return f
    return None


def write_replay(pid, idx, payload):
    d = os.path.join(ROOT, "replays", pid)
    os.makedirs(d, exist_ok=True)
    p = os.path.join(d, "%s_%d.json" % (time.strftime("%Y%m%d%H%M%S"), idx))
    json.dump(payload, open(p, "w"), indent=1)
    return p


def write_evidence(w, level, coverage, assumptions, violations):
    ev = dict(property_id=w.pid, tier=w.tier, seed=w.seed, level=level, coverage=coverage,
              assumptions=assumptions, wall_s=round(time.time() - w.t0, 1), violations=violations)
    os.makedirs(os.path.join(ROOT, "evidence"), exist_ok=True)
    json.dump(ev, open(os.path.join(ROOT, "evidence", w.pid + ".json"), "w"), indent=1, sort_keys=True)


def judge(w, pid, trace, behaviours, viols, bkey="b", prefix=None):
    """Turn VIOL lines into KNOWN-FINDING / VIOLATION output. Returns number of new violations."""
    new = _judge(w, pid, trace, behaviours, viols, bkey, prefix)
    if getattr(w, "partial", None):
        why, w.partial = w.partial, None
        if new == 0:
            raise Inconclusive(why + ", and nothing decided before that is a new violation of this property: no verdict")
    return new


def _judge(w, pid, trace, behaviours, viols, bkey="b", prefix=None):
    findings = known_findings(pid)
    if prefix:
        viols = [(k, n) for (k, n) in viols if n.startswith(prefix)]
    by_beh = {}
    for (k, name) in viols:
        line = trace[k - 1]
        by_beh.setdefault(line.get(bkey, 0), []).append((k, name, line))
    new, known_printed = 0, set()
    for b, items in sorted(by_beh.items()):
        fresh = []
        for (k, name, line) in items:
            f = match_finding(findings, name, line)
            if f:
                if f["id"] not in known_printed:
                    known_printed.add(f["id"])
                    log("KNOWN-FINDING: property=%s %s" % (pid, f["what"]))
            else:
                fresh.append((k, name, line))
        if fresh:
            new += 1
            if new <= 5:
                lines = [l for l in trace if l.get(bkey, 0) == b]
                beh = behaviours[b] if behaviours and b < len(behaviours) else None
                p = write_replay(pid, new, dict(property=pid, seed=w.seed, tier=w.tier, behaviour=beh,
                                                violated=[(k, n) for (k, n, _) in fresh], trace=lines))
                log("VIOLATION property=%s replay=%s" % (pid, p))
                for (k, n, line) in fresh[:4]:
                    log("   line %d: %s violated at step %s(%s) res=%s sig=%s" % (k, n, line.get("ev"), json.dumps(line.get("args"))[:200], line.get("res"), line.get("sig")))
    if new > 5:
        log("   (%d further violating behaviours not written)" % (new - 5))
    return new


def samples_from(behaviours, n=3):
    out = []
    for b in behaviours[:n]:
        out.append(b if len(json.dumps(b)) < 3000 else b[:4])
    return out
