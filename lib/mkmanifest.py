#!/usr/bin/env python3
"""Regenerates MANIFEST.json from the table below (keeps it valid at all times)."""
import json, os
ROOT = os.path.dirname(os.path.dirname(os.path.abspath(__file__)))
TECH = "explicit TLA+ specification model-checked by TLC; TLC-generated behaviours replayed on the real application; recorded real traces validated by a TLC trace specification (property operators + conformance)"
XNOTE = ("Bounds of the exhaustive TLC run are small (2 chains, 1-2 packets per direction, 2 commits); replayed behaviours are random walks of the same "
         "specification (seeded) plus a fixed regression list. Light clients are abstracted to verified-height sets in XIBC.tla; the replay uses real tendermint "
         "clients and IAVL proofs. Byte-code-only system contracts are bound by conformance on every replayed step. TLC, Go toolchain, cosmos-sdk bank/IAVL trusted.")
CLAIMED = {
 "C01": ("XIBC.tla (send/commit/update/recv/ack with duplicated, re-encoded and altered receives) is model-checked by TLC; on every replayed real step TLC evaluates RecvOnce, DupRejected, RejectNoChange (store digest), EffectsOnlyByRecv, MarksExact and ReceivedWasSent on the recorded real state of both chains.", XNOTE),
 "C02": ("Every accepted MsgRecvPacket/MsgAcknowledgement of the replayed behaviours (altered packets, proofs, heights, signers) is compared by TLC with ground truth recorded from the real counterparty application (what it had committed at the proof height, whether the client verified that height, whether the proof is the unmodified proof of that path); rejected messages must leave the store digest unchanged.", XNOTE),
 "C03": ("Conservation (escrow = minted + in flight), Exclusive (delivered xor refunded), ErrorAckLeavesNothing, WrappedBacked and SupplyFixed are invariants of XIBC.tla checked exhaustively by TLC within bounds and evaluated by TLC on the real projected state (ERC-20 balances, outTokens, bindings, ack status) after every replayed step, including failing call data at every stage.", XNOTE),
 "C04": ("SendStep (next sequence, exactly one commitment equal to the hash of the emitted bytes), SeqAgree (store vs packet contract), NoGap, FailedSendNoChange (digest) and SeqOnlyBySend are checked by TLC on the model and on every replayed real step, with sends to known/unknown destinations, above-balance amounts and sends interleaved with receives.", XNOTE),
 "C05": ("AckWritten, AckStable, OneAckPerReceipt, CommitRemovedOnlyByAck, AckOnce (status, fee payment, commitment deletion), StatusOnce and StatusMatchesAck are checked by TLC on the model and on every replayed real step with duplicated, reordered and conflicting acknowledgement messages.", XNOTE),
 "C06": ("OnlyRelayers (accepted updates/receives only from registered signers, per the real registry), AckRelayerField, RejectNoChange and ClientsOnlyByUpdate are evaluated by TLC on every replayed real step.", XNOTE + " Privileged contract methods and TSS clients are not yet covered by this check (planned extension)."),
 "C07": ("TMClient.tla (the client's acceptance rule with tendermint's adjacent / non-adjacent verification transcribed, pruning, update, proof gate) is model-checked by TLC for AcceptedIsSound, StoresExactly, LatestMonotone, RejectChangesNothing, ExpiredAcceptsNothing, MetaForCons; TLC-generated header sequences (validator sets and power splits, signer subsets, trusted heights, back-filling, wrong revision, clock positions) are instantiated as real signed tendermint headers and submitted to the real client; TLC judges every real step with the same operators on the real client store and checks the proof gate for every height.",
         "Validator universe of 3 with powers 1..3, six validator sets, heights 2..6, trust level 1/3, trusting period 3, drift 1, delay 1 (hours). Signature checking inside tendermint's light package is trusted."),
 "C10": ("ETHClient.tla transcribes verifyHeader/update/RestrictChain loop by loop; TLC checks NeverWedged, AncestryRoots, AcceptedHasStoredParent, HeadIsLast, OnlyRuleAbiding over every submission order of two header trees (7 and 11 headers, including siblings with equal state roots); TLC-generated submission orders are replayed with real Ethereum headers on the real client and TLC judges every real step (NeverWedged on the real acceptance decision, AncestryRoots on the raw client store), plus conformance of index / root-main / consensus states / head.",
         "Rinkeby chain id (no proof-of-work); only the timestamp mutant is in the universe; pruning of expired consensus states is not exercised (large trusting period)."),
 "C11": ("Aggregate.tla (registry, governance actions, both conversion directions for module-owned and external pairs, misbehaving token contracts, self-destruct clean-up) is model-checked by TLC for BackedModuleOwned, BackedExternal, NonNegative and RejectChangesNothing; on every replayed real step TLC evaluates the backing invariants, Gate, ExactCoinToToken/ExactTokenToCoin and RejectNoChange (digest of the aggregate, bank and evm stores) on the real bank/ERC-20 state.",
         "Bounds of the exhaustive run: 2 coins, 1 module contract, 2 external contracts, amount 1, balance 2. BackedExternal excludes pairs whose address governance replaced. Contracts' byte code is trusted as compiled in the repository."),
 "C12": ("Findable, NoDangling, NoSharing, UniqueIds, StillConvertible over all sequences of register-coin, add-coin, register-ERC20, toggle, update-address, parameter change, self-destruct clean-up and conversions are checked by TLC on Aggregate.tla, and evaluated by TLC on the RAW content of the three aggregate store prefixes of the real application after every replayed step (plus KeyIsId and RejectNoChange).",
         "Same bounds as C11. Governance actions run through the routed proposal handler in a cache context."),
 "C16": ("ICS20.tla (transfer application verdict, conversion hook, what the IBC core commits) is model-checked by TLC for AckAlwaysCommitted, SuccessAcked and Backed; TLC-generated receive/register/toggle/parameter sequences are replayed through ibc-go's real core between two teleport applications, and TLC judges on every real receive: AckCommitted, AckPreserved (committed acknowledgement = the wrapped application's), SuccessAcked, ConversionAtomic, FailedTransferNoEffect, OtherDenomsUntouched, plus conformance.",
         "Packet classes: registered/unregistered voucher, enabled/disabled pair and module, valid/invalid/blocked receiver, valid/zero/negative/non-numeric amount. Returning native coins are not in the replay yet."),
 "C17": ("Adapter.tla (call paths direct / forwarding contract / delegatecall / look-alike emitter / reverting forwarder x delegate, undelegate, withdraw, vote x valid and invalid arguments, deposit burn) is model-checked by TLC for Conserved, FailedTxChangesNothing, OnlySystemContractEvents, ForCallerOnly; TLC-generated sequences are replayed as signed EVM transactions on the real application and TLC judges on the real staking/gov/bank state after every step: ForCallerOnly, ExactArgs, OnlySystemContractEvents (native store digest), FailedTxChangesNothing (digest), SupplyUnchanged, BurnToCollector.",
         "Helper contracts are hand-assembled byte code. One validator. Redelegation and weighted votes are not yet in the replay."),
 "C13": ("Store.tla (store keys as byte-token sequences, the iterators that parse them back, Export/Validate/Import) is model-checked by TLC for RoundTrip, Valid, Idempotent, ParseBack and Injective over all byte patterns of heights and revisions (including the separator byte inside binary heights); TLC-generated create/update/toggle sequences are replayed on the real application and after every step a real genesis round trip (export, module validation, InitChain of a fresh application, raw store comparison, second export) is judged by TLC, and the keys the model predicts to be lost are compared with the keys really lost.",
         "Client types in the replay: Tendermint (synthetic counterparty, real signed headers) and TSS. W=2 abstract bytes per uint64 over {0x2f,0x61,0x00}. Raw comparison covers the xibc and aggregate stores and the parameter subspaces of xibc/aggregate/rvesting."),
 "C18": ("Lifecycle.tla (create/upgrade/toggle proposals with valid and invalid contents, MsgUpdateClient per client type) is model-checked by TLC for Initialised, ConsHaveMeta, TssKeepsNothing, FailureChangesNothing, UpgradeKeepsType, ToggleChangesType, CreateOnlyUnused; TLC-generated sequences are replayed on the real application against a real counterparty chain, and TLC judges on the recorded real client store after every step: InstallsExactly, Initialised, Usable (Status active, a real proof at the installed height verifies, a valid update succeeds), FailureChangesNothing (store digest), ValidUpdateSucceeds for every type, plus conformance of every step.",
         "Client types in the replay: Tendermint and TSS (BSC/ETH lifecycle is covered in their own drivers once built). Proposals run through the routed gov handler in a cache context."),
 "C20": ("RVesting.tla is model-checked exhaustively by TLC within small bounds; TLC-generated behaviours (block and parameter-change sequences) are replayed on the real application and TLC evaluates Release/NothingElse/SupplyConst/NoMove on every recorded real step, plus conformance of every step with the specification's action.",
         "Bounds: 2 denominations, rewards 0..2(3), 1..2 entries, pools 0..3(5). Bank keeper trusted. Parameter changes run through the routed params proposal handler in a cache context."),
}
LEVEL = {}
def main():
    props = [json.loads(l) for l in open(os.path.join(ROOT, "properties.jsonl"))]
    m = {"version": 1, "setup_cmd": "cd /verif && bin/setup",
         "hooks": {"guard": "verif", "enable": "go test -c -tags verif (harness module /verif/harness, replace github.com/teleport-network/teleport => /repo)",
                   "baseline_off_cmd": "cd /repo && go test -mod=mod -json -vet=off -count=1 -timeout 25m ./...",
                   "source_commits": [], "add_only": True},
         "engines": [{"name": "tlc-mbt", "path": "/verif/bin/check", "serves_properties": sorted(CLAIMED),
                      "kind_free_text": "TLA+ specifications under /verif/spec model-checked with TLC; TLC-generated behaviours replayed on the real application by the Go harness (/verif/harness); recorded real traces validated by TLC trace specifications"}],
         "checks": [], "not_applicable": [],
         "notes": "DESIGN.md explains the approach; known_findings.json lists fixed and open findings; bin/check <id> quick|thorough"}
    hooks = os.path.join(ROOT, "hooks_commits.txt")
    if os.path.exists(hooks):
        m["hooks"]["source_commits"] = [l.strip() for l in open(hooks) if l.strip()]
    for pid in sorted(CLAIMED):
        text, note = CLAIMED[pid]
        m["checks"].append({"property_id": pid, "quick_cmd": "bin/check %s quick" % pid, "thorough_cmd": "bin/check %s thorough" % pid,
                            "evidence_file": "/verif/evidence/%s.json" % pid, "replay_cmd_template": "bin/check %s quick --replay {path}" % pid,
                            "engine": "tlc-mbt", "level_claimed": {"category": LEVEL.get(pid, "model_checking"), "text": text, "design_ref": "DESIGN.md section 5 (%s)" % pid},
                            "level_note": note, "technique": TECH})
    for p in props:
        if p["id"] not in CLAIMED:
            m["not_applicable"].append({"property_id": p["id"], "reason": "no check registered yet (planned: DESIGN.md section 8); nothing is claimed for it"})
    json.dump(m, open(os.path.join(ROOT, "MANIFEST.json"), "w"), indent=1)
if __name__ == "__main__":
    main()
