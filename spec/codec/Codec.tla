------------------------------- MODULE Codec -------------------------------
(***************************************************************************)
(* Packet / acknowledgement / transfer-data / call-data encoding           *)
(* (x/xibc/core/packet/types/{packet,evm}.go: ABI pack; ABI unpack -> JSON *)
(* marshal -> JSON unmarshal) and the packet store keys with their         *)
(* iterators (host/keys.go, packet keeper iterateHashes / ParsePath).      *)
(* Field values are partitioned into classes; the decode path goes through *)
(* JSON, so strings are sanitised: the model itself says in which classes  *)
(* the round trip is the identity (all valid UTF-8 strings).               *)
(***************************************************************************)
EXTENDS TLC, Json, Sequences
VARIABLE c
StrCls  == {"empty", "ascii", "slash", "html", "multibyte", "hexaddr", "invalidutf8", "len64", "long", "nul", "quote"}
ByteCls == {"empty", "short", "b32", "nonutf8", "long"}
NumCls  == {"0", "1", "2p53p1", "2p63", "max"}
Objs    == {"packet", "ack", "transfer", "calldata"}
(* valid chain names; the kw* classes are names equal to a constant element of the store paths ("sequences", "commitments", ...) *)
NameCls == {"plain", "dots", "brackets", "hash", "len3", "len64", "digits", "kwsequences", "kwcommitments", "kwreceipts", "kwacks", "kwnextseq"}
ObjCases == [fam : {"obj"}, obj : Objs, s : StrCls, b : ByteCls, n : NumCls]
KeyCases == [fam : {"key"}, src : NameCls, dst : NameCls, n : NumCls]
(* consensus-state keys of the client stores: written by the client keeper under the full height (revision, number) and *)
(* read back by the light client's own ascending iterator (the one its pruning and upgrade code uses)                  *)
ConsCases == [fam : {"cons"}, ty : {"tm", "bsc", "eth"}, rev : {"0", "1", "2p63"}, n : NumCls \ {"0"}]
Cases == ObjCases \cup KeyCases \cup ConsCases
(* decoding re-creates the value exactly for every valid UTF-8 string *)
LossFree(x) == x.s # "invalidutf8"
Init == c \in Cases
Next == UNCHANGED c
Spec == Init /\ [][Next]_c
Emit == PrintT(<<"MBT", ToJson(<< [act |-> "Codec", lossfree |-> (IF c.fam = "obj" THEN LossFree(c) ELSE TRUE)] @@ c >>)>>)
=============================================================================
