---------------------------- MODULE Codec_Trace ----------------------------
EXTENDS Integers, Sequences, TLC, Json, IOUtils
Trace == ndJsonDeserialize(IOEnv.TRACE_FILE)
VARIABLE l
ln(k) == Trace[k]
Report(k, name, holds) == holds \/ PrintT(<<"VIOL", k, name>>)
LossFree(x) == x.s # "invalidutf8"
Judge(k) ==
  /\ (ln(k).args.fam = "obj") =>
       (* decoding an encoded value returns the same value (valid UTF-8 strings) *)
       /\ Report(k, "C19.DecodeEncode", LossFree(ln(k).args) => ln(k).decenc)
       (* re-encoding what was decoded returns the same bytes *)
       /\ Report(k, "C19.EncodeDecode", LossFree(ln(k).args) => ln(k).encdec)
       /\ Report(k, "C19.NoPanic", ln(k).res # "panic")
       (* packets differing in one field have different commitments *)
       /\ Report(k, "C19.CommitmentsDiffer", ln(k).commitdiffer)
  /\ (ln(k).args.fam = "key") =>
       /\ Report(k, "C19.KeyInjective", ln(k).injective)
       /\ Report(k, "C19.KeyParseBack", ln(k).parseback)
  /\ (ln(k).args.fam = "cons") =>
       /\ Report(k, "C19.ConsKeyParseBack", ln(k).parseback)
       /\ Report(k, "C19.NoPanic", ln(k).res # "panic")
C_Loss(k) == (ln(k).args.fam = "obj") => (ln(k).decenc = LossFree(ln(k).args) \/ PrintT(<<"DRIFT", k, "lossfree">>))
TInit == l = 0
TNext == l < Len(Trace) /\ l' = l + 1 /\ Judge(l + 1) /\ C_Loss(l + 1)
TSpec == TInit /\ [][TNext]_l
=============================================================================
