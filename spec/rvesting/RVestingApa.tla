---------------------------- MODULE RVestingApa ----------------------------
(* The core of C20 over unbounded integers (Apalache, symbolic): what BeginBlocker computes entry by entry equals    *)
(* min(sum of the denomination's entries, pool balance), for EVERY pool balance and EVERY reward amount, for reward   *)
(* lists of up to MaxLen entries over two denominations.  (TLC checks the same equation, and the real code is bound  *)
(* to it by replay, only for small balances and amounts.)                                                            *)
EXTENDS Integers, Sequences, Apalache

CONSTANT
  \* @type: Set(Str);
  Denoms

VARIABLES
  \* @type: Str -> Int;
  pool,
  \* @type: Seq({denom: Str, amt: Int});
  reward

CInit == Denoms = {"a", "b"}

Min(a, b) == IF a < b THEN a ELSE b

\* @type: (Str -> Int, {denom: Str, amt: Int}) => (Str -> Int);
Step(acc, e) == [acc EXCEPT ![e.denom] = @ + Min(e.amt, pool[e.denom] - acc[e.denom])]

\* @type: Str -> Int;
Zero == [d \in Denoms |-> 0]

Vest == ApaFoldSeqLeft(Step, Zero, reward)

\* @type: (Str) => Int;
SumR(d) == LET \* @type: (Int, {denom: Str, amt: Int}) => Int;
               Add(s, e) == s + (IF e.denom = d THEN e.amt ELSE 0)
           IN ApaFoldSeqLeft(Add, 0, reward)

Init ==
  /\ pool \in [Denoms -> Nat]
  /\ reward = Gen(4)
  /\ \A i \in DOMAIN reward : reward[i].denom \in Denoms /\ reward[i].amt >= 0

Next == UNCHANGED <<pool, reward>>

(* the statement of C20 for one block *)
VestIsDue == \A d \in Denoms : Vest[d] = Min(SumR(d), pool[d])
NeverOverdraws == \A d \in Denoms : Vest[d] <= pool[d] /\ Vest[d] >= 0
=============================================================================
