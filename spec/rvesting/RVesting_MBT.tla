---------------------------- MODULE RVesting_MBT ----------------------------
(* Behaviour generator: RVesting's Next with a history variable.  Every     *)
(* behaviour of length Depth is printed as one JSON line                    *)
(*   <<"MBT", "[{init..},{act..},...]">>                                     *)
(* which the Go driver replays on the real application.                     *)
EXTENDS RVesting, Json
CONSTANTS MaxPool, Depth
VARIABLE hist
MCInitPools == [Denoms -> 0..MaxPool]

Rec(act, p) == [act |-> act, params |-> p, pool |-> pool', sink |-> sink', moved |-> last'.moved]

MInit == /\ Init
         /\ hist = << [act |-> "Init", params |-> params, pool |-> pool, sink |-> sink, moved |-> Zero] >>

MNext == /\ Len(hist) <= Depth
         /\ \/ BeginBlock /\ hist' = Append(hist, Rec("Block", params))
            \/ LET p == RandomElement(ParamSpace) IN ParamChange(p) /\ hist' = Append(hist, Rec("ParamChange", p))
            \/ LET d == RandomElement(Denoms \cup {"default"})  on == RandomElement({TRUE, FALSE, FALSE}) IN
                  BankSwitch(d, on) /\ hist' = Append(hist, [act |-> "BankSwitch", params |-> params, pool |-> pool', sink |-> sink', moved |-> Zero, denom |-> d, on |-> on])

MSpec == MInit /\ [][MNext]_<<vars, hist>>

Emit == Len(hist) = Depth + 1 => PrintT(<<"MBT", ToJson(hist)>>)
=============================================================================
