------------------------------ MODULE RVesting ------------------------------
(***************************************************************************)
(* Reward vesting (x/rvesting).  One action per ABCI call that touches the *)
(* module: BeginBlock (module/abci.go BeginBlocker) and the execution of a *)
(* passed parameter-change proposal (params handler -> subspace validator  *)
(* types/param.go validatePerBlockReward).  Bank state is abstracted to    *)
(* the pool (module account), the sink (fee collector, drained into the    *)
(* distribution module in the same BeginBlock) and the total supply.       *)
(***************************************************************************)
EXTENDS Integers, Sequences, FiniteSets, TLC

CONSTANTS Denoms,      \* reward denominations
          MaxReward,   \* per-entry reward amounts range over 0..MaxReward
          MaxEntries,  \* length of the PerBlockReward list
          InitPools    \* set of initial pool functions  [Denoms -> Nat]

VARIABLES pool,    \* pool[d]  : balance of the rvesting module account
          sink,    \* sink[d]  : fee collector + distribution module
          params,  \* [enabled, reward]  reward is a sequence of [denom, amt]
          halted,  \* TRUE once BeginBlock panicked (chain halt)
          last     \* last action with the amounts it moved (observation)

vars == <<pool, sink, params, halted, last>>

Coin        == [denom : Denoms, amt : 0..MaxReward]
RewardLists == UNION { [1..n -> Coin] : n \in 1..MaxEntries }
ParamSpace  == [enabled : BOOLEAN, reward : RewardLists]
Zero        == [d \in Denoms |-> 0]

Min(a, b) == IF a < b THEN a ELSE b

(* the per-block reward of denomination d: entries of one denomination add up *)
RECURSIVE SumReward(_, _, _)
SumReward(rw, d, i) ==
    IF i > Len(rw) THEN 0
    ELSE (IF rw[i].denom = d THEN rw[i].amt ELSE 0) + SumReward(rw, d, i + 1)

(* What BeginBlocker computes, entry by entry, in list order: each entry    *)
(* takes min(reward, what the pool still holds after earlier entries).      *)
RECURSIVE Vest(_, _, _, _)
Vest(p, rw, i, acc) ==
    IF i > Len(rw) THEN acc
    ELSE LET d    == rw[i].denom
             rem  == p[d] - acc[d]
             take == Min(rw[i].amt, rem)
         IN  Vest(p, rw, i + 1, [acc EXCEPT ![d] = @ + take])

Vested(p, ps) == IF ps.enabled THEN Vest(p, ps.reward, 1, Zero) ELSE Zero

(* the statement of C20, per denomination *)
Due(p, ps, d) == IF ps.enabled THEN Min(SumReward(ps.reward, d, 1), p[d]) ELSE 0

Init ==
    /\ pool \in InitPools
    /\ sink = Zero
    /\ params \in ParamSpace
    /\ halted = FALSE
    /\ last = [act |-> "Init", moved |-> Zero]

BeginBlock ==
    /\ ~halted
    /\ LET v == Vested(pool, params) IN
         /\ pool' = [d \in Denoms |-> pool[d] - v[d]]
         /\ sink' = [d \in Denoms |-> sink[d] + v[d]]
         /\ last' = [act |-> "Block", moved |-> v]
    /\ UNCHANGED <<params, halted>>

(* a passed parameter-change proposal; p ranges over what validation accepts *)
ParamChange(p) ==
    /\ ~halted
    /\ params' = p
    /\ last' = [act |-> "ParamChange", moved |-> Zero]
    /\ UNCHANGED <<pool, sink, halted>>

(* Governance changes the bank module's transfer switches (SendEnabled of one denomination, or the default): they apply *)
(* to transfers between accounts, never to what a module moves between module accounts - vesting goes on unchanged.      *)
BankSwitch(d, on) ==
    /\ ~halted
    /\ last' = [act |-> "BankSwitch", moved |-> Zero]
    /\ UNCHANGED <<pool, sink, params, halted>>

Next == BeginBlock \/ (\E p \in ParamSpace : ParamChange(p)) \/ (\E d \in Denoms \cup {"default"}, on \in BOOLEAN : BankSwitch(d, on))

Spec == Init /\ [][Next]_vars

-----------------------------------------------------------------------------
(* Properties (C20).  They are written over pool/sink/params/last only so   *)
(* that the Monitor can evaluate the same operators on recorded real state. *)

TypeOK == /\ pool \in [Denoms -> Nat] /\ sink \in [Denoms -> Nat]
          /\ params \in ParamSpace /\ halted \in BOOLEAN

PoolNonNegative == \A d \in Denoms : pool[d] >= 0

ReleaseStep(p0, s0, ps0, p1, s1) ==
    \A d \in Denoms : /\ p1[d] = p0[d] - Due(p0, ps0, d)
                      /\ s1[d] = s0[d] + Due(p0, ps0, d)

Release == [][last'.act = "Block" => ReleaseStep(pool, sink, params, pool', sink')]_vars

NoMoveOutsideBlock == [][last'.act # "Block" => pool' = pool /\ sink' = sink]_vars

DisabledOrEmptyNoMove ==
    [][(last'.act = "Block" /\ (~params.enabled \/ pool = Zero)) => pool' = pool /\ sink' = sink]_vars

MovedIsDue == last.act = "Block" => \A d \in Denoms : last.moved[d] <= MaxReward * MaxEntries

NeverHalts == ~halted
=============================================================================
