SPECIFICATION Spec
CONSTANTS
  Denoms = {"atele", "btok"}
  MaxReward = 3
  MaxEntries = 3
  MaxPool = 5
  InitPools <- MCInitPools
INVARIANTS TypeOK PoolNonNegative MovedIsDue NeverHalts
PROPERTIES Release NoMoveOutsideBlock DisabledOrEmptyNoMove SupplyConst
CHECK_DEADLOCK FALSE
