SPECIFICATION Spec
CONSTANTS
  Denoms = {"atele", "btok"}
  MaxReward = 2
  MaxEntries = 2
  MaxPool = 3
  InitPools <- MCInitPools
INVARIANTS TypeOK PoolNonNegative MovedIsDue NeverHalts
PROPERTIES Release NoMoveOutsideBlock DisabledOrEmptyNoMove SupplyConst
CHECK_DEADLOCK FALSE
