-------------------------- MODULE RVesting_Trace --------------------------
(***************************************************************************)
(* The verdict for C20 (Judge) and the binding of RVesting.tla to the code  *)
(* (Conform), in one pass.  Next only consumes the next recorded line of the  *)
(* trace produced by the real application and binds pool/sink/params/last  *)
(* to the REAL projected state.  The properties are RVesting's own         *)
(* operators (ReleaseStep, Due, ...) evaluated on consecutive real states. *)
(***************************************************************************)
EXTENDS Integers, Sequences, FiniteSets, TLC, Json, IOUtils

CONSTANTS Denoms, MaxReward, MaxEntries

Trace == ndJsonDeserialize(IOEnv.TRACE_FILE)

VARIABLES l, pool, sink, params, halted, last, supply, rest, other, res
InitPools == {}
INSTANCE RVesting

mvars == <<l, pool, sink, params, halted, last, supply, rest, other, res>>

Fn(r)  == [d \in Denoms |-> r[d]]
Ps(r)  == [enabled |-> r.enabled, reward |-> r.reward]

Bind(k) ==
    LET ln == Trace[k] IN
    /\ l' = k
    /\ pool'   = Fn(ln.st.pool)
    /\ sink'   = Fn(ln.st.sink)
    /\ supply' = Fn(ln.st.supply)
    /\ rest'   = Fn(ln.st.rest)
    /\ params' = Ps(ln.st.params)
    /\ halted' = (ln.res = "panic")
    /\ other'  = ln.other
    /\ res'    = ln.res
    /\ last'   = [act |-> ln.ev, moved |-> Fn(ln.moved)]

MInit ==
    LET ln == Trace[1] IN
    /\ l = 1
    /\ pool = Fn(ln.st.pool) /\ sink = Fn(ln.st.sink) /\ supply = Fn(ln.st.supply) /\ rest = Fn(ln.st.rest)
    /\ params = Ps(ln.st.params) /\ halted = FALSE /\ other = ln.other
    /\ res = ln.res
    /\ last = [act |-> "Reset", moved |-> Fn(ln.moved)]

Step(k) == Trace[k].ev # "Reset"     \* line k continues the behaviour of line k-1

(* --- C20 evaluated on consecutive REAL states --------------------------- *)
(* Each operator is an action: unprimed = state recorded at line l,        *)
(* primed = state recorded at line l+1.                                     *)
A_PoolNonNegative == \A d \in Denoms : pool'[d] >= 0 /\ sink'[d] >= 0

A_NeverHalts == res' # "panic"

A_Release == last'.act = "Block" =>
                  /\ ReleaseStep(pool, sink, params, pool', sink')
                  /\ \A d \in Denoms : last'.moved[d] = Due(pool, params, d)

A_NothingElse == last'.act = "Block" => (rest' = rest /\ other' = other)

A_SupplyConst == supply' = supply

A_DisabledOrEmptyNoMove ==
    (last'.act = "Block" /\ (~params.enabled \/ pool = Zero)) => (pool' = pool /\ sink' = sink)

A_NoMoveOutsideBlock == last'.act # "Block" => (pool' = pool /\ sink' = sink /\ rest' = rest)

(* an accepted parameter change installs exactly the proposed value; a rejected one changes nothing *)
A_ParamChange == last'.act = "ParamChange" =>
                     IF res' = "ok" THEN params' = Ps(Trace[l'].args) ELSE params' = params

Report(k, name, holds) == holds \/ PrintT(<<"VIOL", k, name>>)

Judge(k) ==
    /\ Report(k, "PoolNonNegative", A_PoolNonNegative)
    /\ Report(k, "NeverHalts", A_NeverHalts)
    /\ Step(k) =>
        /\ Report(k, "Release", A_Release)
        /\ Report(k, "NothingElse", A_NothingElse)
        /\ Report(k, "SupplyConst", A_SupplyConst)
        /\ Report(k, "DisabledOrEmptyNoMove", A_DisabledOrEmptyNoMove)
        /\ Report(k, "NoMoveOutsideBlock", A_NoMoveOutsideBlock)
        /\ Report(k, "ParamChange", A_ParamChange)

(* --- binding: the step recorded at line k must be the RVesting action of  *)
(* that name taken from the real pre-state and must yield the real post-state *)
C_Step(k) ==
    LET ln == Trace[k] IN
    CASE ln.ev = "Block"       -> BeginBlock
      [] ln.ev = "ParamChange" -> IF ln.res = "ok" THEN ParamChange(Ps(ln.args)) /\ Ps(ln.args) \in ParamSpace
                                  ELSE UNCHANGED <<pool, sink, params, halted>>
      [] ln.ev = "BankSwitch"  -> ln.res = "ok" /\ UNCHANGED <<pool, sink, params, halted>>
      [] OTHER                 -> FALSE

Conform(k) == Step(k) => (C_Step(k) \/ PrintT(<<"DRIFT", k, Trace[k].ev>>))

MNext == l < Len(Trace) /\ Bind(l + 1) /\ Judge(l + 1) /\ Conform(l + 1)

MSpec == MInit /\ [][MNext]_mvars

Accepted == TLCGet("stats").diameter = Len(Trace)
=============================================================================
