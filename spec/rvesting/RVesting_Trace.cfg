SPECIFICATION MSpec
CONSTANTS
  Denoms = {"atele", "btok"}
  MaxReward = 2
  MaxEntries = 3
POSTCONDITION Accepted
CHECK_DEADLOCK FALSE
