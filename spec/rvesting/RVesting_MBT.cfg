SPECIFICATION MSpec
CONSTANTS
  Denoms = {"atele", "btok"}
  MaxReward = 2
  MaxEntries = 3
  MaxPool = 3
  Depth = 6
  InitPools <- MCInitPools
INVARIANTS Emit
CHECK_DEADLOCK FALSE
