---------------------------- MODULE MC_RVesting ----------------------------
EXTENDS RVesting
CONSTANTS MaxPool
MCInitPools == [Denoms -> 0..MaxPool]
Total == [d \in Denoms |-> pool[d] + sink[d]]
\* supply conservation inside the model: pool + sink is constant per denomination
SupplyConst == [][\A d \in Denoms : pool'[d] + sink'[d] = pool[d] + sink[d]]_vars
=============================================================================
