SPECIFICATION Spec
CONSTANTS
  Chains = {"A", "B"}
  MaxSeq = 1
  MaxH = 2
  Amts = {1}
  Big = 5000
  Kinds = {"fwd", "back"}
  Calls = {"none", "revert"}
  Alts = {"none", "amt"}
  AckAlts = {"none", "ackcode"}
  Proofs = {"ok", "otherkey"}
  Signers = {"relayer", "outsider"}
  Funds = 1000
  Fees = {0}
  WithRotate = FALSE
  WithUpgradeRev = FALSE
  Delay = 0
  LimWhere <- AllLimWhere
  LimitSets <- NoLimits
  SendFrom <- AllSendFrom
INVARIANTS TypeOK Conservation Exclusive WrappedBacked MarksExact ReceivedWasSent SeqAgree NoGap CommitIsSent OneAckPerReceipt StatusMatchesAck FeesHeld
PROPERTIES AckStable ReceiptStable StatusOnce CommitRemovedOnlyByAck RejectChangesNothing
VIEW stateVars
CHECK_DEADLOCK FALSE
