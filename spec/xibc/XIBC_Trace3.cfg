SPECIFICATION TSpec
CONSTANTS
  Chains = {"A", "B", "C"}
CHECK_DEADLOCK FALSE
