SPECIFICATION TSpec
CONSTANTS
  Chains = {"A", "B", "C"}
CONSTANT Lite = FALSE
CHECK_DEADLOCK FALSE
