-------------------------------- MODULE XIBC --------------------------------
(***************************************************************************)
(* XIBC packet protocol between teleport chains (x/xibc core + the packet  *)
(* and endpoint system contracts), as the code performs it.                *)
(*                                                                         *)
(* One action per transaction / ABCI call:                                 *)
(*   Send        endpoint.crossChainCall -> packet.sendPacket -> PacketSent*)
(*               log -> Hooks.PostTxProcessing -> Keeper.SendPacket        *)
(*   Commit      EndBlock + Commit (the committed state becomes provable)  *)
(*   UpdateClient  MsgUpdateClient (AuthRelayer, tendermint header check)  *)
(*   Recv        MsgRecvPacket  (PacketKeeper.RecvPacket, then callback    *)
(*               packet.onRecvPacket -> endpoint.onRecvPacket, then ack)   *)
(*   Ack         MsgAcknowledgement (AcknowledgePacket, setAckStatus,      *)
(*               sendPacketFeeToRelayer, OnAcknowledgePacket)              *)
(* A rejected transaction is a step that changes only `last`.              *)
(*                                                                         *)
(* Light clients are abstracted to the set of counterparty heights they    *)
(* verified (TMClient.tla refines that); a proof at height k proves what   *)
(* the counterparty had committed at k (snaps).  Hashes are modelled by    *)
(* the hashed value itself (packet record, ack code).                      *)
(***************************************************************************)
EXTENDS Integers, Sequences, FiniteSets, TLC

CONSTANTS Chains,      \* e.g. {"A","B"}
          MaxSeq,      \* sends per ordered pair of chains
          MaxH,        \* commits per chain
          Amts,        \* transfer amounts
          Big,         \* an amount above every balance
          Kinds,       \* subset of {"fwd","back"}
          Calls,       \* subset of {"none","ok","revert","hookfail"}
          Alts,        \* packet alterations in relayer messages
          AckAlts,     \* ack alterations
          Proofs,      \* subset of {"ok","otherkey","otherheight","truncated","empty"}
          Signers,     \* subset of {"relayer","outsider"}
          Funds,       \* initial origin-token balance of each chain's user
          Fees,        \* relayer fee amounts (paid in the origin token)
          SendFrom,    \* set of <<chain, kind>> allowed to send (bounds the model; all pairs = unrestricted)
          WithRotate,  \* whether relayer re-registrations (Rotate) are part of the model (multiplies the state space)
          WithUpgradeRev, \* whether client upgrades to a later revision (UpgradeRev) are part of the bounded model (they multiply its states)
          Delay,       \* 0, or 1: a proof at a verified height is honoured only in a LATER block of the receiving chain than the one that stored it
          LimWhere,    \* pairs <<chain, token>> whose limit governance acts on in the model (bounds the model; AllLimWhere = any)
          LimitSets    \* parameter triples <<cap, max, min>> governance may try to enable as a time-based supply limit ({} = no limits)

VARIABLES
  h,        \* h[c]        abstract height: number of commits of c
  seq,      \* seq[c][d]   next send sequence in the store
  cseq,     \* cseq[c][d]  next send sequence in the packet contract
  commits,  \* commits[c]  packets whose commitment c stores
  receipts, \* receipts[c] triples received by c
  acks,     \* acks[c]     set of [t, code] acknowledgements written by c
  out,      \* out[c][d]   origin token of c escrowed towards d (endpoint.outTokens)
  bind,     \* bind[c][d]  wrapped token of d's origin minted on c (endpoint.bindings.amount)
  ubal,     \* ubal[c]     user's balance of c's origin token
  wbal,     \* wbal[c][d]  user's balance of the wrapped token of d on c
  rbal,     \* rbal[c]     relayer's balance of c's origin token (fees)
  held,     \* held[c]     fees held by the packet contract of c
  status,   \* status[c]   function own triple -> 0 (none) | 1 (success) | 2 (failed, refunded)
  clients,  \* clients[c][d] = [latest, cons]
  marks,    \* marks[c]    how many times an "ok" call ran on c
  snaps,    \* snaps[c]    sequence: provable [commits, acks] per abstract height (index k+1)
  rot,      \* rot[c][d]  governance on c re-registered the relayer for chain d with another counterparty address
  badrel,   \* badrel[c]  triples whose acknowledgement, written by c, names that other address as relayer
  lim,      \* lim[c][x]  time-based supply limit the endpoint of c keeps for a token: x = "own" (c's origin token, released
            \*            when it comes back) or x = d (the wrapped token of d's origin, minted on arrival)
  sent,     \* every packet ever emitted (ghost; the relayer's knowledge)
  last      \* observation of the last step

vars == <<h, seq, cseq, commits, receipts, acks, out, bind, ubal, wbal, rbal, held, status, clients, marks, snaps, rot, badrel, lim, sent, last>>
stateVars == <<h, seq, cseq, commits, receipts, acks, out, bind, ubal, wbal, rbal, held, status, clients, marks, snaps, rot, badrel, lim, sent>>

(* values for SendFrom (configuration files cannot write tuples) *)
AllSendFrom == Chains \X {"fwd", "back"}
OneWay      == {<<"A", "fwd">>, <<"B", "back">>}     \* A's token travels to B and back
FwdFromA    == {<<"A", "fwd">>}                      \* only A sends (packets from B are those nested in receives)
(* values for LimitSets *)
NoLimits    == {}
SomeLimits  == {<<5, 3, 2>>, <<4, 3, 2>>, <<3, 3, 2>>, <<5, 2, 2>>, <<5, 3, 0>>}    \* two admissible triples, three that are not
OneLimit    == {<<4, 3, 2>>, <<3, 3, 2>>}
AllLimWhere == Chains \X (Chains \cup {"own"})
OnlyBA      == {<<"B", "A">>}                        \* B limits the wrapped token of A's origin
OnlyAown    == {<<"A", "own">>}                      \* A limits its own token coming back

(* Time-based supply limit of one token (endpoint.limits): while it is on, an arriving transfer of that token is refused *)
(* unless min <= amount <= max and the amounts let in during the current period, this one included, stay BELOW cap;   *)
(* stale = the period in which `used` was counted is over (the next transfer let in starts a new one).                 *)
LimOff == [on |-> FALSE, cap |-> 0, max |-> 0, min |-> 0, used |-> 0, stale |-> FALSE]
LimKeys(c) == {"own"} \cup (Chains \ {c})
LimValid(t) == t[3] > 0 /\ t[2] > t[3] /\ t[1] > t[2]
LimPass(L, a) == ~L.on \/ (a >= L.min /\ a <= L.max /\ (L.stale \/ L.used + a < L.cap))
LimAfter(L, a) == IF ~L.on THEN L ELSE [L EXCEPT !.used = (IF L.stale THEN a ELSE @ + a), !.stale = FALSE]

Others(c) == Chains \ {c}
T(p)      == <<p.src, p.dst, p.seq>>
Max(S)    == CHOOSE x \in S : \A y \in S : y <= x

(* cb: the sender's callback contract ("none", or "bad": a contract without the callback function) *)
Packet(s, d, n, k, a, cl, f) == [src |-> s, dst |-> d, seq |-> n, kind |-> k, amt |-> a, call |-> cl, fee |-> f, mut |-> 0, cb |-> "none"]

(* code the destination callback returns *)
CallCode(q) == CASE q.call = "revert"   -> 3    \* endpoint: "execute call data failed"
                 [] q.call = "hookfail" -> 1    \* msg server: "receive packet callback failed"
                 [] q.call = "nestfail" -> IF q.amt > 1 THEN 1   \* a send nested in the callback fails (no client): the hook fails
                                           ELSE 3               \* nothing left to forward after the agent's fee of 1: the agent reverts
                 (* the agent forwards what it received back to the source chain: a send nested in the receive.  Only a   *)
                 (* forward transfer gives the agent something to forward (the replay generates no other combination)      *)
                 [] q.call = "nestok"   -> IF q.kind = "fwd" THEN 0 ELSE 3
                  [] OTHER           -> 0

Init ==
  /\ h = [c \in Chains |-> 0]
  /\ seq  = [c \in Chains |-> [d \in Others(c) |-> 1]]
  /\ cseq = [c \in Chains |-> [d \in Others(c) |-> 1]]
  /\ commits  = [c \in Chains |-> {}]
  /\ receipts = [c \in Chains |-> {}]
  /\ acks     = [c \in Chains |-> {}]
  /\ out  = [c \in Chains |-> [d \in Others(c) |-> 0]]
  /\ bind = [c \in Chains |-> [d \in Others(c) |-> 0]]
  /\ ubal = [c \in Chains |-> Funds]
  /\ wbal = [c \in Chains |-> [d \in Others(c) |-> 0]]
  /\ rbal = [c \in Chains |-> 0]
  /\ held = [c \in Chains |-> 0]
  /\ status = [c \in Chains |-> <<>>]
  /\ clients = [c \in Chains |-> [d \in Others(c) |-> [latest |-> 0, cons |-> {0}, proc |-> (0 :> 0)]]]      \* proc[k]: the height of c at which k was stored
  /\ marks = [c \in Chains |-> 0]
  /\ snaps = [c \in Chains |-> << [commits |-> {}, acks |-> {}] >>]
  /\ rot = [c \in Chains |-> [d \in Others(c) |-> FALSE]] /\ badrel = [c \in Chains |-> {}]
  /\ lim = [c \in Chains |-> [x \in LimKeys(c) |-> LimOff]]
  /\ sent = {}
  /\ last = [act |-> "Init", res |-> "ok"]

Res(ok) == IF ok THEN "ok" ELSE "err"

-----------------------------------------------------------------------------
(* Send: all-or-nothing (ApplyTransaction runs tx + hooks in a cache context) *)
SendOK(c, d, k, a, f) ==
  /\ d \in Others(c)                              \* a client for d exists
  /\ k = "fwd"  => ubal[c] >= a + f
  /\ k = "back" => wbal[c][d] >= a /\ ubal[c] >= f

SendEffCb(c, d, k, a, cl, f, cb) ==
  IF ~SendOK(c, d, k, a, f) THEN UNCHANGED stateVars
  ELSE
  LET p == [Packet(c, d, seq[c][d], k, a, cl, f) EXCEPT !.cb = cb] IN
  /\ seq'  = [seq  EXCEPT ![c][d] = @ + 1]
  /\ cseq' = [cseq EXCEPT ![c][d] = @ + 1]
  /\ commits' = [commits EXCEPT ![c] = @ \cup {p}]
  /\ status' = [status EXCEPT ![c] = (T(p) :> 0) @@ @]
  /\ sent' = sent \cup {p}
  /\ held' = [held EXCEPT ![c] = @ + f]
  /\ IF k = "fwd"
       THEN /\ ubal' = [ubal EXCEPT ![c] = @ - a - f]
            /\ out'  = [out EXCEPT ![c][d] = @ + a]
            /\ UNCHANGED <<wbal, bind>>
       ELSE IF k = "back"
       THEN /\ wbal' = [wbal EXCEPT ![c][d] = @ - a]
            /\ bind' = [bind EXCEPT ![c][d] = @ - a]
            /\ ubal' = [ubal EXCEPT ![c] = @ - f]
            /\ UNCHANGED out
       ELSE /\ ubal' = [ubal EXCEPT ![c] = @ - f]          \* "none": a call-only packet, no tokens
            /\ UNCHANGED <<out, wbal, bind>>
  /\ UNCHANGED <<h, receipts, acks, rbal, clients, marks, snaps, rot, badrel, lim>>

SendEff(c, d, k, a, cl, f) == SendEffCb(c, d, k, a, cl, f, "none")

Send(c, d, k, a, cl, f) ==
  /\ SendEff(c, d, k, a, cl, f)
  /\ last' = [act |-> "Send", res |-> Res(SendOK(c, d, k, a, f)), chain |-> c, dst |-> d, kind |-> k, amt |-> a, call |-> cl, fee |-> f]

(* a call-only packet sent through an intermediary contract (a DApp, router or wallet calls endpoint.crossChainCall): *)
(* the transaction's destination is not a system contract, the PacketSent log is the same                              *)
SendVia(c, d, cl) ==
  /\ SendEff(c, d, "none", 0, cl, 0)
  /\ last' = [act |-> "Send", res |-> Res(SendOK(c, d, "none", 0, 0)), chain |-> c, dst |-> d, kind |-> "none", amt |-> 0, call |-> cl, fee |-> 0, via |-> "contract"]

(* a token transfer whose packet names a callback contract that does not implement the callback: every              *)
(* acknowledgement of it makes OnAcknowledgePacket revert, so none is ever accepted (the commitment stays)          *)
SendBadCb(c, d, a) ==
  /\ SendEffCb(c, d, "fwd", a, "none", 0, "bad")
  /\ last' = [act |-> "Send", res |-> Res(SendOK(c, d, "fwd", a, 0)), chain |-> c, dst |-> d, kind |-> "fwd", amt |-> a, call |-> "none", fee |-> 0, cb |-> "bad"]

(* two call-only packets sent by one transaction (a batching contract calls the endpoint twice): to two different   *)
(* destinations it yields two PacketSent logs, two sequences, two commitments.  To the same destination the second   *)
(* packet is numbered like the first (the contract's counter is only advanced by the chain after the transaction),   *)
(* the chain refuses it and the whole transaction fails.                                                             *)
SendTwoOK(c, d1, d2) == d1 \in Others(c) /\ d2 \in Others(c) /\ d1 # d2
SendTwoEff(c, d1, d2, cl) ==
  IF ~SendTwoOK(c, d1, d2) THEN UNCHANGED stateVars
  ELSE LET p1 == Packet(c, d1, seq[c][d1], "none", 0, cl, 0)  p2 == Packet(c, d2, seq[c][d2], "none", 0, cl, 0) IN
       /\ seq'  = [seq  EXCEPT ![c][d1] = @ + 1, ![c][d2] = @ + 1] /\ cseq' = [cseq EXCEPT ![c][d1] = @ + 1, ![c][d2] = @ + 1]
       /\ commits' = [commits EXCEPT ![c] = @ \cup {p1, p2}]
       /\ status' = [status EXCEPT ![c] = (T(p1) :> 0) @@ (T(p2) :> 0) @@ @]
       /\ sent' = sent \cup {p1, p2}
       /\ UNCHANGED <<h, receipts, acks, out, bind, ubal, wbal, rbal, held, clients, marks, snaps, rot, badrel, lim>>
SendTwo(c, d1, d2, cl) == SendTwoEff(c, d1, d2, cl) /\ last' = [act |-> "SendTwo", res |-> Res(SendTwoOK(c, d1, d2)), chain |-> c, dst |-> d1, dst2 |-> d2, call |-> cl]

CommitEff0(c) ==
  /\ h' = [h EXCEPT ![c] = @ + 1]
  /\ snaps' = [snaps EXCEPT ![c] = Append(@, [commits |-> commits[c], acks |-> acks[c]])]
  /\ UNCHANGED <<seq, cseq, commits, receipts, acks, out, bind, ubal, wbal, rbal, held, status, clients, marks, sent, rot, badrel>>
CommitEff(c) == CommitEff0(c) /\ UNCHANGED lim

(* a block of c whose time lies more than a limit period after the previous one: every period that was running is over *)
ElapseEff(c) == CommitEff0(c) /\ lim' = [lim EXCEPT ![c] = [x \in LimKeys(c) |-> IF lim[c][x].on THEN [lim[c][x] EXCEPT !.stale = TRUE] ELSE lim[c][x]]]
Elapse(c) == h[c] < MaxH /\ ElapseEff(c) /\ last' = [act |-> "Elapse", res |-> "ok", chain |-> c]

(* Governance on c (EnableTimeBasedSupplyLimitProposal / Disable...): the endpoint refuses parameters that are not     *)
(* min > 0, max > min, cap > max, a limit that is already on, and switching off one that is not on.                    *)
EnableOK(c, x, t) == x \in LimKeys(c) /\ ~lim[c][x].on /\ LimValid(t)
EnableEff(c, x, t) ==
  IF ~EnableOK(c, x, t) THEN UNCHANGED stateVars
  ELSE /\ lim' = [lim EXCEPT ![c][x] = [on |-> TRUE, cap |-> t[1], max |-> t[2], min |-> t[3], used |-> 0, stale |-> FALSE]]
       /\ UNCHANGED <<h, seq, cseq, commits, receipts, acks, out, bind, ubal, wbal, rbal, held, status, clients, marks, snaps, rot, badrel, sent>>
EnableLimit(c, x, t) == EnableEff(c, x, t) /\ last' = [act |-> "EnableLimit", res |-> Res(EnableOK(c, x, t)), chain |-> c, token |-> x, cap |-> t[1], max |-> t[2], min |-> t[3]]
DisableOK(c, x) == x \in LimKeys(c) /\ lim[c][x].on
DisableEff(c, x) ==
  IF ~DisableOK(c, x) THEN UNCHANGED stateVars
  ELSE /\ lim' = [lim EXCEPT ![c][x] = LimOff]
       /\ UNCHANGED <<h, seq, cseq, commits, receipts, acks, out, bind, ubal, wbal, rbal, held, status, clients, marks, snaps, rot, badrel, sent>>
DisableLimit(c, x) == DisableEff(c, x) /\ last' = [act |-> "DisableLimit", res |-> Res(DisableOK(c, x)), chain |-> c, token |-> x]

Commit(c) ==
  /\ h[c] < MaxH
  /\ CommitEff(c)
  /\ last' = [act |-> "Commit", res |-> "ok", chain |-> c]

(* MsgUpdateClient for the header of abstract height k of d.  The relayer   *)
(* names as trusted height the latest height if it is below k, else the     *)
(* highest verified height below k (back-filling).                          *)
Beyond == 999      \* the latest height of a client that governance moved to a later revision of the counterparty's chain id
UpdateOK(c, d, k, s) ==
  /\ s = "relayer"                               \* (a client moved to a later revision still accepts headers of the old one that chain to a
                                                  \*  height it verified: the chain id is taken with the header's revision - as in ibc-go)
  /\ k <= h[d]
  /\ \E t \in clients[c][d].cons : t < k

UpdateEff(c, d, k, s) ==
  LET cl == clients[c][d] IN
  IF ~UpdateOK(c, d, k, s) THEN UNCHANGED stateVars
  ELSE /\ clients' = [clients EXCEPT ![c][d] = [latest |-> Max({cl.latest, k}), cons |-> cl.cons \cup {k}, proc |-> IF Delay = 0 THEN cl.proc ELSE (k :> h[c]) @@ cl.proc]]
       /\ UNCHANGED <<h, seq, cseq, commits, receipts, acks, out, bind, ubal, wbal, rbal, held, status, marks, snaps, sent, rot, badrel, lim>>

UpdateClient(c, d, k, s) ==
  /\ UpdateEff(c, d, k, s)
  /\ last' = [act |-> "UpdateClient", res |-> Res(UpdateOK(c, d, k, s)), chain |-> c, counter |-> d, height |-> k, signer |-> s]

(* Governance replaces the client of d on chain c by a TSS client and then again by a Tendermint client at d's   *)
(* last committed header (two ToggleClient proposals, ToggleClient wipes the client's own store in between):     *)
(* nothing but the client changes - in particular no receipt, acknowledgement, commitment or sequence.          *)
RetoggleEff(c, d) ==
  /\ clients' = [clients EXCEPT ![c][d] = [latest |-> h[d], cons |-> {h[d]}, proc |-> IF Delay = 0 THEN (0 :> 0) ELSE (h[d] :> h[c])]]      \* (without a delay the processing heights play no part: kept constant)
  /\ UNCHANGED <<h, seq, cseq, commits, receipts, acks, out, bind, ubal, wbal, rbal, held, status, marks, snaps, sent, rot, badrel, lim>>
Retoggle(c, d) == RetoggleEff(c, d) /\ last' = [act |-> "Retoggle", res |-> "ok", chain |-> c, counter |-> d]

(* Governance upgrades c's client of d to the next revision of d's chain id (the counterparty is to restart under a new id): the *)
(* client's latest height lies in the new revision, above every height of the old one; the verified heights of the old revision   *)
(* stay, and with them every proof that was ever valid - so nothing delivered or acknowledged before may be forgotten.            *)
UpgradeRevEff(c, d) ==
  /\ clients' = [clients EXCEPT ![c][d].latest = Beyond]
  /\ UNCHANGED <<h, seq, cseq, commits, receipts, acks, out, bind, ubal, wbal, rbal, held, status, marks, snaps, sent, rot, badrel, lim>>
UpgradeRev(c, d) == UpgradeRevEff(c, d) /\ last' = [act |-> "UpgradeRev", res |-> "ok", chain |-> c, counter |-> d]

(* The user of c calls a contract of its own that emits a log with the topic and data of the packet contract's   *)
(* PacketSent event (a transfer of a to chain d under the next sequence): not the packet contract, so nothing happens. *)
SendFake(c, d, a) == UNCHANGED stateVars /\ last' = [act |-> "SendFake", res |-> "ok", chain |-> c, dst |-> d, amt |-> a]

(* Governance on chain c creates a client for a further chain (one that takes no part in these behaviours), whose   *)
(* name is chosen to be a proper prefix of the name of c's counterparty d, or - nm = "ext" - to extend it:         *)
(* store paths are built from chain names, and nothing recorded under d's name may be touched.  No variable changes. *)
NewClientEff(c, d, nm) == UNCHANGED stateVars
NewClient(c, d, nm) == NewClientEff(c, d, nm) /\ last' = [act |-> "NewClient", res |-> "ok", chain |-> c, counter |-> d, name |-> nm]

(* Chain c is restarted from its own exported genesis (the xibc module's export, through JSON and validation, imported into   *)
(* the emptied module store): every receipt, acknowledgement, commitment, sequence, client and verified height is what it was. *)
RegenesisEff(c) == UNCHANGED stateVars
Regenesis(c) == RegenesisEff(c) /\ last' = [act |-> "Regenesis", res |-> "ok", chain |-> c]

(* Governance on chain c re-registers the relayer for chain d with another counterparty address (or back).  From    *)
(* then on the acknowledgements c writes for packets from d name that address, and acknowledgements written by d     *)
(* that name the previous one are no longer payable on c.                                                            *)
RotateEff(c, d) ==
  /\ rot' = [rot EXCEPT ![c][d] = ~@]
  /\ UNCHANGED <<h, seq, cseq, commits, receipts, acks, out, bind, ubal, wbal, rbal, held, status, clients, marks, snaps, badrel, sent, lim>>
Rotate(c, d) == RotateEff(c, d) /\ last' = [act |-> "Rotate", res |-> "ok", chain |-> c, counter |-> d]

(* the packet a relayer message names after alteration alt of sent packet p *)
Decoded(p, alt) ==
  CASE alt = "amt"    -> [p EXCEPT !.amt = @ + 1]
    [] alt = "seq"    -> [p EXCEPT !.seq = @ + 1]
    [] alt = "sender" -> [p EXCEPT !.mut = 1]
    [] alt = "feeopt" -> [p EXCEPT !.mut = 2]        \* the fee option the sender chose, rewritten by the relayer
    [] alt = "src"    -> [p EXCEPT !.src = "?"]
    [] alt = "dst"    -> [p EXCEPT !.dst = "?"]
    [] OTHER          -> p                          \* none, reenc

(* what the light client of c for chain d accepts as proven at height k *)
Provable(c, d, k, pf) ==
  /\ d \in Others(c)
  /\ k \in clients[c][d].cons
  /\ k <= clients[c][d].latest
  /\ (Delay = 0 \/ h[c] > clients[c][d].proc[k])     \* the delay since that height was processed has passed
  /\ pf = "ok"
  /\ k + 1 <= Len(snaps[d])

RecvAccept(c, q, k, pf, s) ==
  /\ q.src \in Chains /\ q.dst \in Chains /\ q.src # q.dst
  /\ q.dst = c                                      \* (no relay mode in this model)
  /\ T(q) \notin receipts[c]
  /\ Provable(c, q.src, k, pf)
  /\ q \in snaps[q.src][k + 1].commits
  /\ s = "relayer"

Nested(q) == q.call = "nestok" /\ q.kind = "fwd"
NestedPacket(c, q) == [Packet(c, q.src, seq[c][q.src], "back", q.amt, "none", 0) EXCEPT !.cb = "agent"]

RecvEff(c, p, alt, k, pf, s) ==
  LET q    == Decoded(p, alt)
  IN IF ~RecvAccept(c, q, k, pf, s) THEN UNCHANGED stateVars
     ELSE
     LET d    == q.src
         lk   == IF q.kind = "fwd" THEN d ELSE "own"                 \* the token that arrives: d's wrapped one, or c's own coming back
         pass == q.kind \notin {"fwd", "back"} \/ LimPass(lim[c][lk], q.amt)
         code == IF pass THEN CallCode(q) ELSE 2                     \* endpoint: the limit refuses the transfer, the call is not made
         okx  == code = 0
     IN
     (* what the limit let in counts only if the whole callback succeeded *)
     /\ lim' = IF okx /\ q.kind \in {"fwd", "back"} THEN [lim EXCEPT ![c][lk] = LimAfter(@, q.amt)] ELSE lim
     /\ receipts' = [receipts EXCEPT ![c] = @ \cup {T(q)}]
     /\ acks' = [acks EXCEPT ![c] = @ \cup {[t |-> T(q), code |-> code]}]
     /\ IF Nested(q) /\ okx THEN UNCHANGED <<wbal, bind, ubal, out>>     \* minted to the agent and burnt by it
        ELSE IF okx /\ q.kind = "fwd"
          THEN /\ wbal' = [wbal EXCEPT ![c][d] = @ + q.amt]
               /\ bind' = [bind EXCEPT ![c][d] = @ + q.amt]
               /\ UNCHANGED <<ubal, out>>
        ELSE IF okx /\ q.kind = "back"
          THEN /\ ubal' = [ubal EXCEPT ![c] = @ + q.amt]
               /\ out'  = [out EXCEPT ![c][d] = @ - q.amt]
               /\ UNCHANGED <<wbal, bind>>
        ELSE UNCHANGED <<wbal, bind, ubal, out>>
     /\ marks' = [marks EXCEPT ![c] = @ + (IF okx /\ q.call = "ok" THEN 1 ELSE 0)]
     /\ badrel' = [badrel EXCEPT ![c] = IF rot[c][d] THEN @ \cup {T(q)} ELSE @]     \* the ack names the address c's registry holds for chain d
     (* a send nested in the receive (agent): the tokens minted to the agent are burnt again and travel back as packet p2, *)
     (* numbered and committed by the same rules as any send (CallEVM -> post-transaction hook -> SendPacket)             *)
     /\ IF Nested(q) /\ okx
          THEN LET p2 == NestedPacket(c, q) IN
               /\ seq'  = [seq  EXCEPT ![c][d] = @ + 1]
               /\ cseq' = [cseq EXCEPT ![c][d] = @ + 1]
               /\ commits' = [commits EXCEPT ![c] = @ \cup {p2}]
               /\ status' = [status EXCEPT ![c] = (T(p2) :> 0) @@ @]
               /\ sent' = sent \cup {p2}
          ELSE UNCHANGED <<seq, cseq, commits, status, sent>>
     /\ UNCHANGED <<h, rbal, held, clients, snaps, rot>>

Recv(c, p, alt, k, pf, s) ==
  /\ RecvEff(c, p, alt, k, pf, s)
  /\ last' = [act |-> "Recv", res |-> Res(RecvAccept(c, Decoded(p, alt), k, pf, s)), chain |-> c, src |-> p.src, dst |-> p.dst,
              seq |-> p.seq, alt |-> alt, ph |-> k, proof |-> pf, signer |-> s]

(* the acknowledgement code a relayer message carries after alteration *)
AckCode(code, aalt) == IF aalt = "ackcode" THEN (IF code = 0 THEN 1 ELSE 0) ELSE code

AckAccept(c, q, a, aalt, k, pf) ==
  /\ q.src \in Chains /\ q.dst \in Chains /\ q.src # q.dst
  /\ q.src = c
  /\ q \in commits[c]
  /\ Provable(c, q.dst, k, pf)
  /\ [t |-> T(q), code |-> a] \in snaps[q.dst][k + 1].acks
  /\ aalt # "ackrelayer"
  (* as the code behaves (observed, byte-code contracts): the refund path of an error acknowledgement fails for a    *)
  (* packet without transfer data, so such an acknowledgement is never accepted and the commitment stays (DESIGN 9.7) *)
  /\ (q.kind = "none" => a = 0)
  /\ q.cb # "bad"
  (* the relayer the acknowledgement names must be known to this chain's registry for the destination chain: the    *)
  (* address the destination wrote is the one this chain holds now                                                  *)
  /\ q.dst \in Others(c) /\ ((T(q) \in badrel[q.dst]) = rot[c][q.dst])

(* base: a sent packet p; a is the acknowledgement code the message carries *)
AckEff(c, p, a, alt, aalt, k, pf, s) ==
  LET q    == Decoded(p, alt)
  IN IF ~AckAccept(c, q, a, aalt, k, pf) THEN UNCHANGED stateVars
     ELSE
     LET d == q.dst IN
     /\ commits' = [commits EXCEPT ![c] = @ \ {q}]
     /\ status' = [status EXCEPT ![c][T(q)] = IF a = 0 THEN 1 ELSE 2]
     /\ held' = [held EXCEPT ![c] = @ - q.fee]
     /\ rbal' = [rbal EXCEPT ![c] = @ + q.fee]
     /\ IF a # 0 /\ q.kind = "fwd"
          THEN /\ ubal' = [ubal EXCEPT ![c] = @ + q.amt]
               /\ out'  = [out EXCEPT ![c][d] = @ - q.amt]
               /\ UNCHANGED <<wbal, bind>>
        ELSE IF a # 0 /\ q.kind = "back"
          THEN /\ wbal' = [wbal EXCEPT ![c][d] = @ + q.amt]
               /\ bind' = [bind EXCEPT ![c][d] = @ + q.amt]
               /\ UNCHANGED <<ubal, out>>
        ELSE UNCHANGED <<wbal, bind, ubal, out>>
     /\ UNCHANGED <<h, seq, cseq, receipts, acks, clients, marks, snaps, sent, rot, badrel, lim>>

Ack(c, p, a, alt, aalt, k, pf, s) ==
  /\ AckEff(c, p, a, alt, aalt, k, pf, s)
  /\ last' = [act |-> "Ack", res |-> Res(AckAccept(c, Decoded(p, alt), a, aalt, k, pf)), chain |-> c, src |-> p.src,
              dst |-> p.dst, seq |-> p.seq, alt |-> alt, aalt |-> aalt, ph |-> k, proof |-> pf, signer |-> s, code |-> a]

(* the code the destination really wrote for p, as a relayer reads it (0 if none yet) *)
WrittenCode(p) == IF \E x \in acks[p.dst] : x.t = T(p)
                  THEN (CHOOSE x \in acks[p.dst] : x.t = T(p)).code ELSE 0

Next ==
  \/ \E c \in Chains, d \in Chains \cup {"?"}, k \in Kinds, a \in Amts \cup {Big}, cl \in Calls, f \in Fees :
        c # d /\ <<c, k>> \in SendFrom /\ (d \in Chains => seq[c][d] <= MaxSeq) /\ Send(c, d, k, a, cl, f)
  \/ \E c \in Chains, d \in Chains, cl \in Calls \cap {"ok", "revert"} :
        c # d /\ <<c, "fwd">> \in SendFrom /\ seq[c][d] <= MaxSeq /\ SendVia(c, d, cl)
  \/ \E c \in Chains, d \in Chains, a \in Amts : c # d /\ <<c, "fwd">> \in SendFrom /\ seq[c][d] <= MaxSeq /\ SendBadCb(c, d, a)
  \/ \E c \in Chains : \E d1 \in Others(c), d2 \in Others(c), cl \in Calls \cap {"ok", "revert"} :
        <<c, "fwd">> \in SendFrom /\ seq[c][d1] <= MaxSeq /\ seq[c][d2] <= MaxSeq /\ SendTwo(c, d1, d2, cl)
  \/ \E c \in Chains : Commit(c)
  \/ \E c \in Chains : \E d \in Others(c), k \in 0..MaxH, s \in Signers : UpdateClient(c, d, k, s)
  \/ \E c \in Chains : \E d \in Others(c) : Retoggle(c, d)
  \/ \E c \in Chains : \E d \in Others(c), nm \in {"prefix", "ext"} : NewClient(c, d, nm)
  \/ \E c \in Chains : \E d \in Others(c), a \in Amts : SendFake(c, d, a)
  \/ \E c \in Chains : Regenesis(c)
  \/ \E c \in Chains : \E d \in Others(c) : WithUpgradeRev /\ clients[c][d].latest < Beyond /\ UpgradeRev(c, d)
  \/ \E c \in Chains : \E d \in Others(c) : WithRotate /\ Rotate(c, d)
  \/ \E c \in Chains : \E x \in LimKeys(c), t \in LimitSets : <<c, x>> \in LimWhere /\ EnableLimit(c, x, t)
  \/ \E c \in Chains : \E x \in LimKeys(c) : LimitSets # {} /\ <<c, x>> \in LimWhere /\ DisableLimit(c, x)
  \/ \E c \in Chains : LimitSets # {} /\ (\E x \in LimKeys(c) : lim[c][x].on /\ ~lim[c][x].stale) /\ Elapse(c)
  \/ \E p \in sent, alt \in Alts, k \in 0..MaxH, pf \in Proofs, s \in Signers : Recv(p.dst, p, alt, k, pf, s)
  \/ \E p \in sent, alt \in Alts, aalt \in AckAlts, k \in 0..MaxH, pf \in Proofs, s \in Signers :
        Ack(p.src, p, AckCode(WrittenCode(p), aalt), alt, aalt, k, pf, s)

Spec == Init /\ [][Next]_vars

-----------------------------------------------------------------------------
(* Properties.  Written over the state variables only, so that XIBC_Trace   *)
(* evaluates the same operators on recorded real state.                     *)

DeliveredOK(p) == [t |-> T(p), code |-> 0] \in acks[p.dst]
Delivered(p)   == T(p) \in receipts[p.dst]
Refunded(p)    == T(p) \in DOMAIN status[p.src] /\ status[p.src][T(p)] = 2
Succeeded(p)   == T(p) \in DOMAIN status[p.src] /\ status[p.src][T(p)] = 1

RECURSIVE SumAmt(_)
SumAmt(S) == IF S = {} THEN 0 ELSE LET x == CHOOSE y \in S : TRUE IN x.amt + SumAmt(S \ {x})

InFlight(a, b) == { p \in sent : /\ ~DeliveredOK(p) /\ ~Refunded(p)
                                 /\ \/ (p.src = a /\ p.dst = b /\ p.kind = "fwd")
                                    \/ (p.src = b /\ p.dst = a /\ p.kind = "back") }

(* C03: escrow on the origin chain = minted on the other chain + in flight *)
Conservation == \A a \in Chains : \A b \in Others(a) : out[a][b] = bind[b][a] + SumAmt(InFlight(a, b))

(* C03: delivered xor refunded *)
Exclusive == \A p \in sent : ~(DeliveredOK(p) /\ Refunded(p))

(* C03: wrapped supply is what the endpoint says is bound *)
WrappedBacked == \A c \in Chains : \A d \in Others(c) : wbal[c][d] = bind[c][d]

(* C01: application effects at most once (the "ok" call leaves a countable mark) *)
MarksExact == \A c \in Chains : marks[c] = Cardinality({p \in sent : p.dst = c /\ p.call = "ok" /\ DeliveredOK(p)})

(* C01/C02: nothing is received that was not sent *)
ReceivedWasSent == \A c \in Chains : \A t \in receipts[c] : \E p \in sent : T(p) = t

(* C04 *)
SeqAgree == \A c \in Chains : \A d \in Others(c) : seq[c][d] = cseq[c][d]
NoGap == \A c \in Chains : \A d \in Others(c) :
            {p.seq : p \in {x \in sent : x.src = c /\ x.dst = d}} = 1..(seq[c][d] - 1)
CommitIsSent == \A c \in Chains : commits[c] \subseteq sent

(* C05 *)
OneAckPerReceipt == \A c \in Chains : /\ \A t \in receipts[c] : Cardinality({x \in acks[c] : x.t = t}) = 1
                                      /\ \A x \in acks[c] : x.t \in receipts[c]
StatusMatchesAck == \A p \in sent :
    /\ Succeeded(p) => DeliveredOK(p)
    /\ Refunded(p)  => (Delivered(p) /\ ~DeliveredOK(p))
    /\ (p \in commits[p.src]) <=> (T(p) \in DOMAIN status[p.src] /\ status[p.src][T(p)] = 0)
FeesHeld == \A c \in Chains : held[c] = SumAmt({[amt |-> p.fee, id |-> p] : p \in commits[c]})

AckStable == [][\A c \in Chains : acks[c] \subseteq acks'[c]]_vars
ReceiptStable == [][\A c \in Chains : receipts[c] \subseteq receipts'[c]]_vars
StatusOnce == [][\A c \in Chains : \A t \in DOMAIN status[c] : status[c][t] # 0 => status'[c][t] = status[c][t]]_vars
CommitRemovedOnlyByAck == [][\A c \in Chains : commits'[c] # commits[c] /\ commits'[c] \subseteq commits[c] => last'.act = "Ack" /\ last'.res = "ok"]_vars
RejectChangesNothing == [][last'.res = "err" => UNCHANGED stateVars]_vars

TypeOK == /\ \A c \in Chains : (ubal[c] >= 0 /\ rbal[c] >= 0 /\ held[c] >= 0)
          /\ \A c \in Chains : \A d \in Others(c) : (out[c][d] >= 0 /\ bind[c][d] >= 0 /\ wbal[c][d] >= 0)
          /\ \A c \in Chains : \A x \in LimKeys(c) : (lim[c][x].on \/ lim[c][x] = LimOff)

(* what a limit let in during one period stays below its cap; a limit that is on has admissible parameters *)
LimitBound == \A c \in Chains : \A x \in LimKeys(c) : lim[c][x].on =>
                 (lim[c][x].used >= 0 /\ lim[c][x].used < lim[c][x].cap /\ LimValid(<<lim[c][x].cap, lim[c][x].max, lim[c][x].min>>))
(* limits change only by governance, by a transfer let in, or by time *)
LimitSteps == [][lim' # lim => last'.act \in {"EnableLimit", "DisableLimit", "Elapse", "Recv"} /\ last'.res = "ok"]_vars
=============================================================================
