SPECIFICATION Spec
CONSTANTS
  Chains = {"A", "B"}
  MaxSeq = 1
  MaxH = 3
  Amts = {1}
  Big = 5000
  Kinds = {"fwd", "back"}
  Calls = {"none", "nestok"}
  Alts = {"none"}
  AckAlts = {"none"}
  Proofs = {"ok"}
  Signers = {"relayer"}
  Funds = 1000
  Fees = {0}
  WithRotate = FALSE
  WithUpgradeRev = TRUE
  Delay = 0
  LimWhere <- AllLimWhere
  LimitSets <- NoLimits
  SendFrom <- FwdFromA
INVARIANTS TypeOK Conservation Exclusive WrappedBacked MarksExact ReceivedWasSent SeqAgree NoGap CommitIsSent OneAckPerReceipt StatusMatchesAck FeesHeld
PROPERTIES AckStable ReceiptStable StatusOnce CommitRemovedOnlyByAck RejectChangesNothing
VIEW stateVars
CHECK_DEADLOCK FALSE
