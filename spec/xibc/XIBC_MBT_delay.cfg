SPECIFICATION MSpec
CONSTANTS
  Chains = {"A", "B"}
  MaxSeq = 3
  MaxH = 6
  Amts = {1, 2}
  Big = 5000
  Kinds = {"fwd", "back"}
  Calls = {"none", "ok", "revert", "hookfail", "nestfail", "nestok"}
  Alts = {"none", "reenc", "amt", "seq", "sender", "src", "dst"}
  AckAlts = {"none", "ackcode", "ackrelayer"}
  Proofs = {"ok", "otherkey", "otherheight", "truncated", "empty", "rev0"}
  Signers = {"relayer", "outsider"}
  Funds = 1000
  Fees = {0, 1}
  WithRotate = TRUE
  WithUpgradeRev = FALSE
  Delay = 1
  LimWhere <- AllLimWhere
  LimitSets <- NoLimits
  SendFrom <- AllSendFrom
  Depth = 25
  UsefulPct = 6
INVARIANTS Emit
CHECK_DEADLOCK FALSE
