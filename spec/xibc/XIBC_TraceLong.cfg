SPECIFICATION TSpec
CONSTANTS
  Delay = 0
  Chains = {"A", "B"}
CONSTANT Lite = TRUE
CHECK_DEADLOCK FALSE
