SPECIFICATION TSpec
CONSTANTS
  Chains = {"A", "B"}
CONSTANT Lite = TRUE
CHECK_DEADLOCK FALSE
