SPECIFICATION MSpec
CONSTANTS
  Chains = {"A", "B"}
  MaxSeq = 4
  MaxH = 8
  Amts = {1, 2, 3}
  Big = 5000
  Kinds = {"fwd", "back"}
  Calls = {"none", "ok", "revert", "hookfail", "nestok"}
  Alts = {"none", "reenc", "amt", "seq", "sender", "feeopt"}
  AckAlts = {"none", "ackcode"}
  Proofs = {"ok"}
  Signers = {"relayer", "outsider"}
  Funds = 1000
  Fees = {0, 1}
  WithRotate = FALSE
  WithUpgradeRev = FALSE
  Delay = 0
  LimWhere <- AllLimWhere
  LimitSets <- SomeLimits
  SendFrom <- AllSendFrom
  Depth = 30
  UsefulPct = 6
INVARIANTS Emit
CHECK_DEADLOCK FALSE
