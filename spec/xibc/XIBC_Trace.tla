----------------------------- MODULE XIBC_Trace -----------------------------
(***************************************************************************)
(* Validation of traces recorded from the real teleport application.       *)
(* Next consumes one recorded line and binds XIBC's variables to the REAL  *)
(* projected state of every chain (and maintains the ghost `sent` from the *)
(* packets the real chain emitted, and `snaps` from the real state at each *)
(* commit).  Two things are evaluated on every real step:                  *)
(*   Judge   - the properties C01..C06 (XIBC's own operators + step        *)
(*             properties that use the ground truth recorded from the real *)
(*             counterparty chain); a failure prints <<"VIOL", k, name>>   *)
(*   Conform - the step is XIBC's action of that name with the logged      *)
(*             arguments from the real pre-state to the real post-state;   *)
(*             a failure prints <<"DRIFT", k, ev>>                          *)
(***************************************************************************)
EXTENDS Integers, Sequences, FiniteSets, TLC, Json, IOUtils

CONSTANTS Chains, Lite, Delay

Trace == ndJsonDeserialize(IOEnv.TRACE_FILE)

VARIABLES l, h, seq, cseq, commits, receipts, acks, out, bind, ubal, wbal, rbal, held, status, clients, marks, snaps, rot, badrel, lim, sent, last

MaxSeq == 1000
MaxH == 1000
Amts == {}
Big == 5000
Kinds == {}
Calls == {}
Alts == {}
AckAlts == {}
Proofs == {}
Signers == {}
Funds == 1000
Fees == {}
SendFrom == {}
WithRotate == TRUE
LimitSets == {}
WithUpgradeRev == TRUE
LimWhere == {}
INSTANCE XIBC

tvars == <<l, vars>>

SetOf(s) == {s[i] : i \in DOMAIN s}
RECURSIVE Sum0(_, _)
Sum0(f, S) == IF S = {} THEN 0 ELSE LET x == CHOOSE y \in S : TRUE IN f[x] + Sum0(f, S \ {x})
Tr(x) == <<x[1], x[2], x[3]>>
Pkt(x) == [src |-> x[1], dst |-> x[2], seq |-> x[3], kind |-> x[4], amt |-> x[5], call |-> x[6], fee |-> x[7], mut |-> 0, cb |-> x[8]]
Unknown(t) == [src |-> t[1], dst |-> t[2], seq |-> t[3], kind |-> "?", amt |-> 0, call |-> "?", fee |-> 0, mut |-> 9, cb |-> "?"]
PacketOf(t, S) == IF \E p \in S : T(p) = t THEN CHOOSE p \in S : T(p) = t ELSE Unknown(t)

(* --- binding of the recorded real state of line k ------------------------- *)
St(k, c) == Trace[k].st[c]
SentAt(k) == IF Trace[k].ev = "Reset" THEN {}
             ELSE IF Trace[k].ev = "Send" /\ Trace[k].res = "ok" /\ Len(Trace[k].pkt) = 8 THEN sent \cup {Pkt(Trace[k].pkt)}
             ELSE IF Trace[k].ev = "SendTwo" /\ Trace[k].res = "ok" THEN sent \cup {Pkt(x) : x \in SetOf(Trace[k].pkts)}
             (* packets the chain emitted while executing a receive (sends nested in the callback) *)
             ELSE IF Trace[k].ev = "Recv" /\ Trace[k].res = "ok" /\ "nested" \in DOMAIN Trace[k] THEN sent \cup {Pkt(x) : x \in SetOf(Trace[k].nested)}
             ELSE sent

B_commits(k, c, S) == { IF x[4] = "P" THEN PacketOf(Tr(x), S) ELSE Unknown(Tr(x)) : x \in SetOf(St(k, c).commits) }
B_receipts(k, c)   == { Tr(x) : x \in SetOf(St(k, c).receipts) }
B_acks(k, c)       == { [t |-> Tr(x), code |-> x[4]] : x \in SetOf(St(k, c).acks) }
B_status(k, c)     == LET S == SetOf(St(k, c).status) IN [t \in {Tr(x) : x \in S} |-> (CHOOSE x \in S : Tr(x) = t)[4]]
B_fn(r, c)         == [d \in Chains \ {c} |-> r[d]]
B_proc(r)          == LET S == SetOf(r) IN [x \in {e[1] : e \in S} |-> (CHOOSE e \in S : e[1] = x)[2]]
B_clients(k, c)    == [d \in Chains \ {c} |-> [latest |-> St(k, c).clients[d].latest, cons |-> SetOf(St(k, c).clients[d].cons), proc |-> IF Delay = 0 THEN (0 :> 0) ELSE B_proc(St(k, c).clients[d].proc)]]

Bind(k) ==
  LET S == SentAt(k) IN
  /\ l' = k
  /\ sent' = S
  /\ h'        = [c \in Chains |-> St(k, c).h]
  /\ seq'      = [c \in Chains |-> B_fn(St(k, c).seq, c)]
  /\ cseq'     = [c \in Chains |-> B_fn(St(k, c).cseq, c)]
  /\ commits'  = [c \in Chains |-> B_commits(k, c, S)]
  /\ receipts' = [c \in Chains |-> B_receipts(k, c)]
  /\ acks'     = [c \in Chains |-> B_acks(k, c)]
  /\ out'      = [c \in Chains |-> B_fn(St(k, c).out, c)]
  /\ bind'     = [c \in Chains |-> B_fn(St(k, c).bind, c)]
  /\ wbal'     = [c \in Chains |-> B_fn(St(k, c).wbal, c)]
  /\ ubal'     = [c \in Chains |-> St(k, c).ubal]
  /\ rbal'     = [c \in Chains |-> St(k, c).rbal]
  /\ held'     = [c \in Chains |-> St(k, c).held]
  /\ status'   = [c \in Chains |-> B_status(k, c)]
  /\ clients'  = [c \in Chains |-> B_clients(k, c)]
  /\ marks'    = [c \in Chains |-> St(k, c).marks]
  /\ rot'      = [c \in Chains |-> [d \in Chains \ {c} |-> St(k, c).rot[d]]]      \* read from the real registry
  /\ badrel'   = [c \in Chains |-> { Tr(x) : x \in SetOf(St(k, c).badrel) }]     \* read from the acknowledgements really written
  /\ lim'      = [c \in Chains |-> [x \in {"own"} \cup (Chains \ {c}) |-> LET r == St(k, c).lim[x] IN
                     [on |-> r.on, cap |-> r.cap, max |-> r.max, min |-> r.min, used |-> r.used, stale |-> r.stale]]]   \* read from endpoint.limits
  /\ snaps'    = IF Trace[k].ev = "Reset"
                   THEN [c \in Chains |-> << [commits |-> B_commits(k, c, S), acks |-> B_acks(k, c)] >>]
                 ELSE IF Trace[k].ev \in {"Commit", "Elapse"}
                   THEN [snaps EXCEPT ![Trace[k].chain] = Append(@, [commits |-> B_commits(k, Trace[k].chain, S), acks |-> B_acks(k, Trace[k].chain)])]
                 ELSE snaps
  /\ last' = [act |-> Trace[k].ev, res |-> Trace[k].res]

TInit ==
  /\ l = 0
  /\ h = [c \in Chains |-> 0] /\ seq = [c \in Chains |-> <<>>] /\ cseq = seq /\ commits = [c \in Chains |-> {}]
  /\ receipts = commits /\ acks = commits /\ out = seq /\ bind = seq /\ ubal = h /\ wbal = seq /\ rbal = h /\ held = h
  /\ status = seq /\ clients = seq /\ marks = h /\ snaps = seq /\ rot = seq /\ badrel = commits /\ lim = seq /\ sent = {} /\ last = [act |-> "None", res |-> "ok"]

Step(k) == Trace[k].ev # "Reset"

(* --- Judge ------------------------------------------------------------- *)
Report(k, name, holds) == holds \/ PrintT(<<"VIOL", k, name>>)

ln(k) == Trace[k]
ActChain(k) == ln(k).chain
TripleOf(k) == Tr(ln(k).t)
Unchanged(k) == /\ ln(k).dg.pre = ln(k).dg.post
                /\ UNCHANGED <<h, seq, cseq, commits, receipts, acks, out, bind, ubal, wbal, rbal, held, status, clients, marks, rot, badrel, lim>>

(* C01 *)
C01_RecvOnce(k) == (ln(k).ev = "Recv" /\ ln(k).res = "ok") =>
                      (TripleOf(k) \notin receipts[ActChain(k)] /\ TripleOf(k) \in receipts'[ActChain(k)])
C01_DupRejected(k) == (ln(k).ev = "Recv" /\ TripleOf(k) \in receipts[ActChain(k)]) => ln(k).res = "err"
C01_RejectNoChange(k) == (ln(k).ev = "Recv" /\ ln(k).res # "ok") => Unchanged(k)
C01_ReceiptStable(k) == \A c \in Chains : receipts[c] \subseteq receipts'[c]
C01_EffectsOnlyByRecv(k) == \A c \in Chains :
     /\ marks'[c] # marks[c] => (ln(k).ev = "Recv" /\ ln(k).res = "ok" /\ ActChain(k) = c /\ marks'[c] = marks[c] + 1)
     /\ (bind'[c] # bind[c] \/ wbal'[c] # wbal[c]) => (ActChain(k) = c /\ ln(k).res = "ok" /\ ln(k).ev \in {"Recv", "Send", "Ack"})

(* C02 *)
C02_AuthRecv(k) == (ln(k).ev = "Recv" /\ ln(k).res = "ok") => (ln(k).truth.hv /\ ln(k).truth.committed /\ ln(k).truth.intact)
C02_AuthAck(k)  == (ln(k).ev = "Ack" /\ ln(k).res = "ok") => (ln(k).truth.held /\ ln(k).truth.hv /\ ln(k).truth.committed /\ ln(k).truth.intact)
C02_RejectNoChange(k) == (ln(k).ev \in {"Recv", "Ack"} /\ ln(k).res # "ok") => Unchanged(k)

(* C03 *)
C03_ErrorAckLeavesNothing(k) ==
   (ln(k).ev = "Recv" /\ ln(k).res = "ok" /\ ln(k).wrote.code # 0) =>
        /\ ln(k).vdg.pre = ln(k).vdg.post
        /\ UNCHANGED <<out, bind, ubal, wbal, rbal, held, marks, status, seq, cseq, lim>>
C03_SupplyFixed(k) == \A c \in Chains : St(k, c).supply = Funds /\ \A d \in Chains \ {c} : St(k, c).wsup[d] = St(k, c).wbal[d]

(* C04 *)
C04_SendStep(k) == (ln(k).ev = "Send" /\ ln(k).res = "ok") =>
   LET c == ActChain(k)  p == Pkt(ln(k).pkt) IN
   /\ Len(ln(k).pkt) = 8
   /\ p.src = c /\ p.dst \in Chains \ {c}
   /\ p.seq = seq[c][p.dst] /\ seq'[c][p.dst] = p.seq + 1
   /\ \A d \in Chains \ {c, p.dst} : seq'[c][d] = seq[c][d]
   /\ commits'[c] = commits[c] \cup {p}            \* exactly one commitment: the hash of the emitted bytes ("P")
   /\ ~(\E q \in commits[c] : T(q) = T(p))
(* two sends in one transaction to two destinations: the next sequence of each, exactly two commitments *)
C04_SendTwoStep(k) == (ln(k).ev = "SendTwo" /\ ln(k).res = "ok") =>
   LET c == ActChain(k)  P == {Pkt(x) : x \in SetOf(ln(k).pkts)}  d1 == ln(k).args.dst  d2 == ln(k).args.dst2 IN
   /\ Cardinality(P) = 2 /\ d1 # d2 /\ \A p \in P : p.src = c /\ p.dst \in {d1, d2} /\ p.seq = seq[c][p.dst] /\ seq'[c][p.dst] = p.seq + 1
   /\ {p.dst : p \in P} = {d1, d2}
   /\ commits'[c] = commits[c] \cup P
C04_FailedSendNoChange(k) == (ln(k).ev \in {"Send", "SendTwo"} /\ ln(k).res # "ok") => Unchanged(k)
(* C04: a failed send locks nothing.  Origin tokens held by the endpoint are exactly what outTokens records, and  *)
(* (in these behaviours wrapped tokens are only minted and burned) no wrapped token is ever held by the endpoint,  *)
(* packet or agent contract                                                                                         *)
C04_NoStrayEscrow(k) == \A c \in Chains :
   /\ St(k, c).endp = Sum0([d \in Chains \ {c} |-> St(k, c).out[d]], Chains \ {c})
   /\ \A d \in Chains \ {c} : St(k, c).wlock[d] = 0
(* packets the chain emitted while executing an accepted receive (a send nested in the destination callback) *)
NestedOf(k) == IF ln(k).ev = "Recv" /\ ln(k).res = "ok" /\ "nested" \in DOMAIN ln(k) THEN {Pkt(x) : x \in SetOf(ln(k).nested)} ELSE {}
C04_SeqOnlyBySend(k) == \A c \in Chains : (seq'[c] # seq[c] \/ cseq'[c] # cseq[c]) =>
   \/ (ln(k).ev \in {"Send", "SendTwo"} /\ ln(k).res = "ok" /\ ActChain(k) = c)
   \/ (NestedOf(k) # {} /\ ActChain(k) = c)
(* a send nested in a receive is numbered and committed like any other: next sequence of its destination, exactly one *)
(* commitment per emitted packet, the counters advance by the number of packets                                      *)
C04_NestedSendStep(k) == (ln(k).ev = "Recv" /\ ln(k).res = "ok") =>
   LET c == ActChain(k)  P == NestedOf(k) IN
   /\ \A p \in P : p.src = c /\ p.dst \in Chains \ {c} /\ ~(\E q \in commits[c] : T(q) = T(p))
   /\ \A d \in Chains \ {c} : LET Pd == {p \in P : p.dst = d} IN
         /\ seq'[c][d] = seq[c][d] + Cardinality(Pd) /\ cseq'[c][d] = cseq[c][d] + Cardinality(Pd)
         /\ {p.seq : p \in Pd} = seq[c][d]..(seq[c][d] + Cardinality(Pd) - 1)
   /\ commits'[c] = commits[c] \cup P
   (* a receive that was asked to forward (call class nestok on a forward transfer) and succeeded did forward *)
   /\ LET q == PacketOf(TripleOf(k), sent) IN
        (q.call = "nestok" /\ q.kind = "fwd" /\ ln(k).wrote.code = 0) => (Cardinality(P) = 1 /\ \A p \in P : p.kind = "back" /\ p.amt = q.amt /\ p.dst = q.src)

(* C05 *)
C05_AckWritten(k) == (ln(k).ev = "Recv" /\ ln(k).res = "ok" /\ TripleOf(k)[2] = ActChain(k)) =>
   LET c == ActChain(k) IN
   /\ ~(\E x \in acks[c] : x.t = TripleOf(k))
   /\ Cardinality({x \in acks'[c] : x.t = TripleOf(k)}) = 1
   /\ ln(k).wrote.code >= 0 /\ [t |-> TripleOf(k), code |-> ln(k).wrote.code] \in acks'[c]
C05_AckStable(k) == \A c \in Chains : acks[c] \subseteq acks'[c]
C05_CommitRemovedOnlyByAck(k) == \A c \in Chains : \A p \in commits[c] :
   p \notin commits'[c] => (ln(k).ev = "Ack" /\ ln(k).res = "ok" /\ ActChain(k) = c /\ T(p) = TripleOf(k))
C05_AckOnce(k) == (ln(k).ev = "Ack" /\ ln(k).res = "ok") =>
   LET c == ActChain(k)  t == TripleOf(k)  p == PacketOf(t, sent) IN
   /\ p \in commits[c] /\ p \notin commits'[c]
   /\ t \in DOMAIN status[c] /\ status[c][t] = 0
   /\ status'[c][t] = (IF ln(k).ackcode = 0 THEN 1 ELSE 2)
   /\ rbal'[c] = rbal[c] + p.fee /\ held'[c] = held[c] - p.fee
(* the commitment is removed only by an acknowledgement of exactly that packet: the packet the message carries is the *)
(* packet that was sent (the stored commitment is the hash of its bytes), not another packet on the same path           *)
C05_AckOfThatPacket(k) == (ln(k).ev = "Ack" /\ ln(k).res = "ok") => ln(k).truth.held
C05_StatusOnce(k) == \A c \in Chains : \A t \in DOMAIN status[c] : status[c][t] # 0 => (t \in DOMAIN status'[c] /\ status'[c][t] = status[c][t])
C05_RejectNoChange(k) == (ln(k).ev = "Ack" /\ ln(k).res # "ok") => Unchanged(k)

(* an accepted acknowledgement does everything: commitment removed, outcome recorded, fee paid to the relayer it names *)
(* (whom this chain's registry must know), callback run - or nothing at all                                              *)
C05_AckAllOrNothing(k) == (ln(k).ev = "Ack" /\ ln(k).res = "ok") =>
   LET c == ActChain(k)  t == TripleOf(k) IN (t \in badrel[t[2]]) = rot[c][t[2]]
(* C06 *)
C06_RegistryOnlyByProposal(k) == \A c \in Chains : rot'[c] # rot[c] => (ln(k).ev = "Rotate" /\ ActChain(k) = c)
(* C02: the consensus states a client verifies proofs against are ones it accepted itself: a header the counterparty's *)
(* validators never signed is refused - also for a height the client already holds - and nothing changes           *)
C02_ForgedHeaderRejected(k) == (ln(k).ev = "UpdateClient" /\ ln(k).args.signer = "forger") => (ln(k).res # "ok" /\ Unchanged(k))
C06_OnlyRelayers(k) == (ln(k).ev \in {"UpdateClient", "Recv"} /\ ln(k).res = "ok") => ln(k).registered
C06_AckRelayerField(k) == (ln(k).ev = "Recv" /\ ln(k).res = "ok") => ln(k).wrote.relayer_ok
C06_RejectNoChange(k) == (ln(k).ev \in {"UpdateClient", "Recv"} /\ ln(k).res # "ok") => Unchanged(k)
C06_ClientsOnlyByUpdate(k) == \A c \in Chains : clients'[c] # clients[c] => (ln(k).ev \in {"UpdateClient", "Retoggle", "UpgradeRev"} /\ ln(k).res = "ok" /\ ActChain(k) = c)

(* a restart of the chain from its own exported genesis loses and alters nothing: the replay guards (C01), the verified heights *)
(* proofs are checked against (C02), the stored acknowledgements and commitments (C05), the sequences (C04)                     *)
Restarted(k) == ln(k).ev \in {"Regenesis", "UpgradeRev"}      \* (a client upgrade to a later revision forgets nothing either)
C01_RestartKeepsReceipts(k) == Restarted(k) => (ln(k).res = "ok" /\ receipts' = receipts)
C02_RestartKeepsClients(k) == ln(k).ev = "Regenesis" => (clients' = clients /\ rot' = rot)
C04_RestartKeepsSequences(k) == Restarted(k) => (seq' = seq /\ cseq' = cseq)
C05_RestartKeepsAcks(k) == Restarted(k) => (acks' = acks /\ commits' = commits)

(* the long-history leg: the operators whose cost does not grow with the square of the history *)
JudgeLite(k) ==
  /\ Report(k, "C01.MarksExact", MarksExact')
  /\ Report(k, "C01.ReceivedWasSent", ReceivedWasSent')
  /\ Report(k, "C04.SeqAgree", SeqAgree')
  /\ Report(k, "C04.NoGap", NoGap')
  /\ Report(k, "C05.OneAckPerReceipt", OneAckPerReceipt')
  /\ Step(k) =>
     /\ Report(k, "C01.RecvOnce", C01_RecvOnce(k))
     /\ Report(k, "C01.DupRejected", C01_DupRejected(k))
     /\ Report(k, "C01.ReceiptStable", C01_ReceiptStable(k))
     /\ Report(k, "C04.SeqOnlyBySend", C04_SeqOnlyBySend(k))
     /\ Report(k, "C04.NestedSendStep", C04_NestedSendStep(k))
     /\ Report(k, "C05.AckWritten", C05_AckWritten(k))
     /\ Report(k, "C05.AckStable", C05_AckStable(k))
     /\ Report(k, "C05.CommitRemovedOnlyByAck", C05_CommitRemovedOnlyByAck(k))

Judge(k) ==
  (* state invariants of XIBC.tla on the real post-state *)
  /\ Report(k, "C03.Conservation", Conservation')
  /\ Report(k, "C03.Exclusive", Exclusive')
  /\ Report(k, "C03.WrappedBacked", WrappedBacked')
  /\ Report(k, "C03.SupplyFixed", C03_SupplyFixed(k))
  /\ Report(k, "C01.MarksExact", MarksExact')
  /\ Report(k, "C01.ReceivedWasSent", ReceivedWasSent')
  /\ Report(k, "C04.SeqAgree", SeqAgree')
  /\ Report(k, "C04.NoStrayEscrow", C04_NoStrayEscrow(k))
  /\ Report(k, "C04.NoGap", NoGap')
  /\ Report(k, "C04.CommitIsSent", CommitIsSent')
  /\ Report(k, "C05.OneAckPerReceipt", OneAckPerReceipt')
  /\ Report(k, "C05.StatusMatchesAck", StatusMatchesAck')
  /\ Report(k, "C05.FeesHeld", FeesHeld')
  /\ Step(k) =>
     /\ Report(k, "C01.RecvOnce", C01_RecvOnce(k))
     /\ Report(k, "C01.DupRejected", C01_DupRejected(k))
     /\ Report(k, "C01.RejectNoChange", C01_RejectNoChange(k))
     /\ Report(k, "C01.EffectsOnlyByRecv", C01_EffectsOnlyByRecv(k))
     /\ Report(k, "C01.ReceiptStable", C01_ReceiptStable(k))
     /\ Report(k, "C02.AuthRecv", C02_AuthRecv(k))
     /\ Report(k, "C02.AuthAck", C02_AuthAck(k))
     /\ Report(k, "C02.RejectNoChange", C02_RejectNoChange(k))
     /\ Report(k, "C02.ForgedHeaderRejected", C02_ForgedHeaderRejected(k))
     /\ Report(k, "C03.ErrorAckLeavesNothing", C03_ErrorAckLeavesNothing(k))
     /\ Report(k, "C04.SendStep", C04_SendStep(k))
     /\ Report(k, "C04.SendTwoStep", C04_SendTwoStep(k))
     /\ Report(k, "C04.FailedSendNoChange", C04_FailedSendNoChange(k))
     /\ Report(k, "C04.SeqOnlyBySend", C04_SeqOnlyBySend(k))
     /\ Report(k, "C04.NestedSendStep", C04_NestedSendStep(k))
     /\ Report(k, "C05.AckWritten", C05_AckWritten(k))
     /\ Report(k, "C05.AckStable", C05_AckStable(k))
     /\ Report(k, "C05.CommitRemovedOnlyByAck", C05_CommitRemovedOnlyByAck(k))
     /\ Report(k, "C05.AckOnce", C05_AckOnce(k))
     /\ Report(k, "C05.AckOfThatPacket", C05_AckOfThatPacket(k))
     /\ Report(k, "C05.AckAllOrNothing", C05_AckAllOrNothing(k))
     /\ Report(k, "C06.RegistryOnlyByProposal", C06_RegistryOnlyByProposal(k))
     /\ Report(k, "C05.StatusOnce", C05_StatusOnce(k))
     /\ Report(k, "C05.RejectNoChange", C05_RejectNoChange(k))
     /\ Report(k, "C06.OnlyRelayers", C06_OnlyRelayers(k))
     /\ Report(k, "C06.AckRelayerField", C06_AckRelayerField(k))
     /\ Report(k, "C06.RejectNoChange", C06_RejectNoChange(k))
     /\ Report(k, "C06.ClientsOnlyByUpdate", C06_ClientsOnlyByUpdate(k))
     /\ Report(k, "C01.RestartKeepsReceipts", C01_RestartKeepsReceipts(k))
     /\ Report(k, "C02.RestartKeepsClients", C02_RestartKeepsClients(k))
     /\ Report(k, "C04.RestartKeepsSequences", C04_RestartKeepsSequences(k))
     /\ Report(k, "C05.RestartKeepsAcks", C05_RestartKeepsAcks(k))

(* --- Conform ----------------------------------------------------------- *)
Base(k) == PacketOf(<<ln(k).args.src, ln(k).args.dst, ln(k).args.seq>>, sent)

C_Step(k) ==
  LET a == ln(k).args  c == ln(k).chain IN
  CASE ln(k).ev = "Send" ->
          /\ SendEffCb(c, a.dst, a.kind, a.amt, a.call, a.fee, IF "cb" \in DOMAIN a THEN a.cb ELSE "none")
          /\ ln(k).res = Res(SendOK(c, a.dst, a.kind, a.amt, a.fee))
    [] ln(k).ev = "SendTwo" -> SendTwoEff(c, a.dst, a.dst2, a.call) /\ ln(k).res = Res(SendTwoOK(c, a.dst, a.dst2))
    [] ln(k).ev = "Commit" -> CommitEff(c)
    [] ln(k).ev = "UpdateClient" ->
          /\ UpdateEff(c, a.counter, a.height, a.signer)
          /\ ln(k).res = Res(UpdateOK(c, a.counter, a.height, a.signer))
    [] ln(k).ev = "Retoggle" -> RetoggleEff(c, a.counter) /\ ln(k).res = "ok"
    [] ln(k).ev = "NewClient" -> NewClientEff(c, a.counter, a.name)
    [] ln(k).ev = "SendFake" -> UNCHANGED stateVars /\ ln(k).res = "ok"
    [] ln(k).ev = "UpgradeRev" -> UpgradeRevEff(c, a.counter) /\ ln(k).res = "ok"
    [] ln(k).ev = "Regenesis" -> RegenesisEff(c) /\ ln(k).res = "ok"
    [] ln(k).ev = "Rotate" -> RotateEff(c, a.counter) /\ ln(k).res = "ok"
    [] ln(k).ev = "EnableLimit" -> EnableEff(c, a.token, <<a.cap, a.max, a.min>>) /\ ln(k).res = Res(EnableOK(c, a.token, <<a.cap, a.max, a.min>>))
    [] ln(k).ev = "DisableLimit" -> DisableEff(c, a.token) /\ ln(k).res = Res(DisableOK(c, a.token))
    [] ln(k).ev = "Elapse" -> ElapseEff(c)
    [] ln(k).ev = "Recv" ->
          /\ RecvEff(c, Base(k), a.alt, a.ph, (IF a.proof = "ok" THEN "ok" ELSE "bad"), a.signer)
          /\ ln(k).res = Res(RecvAccept(c, Decoded(Base(k), a.alt), a.ph, (IF a.proof = "ok" THEN "ok" ELSE "bad"), a.signer))
    [] ln(k).ev = "Ack" ->
          /\ AckEff(c, Base(k), a.code, a.alt, a.aalt, a.ph, (IF a.proof = "ok" THEN "ok" ELSE "bad"), a.signer)
          /\ ln(k).res = Res(AckAccept(c, Decoded(Base(k), a.alt), a.code, a.aalt, a.ph, (IF a.proof = "ok" THEN "ok" ELSE "bad")))
    [] OTHER -> FALSE

Conform(k) == Step(k) => (C_Step(k) \/ PrintT(<<"DRIFT", k, ln(k).ev>>))

TNext == l < Len(Trace) /\ Bind(l + 1) /\ (IF Lite THEN JudgeLite(l + 1) ELSE Judge(l + 1) /\ Conform(l + 1))

TSpec == TInit /\ [][TNext]_tvars
=============================================================================
