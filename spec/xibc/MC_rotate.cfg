SPECIFICATION Spec
CONSTANTS
  Chains = {"A", "B"}
  MaxSeq = 1
  MaxH = 2
  Amts = {1}
  Big = 5000
  Kinds = {"fwd", "back"}
  Calls = {"none", "revert", "ok"}
  Alts = {"none"}
  AckAlts = {"none"}
  Proofs = {"ok"}
  Signers = {"relayer"}
  Funds = 1000
  Fees = {0, 1}
  WithRotate = TRUE
  WithUpgradeRev = FALSE
  Delay = 0
  LimWhere <- AllLimWhere
  LimitSets <- NoLimits
  SendFrom <- OneWay
INVARIANTS TypeOK Conservation Exclusive WrappedBacked MarksExact ReceivedWasSent SeqAgree NoGap CommitIsSent OneAckPerReceipt StatusMatchesAck FeesHeld
PROPERTIES AckStable ReceiptStable StatusOnce CommitRemovedOnlyByAck RejectChangesNothing
VIEW stateVars
CHECK_DEADLOCK FALSE
