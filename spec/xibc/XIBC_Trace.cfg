SPECIFICATION TSpec
CONSTANTS
  Delay = 0
  Chains = {"A", "B"}
CONSTANT Lite = FALSE
CHECK_DEADLOCK FALSE
