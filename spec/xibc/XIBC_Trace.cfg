SPECIFICATION TSpec
CONSTANTS
  Chains = {"A", "B"}
CHECK_DEADLOCK FALSE
