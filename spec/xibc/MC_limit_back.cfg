SPECIFICATION Spec
CONSTANTS
  Chains = {"A", "B"}
  MaxSeq = 1
  MaxH = 2
  Amts = {1, 2}
  Big = 5000
  Kinds = {"fwd", "back"}
  Calls = {"none"}
  Alts = {"none"}
  AckAlts = {"none"}
  Proofs = {"ok"}
  Signers = {"relayer"}
  Funds = 1000
  Fees = {0}
  WithRotate = FALSE
  WithUpgradeRev = FALSE
  Delay = 0
  LimWhere <- OnlyAown
  LimitSets <- OneLimit
  SendFrom <- OneWay
INVARIANTS TypeOK Conservation Exclusive WrappedBacked MarksExact ReceivedWasSent SeqAgree NoGap CommitIsSent OneAckPerReceipt StatusMatchesAck FeesHeld LimitBound
PROPERTIES AckStable ReceiptStable StatusOnce CommitRemovedOnlyByAck RejectChangesNothing LimitSteps
VIEW stateVars
CHECK_DEADLOCK FALSE
