------------------------------ MODULE XIBC_MBT ------------------------------
(* Behaviour generator for XIBC.tla (TLC -simulate).  Each disjunct of MNext  *)
(* picks its parameters with RandomElement, so that a random walk chooses     *)
(* uniformly among KINDS of steps (a good relay step, a hostile one, ...)     *)
(* instead of being drowned in the many rejected messages of XIBC!Next.       *)
EXTENDS XIBC, Json
CONSTANTS Depth, UsefulPct
VARIABLE hist

Pick(S) == RandomElement(S)
Log == hist' = Append(hist, last')

AllKinds == {"fwd", "back"}

(* \E x \in {Pick(S)} binds ONE random value (a LET would re-draw it at every use) *)
SendR ==
  \E c \in {Pick(Chains)} :
  \E d \in {Pick((Chains \ {c}) \cup (IF Pick(1..8) = 1 THEN {"?"} ELSE {}))} :
  \E k \in {Pick({x \in Kinds : <<c, x>> \in SendFrom} \cup {"fwd"})} :
  \E a \in {IF Pick(1..10) = 1 THEN Big ELSE Pick(Amts)} :
  \E cl \in {Pick(IF k = "fwd" THEN Calls ELSE Calls \ {"nestok"})} : \E f \in {Pick(Fees)} :
     (d \in Chains => seq[c][d] <= MaxSeq) /\ Send(c, d, k, a, cl, f)

(* a transfer back of wrapped tokens the user really holds *)
SendBackR ==
  \E c \in Chains : \E d \in Others(c) :
     /\ wbal[c][d] > 0 /\ "back" \in Kinds /\ seq[c][d] <= MaxSeq
     /\ \E a \in {Pick({x \in Amts : x <= wbal[c][d]} \cup {1})} : \E cl \in {Pick(Calls \ {"nestok"})} : \E f \in {Pick(Fees)} :
           Send(c, d, "back", a, cl, f)

SendViaR ==
  \E c \in {Pick(Chains)} : \E d \in {Pick(Chains \ {c})} : \E cl \in {Pick(Calls \cap {"ok", "revert"})} :
     seq[c][d] <= MaxSeq /\ SendVia(c, d, cl)

SendBadCbR ==
  \E c \in {Pick(Chains)} : \E d \in {Pick(Chains \ {c})} : \E a \in {Pick(Amts)} : seq[c][d] <= MaxSeq /\ SendBadCb(c, d, a)
SendTwoR ==
  \E c \in {Pick(Chains)} : \E d1 \in {Pick(Chains \ {c})} : \E d2 \in {Pick(Chains \ {c})} : \E cl \in {Pick(Calls \cap {"ok", "revert"})} :
     seq[c][d1] <= MaxSeq /\ seq[c][d2] <= MaxSeq /\ SendTwo(c, d1, d2, cl)

CommitR == \E c \in {Pick(Chains)} : Commit(c)

UpdateGood == \E c \in {Pick(Chains)} : \E d \in {Pick(Chains \ {c})} : UpdateClient(c, d, h[d], "relayer")
UpdateR    == \E c \in {Pick(Chains)} : \E d \in {Pick(Chains \ {c})} : \E k \in {Pick(0..MaxH)} : \E s \in {Pick(Signers)} :
                 UpdateClient(c, d, k, s)
(* the registered relayer submits, for a height the counterparty has (often one the client already verified), a header  *)
(* that the counterparty's validators never signed (another application hash, signed by a private validator)           *)
UpdateForged == \E c \in {Pick(Chains)} : \E d \in {Pick(Chains \ {c})} :
                 \E k \in {IF Pick(1..3) > 1 THEN Pick(clients[c][d].cons \cup {h[d]}) ELSE Pick(0..MaxH)} : UpdateClient(c, d, k, "forger")

Pending == {p \in sent : T(p) \notin receipts[p.dst]}
GoodRecvHeights(p) == {k \in clients[p.dst][p.src].cons : k + 1 <= Len(snaps[p.src]) /\ p \in snaps[p.src][k + 1].commits}
RecvGood ==
  /\ Pending # {}
  /\ \E p \in {Pick(Pending)} : \E k \in {Pick(GoodRecvHeights(p) \cup {clients[p.dst][p.src].latest})} :
        Recv(p.dst, p, "none", k, "ok", "relayer")
RecvR ==
  /\ sent # {}
  /\ \E p \in {Pick(sent)} : \E alt \in {Pick(Alts)} : \E k \in {Pick(0..MaxH)} : \E pf \in {Pick(Proofs)} : \E s \in {Pick(Signers)} :
        Recv(p.dst, p, alt, k, pf, s)
(* a replay of something already received, with a perfectly valid proof *)
RecvDup ==
  /\ (sent \ Pending) # {}
  /\ \E p \in {Pick(sent \ Pending)} : \E alt \in {Pick({"none", "reenc"} \cap (Alts \cup {"none"}))} :
        Recv(p.dst, p, alt, clients[p.dst][p.src].latest, "ok", "relayer")

Unacked == {p \in sent : p \in commits[p.src] /\ T(p) \in receipts[p.dst]}
GoodAckHeights(p) == {k \in clients[p.src][p.dst].cons : k + 1 <= Len(snaps[p.dst]) /\ \E x \in snaps[p.dst][k + 1].acks : x.t = T(p)}
AckGood ==
  /\ Unacked # {}
  /\ \E p \in {Pick(Unacked)} : \E k \in {Pick(GoodAckHeights(p) \cup {clients[p.src][p.dst].latest})} : \E s \in {Pick(Signers)} :
        Ack(p.src, p, WrittenCode(p), "none", "none", k, "ok", s)
AckR ==
  /\ sent # {}
  /\ \E p \in {Pick(sent)} : \E alt \in {Pick(Alts)} : \E aalt \in {Pick(AckAlts)} : \E k \in {Pick(0..MaxH)} : \E pf \in {Pick(Proofs)} : \E s \in {Pick(Signers)} :
        Ack(p.src, p, AckCode(WrittenCode(p), aalt), alt, aalt, k, pf, s)

(* steps that make the protocol progress (so that walks reach deep protocol states) *)
Dirty(c) == snaps[c][Len(snaps[c])] # [commits |-> commits[c], acks |-> acks[c]]
CommitUseful == /\ {c \in Chains : Dirty(c) /\ h[c] < MaxH} # {}
                /\ \E c \in {Pick({c \in Chains : Dirty(c) /\ h[c] < MaxH})} : Commit(c)
Stale == {cd \in Chains \X Chains : cd[1] # cd[2] /\ clients[cd[1]][cd[2]].latest < h[cd[2]]}
UpdateUseful == /\ Stale # {}
                /\ \E cd \in {Pick(Stale)} : UpdateClient(cd[1], cd[2], h[cd[2]], "relayer")
Receivable == {p \in Pending : GoodRecvHeights(p) # {}}
RecvUseful == /\ Receivable # {}
              /\ \E p \in {Pick(Receivable)} : \E k \in {Pick(GoodRecvHeights(p))} : Recv(p.dst, p, "none", k, "ok", "relayer")
Ackable == {p \in Unacked : GoodAckHeights(p) # {}}
AckUseful == /\ Ackable # {}
             /\ \E p \in {Pick(Ackable)} : \E k \in {Pick(GoodAckHeights(p))} : \E s \in {Pick(Signers)} :
                   Ack(p.src, p, WrittenCode(p), "none", "none", k, "ok", s)

(* a perfectly relayable message (verified height, genuine proof) in which exactly one packet field is altered *)
ForgeAlts == Alts \cap {"amt", "sender", "seq", "feeopt"}
RecvForged == /\ Receivable # {} /\ ForgeAlts # {}
              /\ \E p \in {Pick(Receivable)} : \E k \in {Pick(GoodRecvHeights(p))} : \E alt \in {Pick(ForgeAlts)} :
                    Recv(p.dst, p, alt, k, "ok", "relayer")
AckForged ==  /\ Ackable # {} /\ ForgeAlts # {}
              /\ \E p \in {Pick(Ackable)} : \E k \in {Pick(GoodAckHeights(p))} : \E alt \in {Pick(ForgeAlts \ {"seq"})} : \E s \in {Pick(Signers)} :
                    Ack(p.src, p, WrittenCode(p), alt, "none", k, "ok", s)
AckForgedCode == /\ Ackable # {} /\ "ackcode" \in AckAlts
              /\ \E p \in {Pick(Ackable)} : \E k \in {Pick(GoodAckHeights(p))} : \E s \in {Pick(Signers)} :
                    Ack(p.src, p, AckCode(WrittenCode(p), "ackcode"), "none", "ackcode", k, "ok", s)

(* a replay of an acknowledgement that was already processed, with a perfectly valid proof (the acknowledgement stays *)
(* provable on the destination for ever)                                                                            *)
Acked == {p \in sent : T(p) \in DOMAIN status[p.src] /\ status[p.src][T(p)] # 0 /\ GoodAckHeights(p) # {}}
Refunds == {p \in Acked : status[p.src][T(p)] = 2}          \* a replayed error acknowledgement would refund twice
AckDup == /\ Acked # {}
          /\ \E p \in {IF Refunds # {} /\ Pick(1..3) > 1 THEN Pick(Refunds) ELSE Pick(Acked)} : \E k \in {Pick(GoodAckHeights(p))} : \E s \in {Pick(Signers)} :
                Ack(p.src, p, WrittenCode(p), "none", "none", k, "ok", s)

(* a perfectly relayable message whose proof height is stated in another revision (same block number) *)
RecvRev0 == /\ Receivable # {} /\ "rev0" \in Proofs
            /\ \E p \in {Pick(Receivable)} : \E k \in {Pick(GoodRecvHeights(p))} : Recv(p.dst, p, "none", k, "rev0", "relayer")
AckRev0 ==  /\ Ackable # {} /\ "rev0" \in Proofs
            /\ \E p \in {Pick(Ackable)} : \E k \in {Pick(GoodAckHeights(p))} : \E s \in {Pick(Signers)} :
                  Ack(p.src, p, WrittenCode(p), "none", "none", k, "rev0", s)

RotateR == WithRotate /\ \E c \in {Pick(Chains)} : \E d \in {Pick(Chains \ {c})} : Rotate(c, d)

RetoggleR == \E c \in {Pick(Chains)} : \E d \in {Pick(Chains \ {c})} : Retoggle(c, d)
SendFakeR == \E c \in {Pick(Chains)} : \E d \in {Pick(Chains \ {c})} : \E a \in {Pick(Amts)} : SendFake(c, d, a)
NewClientR == \E c \in {Pick(Chains)} : \E d \in {Pick(Chains \ {c})} : \E nm \in {Pick({"prefix", "ext"})} : NewClient(c, d, nm)

(* supply limits: governance switches them on and off (admissible and inadmissible parameters), blocks lie far apart *)
LimOn == {cx \in Chains \X (Chains \cup {"own"}) : cx[2] \in LimKeys(cx[1]) /\ lim[cx[1]][cx[2]].on}
EnableR  == \E c \in {Pick(Chains)} : \E x \in {Pick(LimKeys(c))} : \E t \in {Pick(LimitSets)} : EnableLimit(c, x, t)
DisableR == IF LimOn # {} /\ Pick(1..3) > 1 THEN \E cx \in {Pick(LimOn)} : DisableLimit(cx[1], cx[2])
            ELSE \E c \in {Pick(Chains)} : \E x \in {Pick(LimKeys(c))} : DisableLimit(c, x)
ElapseR  == \E c \in {Pick(Chains)} : IF h[c] < MaxH THEN Elapse(c) ELSE EnableR
(* a transfer towards a chain that limits the token it will receive *)
SendLimitedR ==
  /\ LimOn # {}
  /\ \E cx \in {Pick(LimOn)} : \E s \in {IF cx[2] = "own" THEN Pick(Others(cx[1])) ELSE cx[2]} :
       \E k \in {IF cx[2] = "own" THEN "back" ELSE "fwd"} : \E a \in {Pick(Amts)} : \E cl \in {Pick(Calls \ (IF k = "fwd" THEN {} ELSE {"nestok"}))} :
          seq[s][cx[1]] <= MaxSeq /\ Send(s, cx[1], k, a, cl, 0)
Progress == CommitUseful \/ UpdateUseful \/ RecvUseful \/ AckUseful
RegenesisR == \E c \in {Pick(Chains)} : Regenesis(c)
LimNext == \E r \in {Pick(1..10)} :
             IF r <= 2 THEN (IF Pick(1..4) = 1 THEN DisableR ELSE IF Pick(1..3) = 1 THEN ElapseR ELSE EnableR)
             ELSE IF r <= 4 THEN (IF LimOn # {} THEN SendLimitedR \/ CommitR ELSE SendR \/ SendBackR \/ CommitR)
             ELSE IF r <= 9 THEN (IF ENABLED Progress THEN Progress ELSE SendR \/ SendBackR \/ CommitR \/ UpdateGood)
             ELSE (RecvDup \/ AckDup \/ RecvForged \/ AckForgedCode \/ RecvGood \/ AckGood \/ UpdateR \/ RegenesisR)

Useful  == CommitUseful \/ UpdateUseful \/ RecvUseful \/ AckUseful \/ SendR \/ SendBackR \/ SendViaR \/ SendBadCbR \/ SendTwoR
Hostile == SendR \/ CommitR \/ UpdateR \/ UpdateForged \/ RecvGood \/ RecvR \/ RecvDup \/ AckGood \/ AckR \/ RecvForged \/ AckForged \/ AckForgedCode \/ AckDup \/ RetoggleR \/ NewClientR \/ SendFakeR \/ RecvRev0 \/ AckRev0 \/ RotateR

MInit == Init /\ hist = << >>

(* A long history instead of many short ones: one packet after the other travels from the first chain to the second  *)
(* (send, commit, update, receive - every step makes progress), with an occasional acknowledgement or replay, so that  *)
(* sequences and heights reach the hundreds (behaviour that depends on how much history there is).                   *)
LongSrc == CHOOSE c \in Chains : TRUE
LongDst == CHOOSE d \in Chains \ {LongSrc} : TRUE
LongAckEnabled == Ackable # {} \/ (Unacked # {} /\ ((Dirty(LongDst) /\ h[LongDst] < MaxH) \/ clients[LongSrc][LongDst].latest < h[LongDst]))
LongAck ==
  IF Ackable # {}
  THEN \E p \in {CHOOSE x \in Ackable : \A y \in Ackable : x.seq <= y.seq} : \E k \in {Pick(GoodAckHeights(p))} :
          Ack(p.src, p, WrittenCode(p), "none", "none", k, "ok", "relayer")
  ELSE IF Dirty(LongDst) /\ h[LongDst] < MaxH THEN Commit(LongDst)
  ELSE UpdateClient(LongSrc, LongDst, h[LongDst], "relayer")
LongNext ==
  IF Pick(1..25) = 1 /\ (sent \ Pending) # {} THEN RecvDup
  (* acknowledgements start late and take the oldest packet first (by then many later packets are committed); the      *)
  (* destination is committed and the source's client of it updated as far as that needs                               *)
  ELSE IF Cardinality(sent) >= 12 /\ Pick(1..12) = 1 /\ LongAckEnabled THEN LongAck
  ELSE IF Receivable # {} THEN RecvUseful
  ELSE IF Pending # {} /\ Dirty(LongSrc) /\ h[LongSrc] < MaxH THEN Commit(LongSrc)
  ELSE IF Pending # {} /\ clients[LongDst][LongSrc].latest < h[LongSrc] THEN UpdateClient(LongDst, LongSrc, h[LongSrc], "relayer")
  ELSE seq[LongSrc][LongDst] <= MaxSeq /\ Send(LongSrc, LongDst, "fwd", 1, "none", 0)

MNext == /\ Len(hist) < Depth
         /\ IF LimitSets # {} THEN LimNext       \* the supply-limit generator
            ELSE IF UsefulPct > 10 THEN LongNext     \* UsefulPct = 11: the long-history generator
            ELSE \E r \in {Pick(1..10)} : IF r <= UsefulPct THEN Useful ELSE Hostile
         /\ Log

MSpec == MInit /\ [][MNext]_<<vars, hist>>

Emit == Len(hist) = Depth => PrintT(<<"MBT", ToJson(hist)>>)
=============================================================================
