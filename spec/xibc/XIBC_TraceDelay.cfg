SPECIFICATION TSpec
CONSTANTS
  Delay = 1
  Chains = {"A", "B"}
CONSTANT Lite = FALSE
CHECK_DEADLOCK FALSE
