---------------------------- MODULE ETHClient_MBT ----------------------------
EXTENDS ETHClient, Json
CONSTANTS Depth
VARIABLE hist
Pick(S) == RandomElement(S)
MInit == Init /\ hist = <<>>
(* mostly headers whose parent is stored (children of any stored header, in any order), sometimes any header *)
Candidates == {x \in Universe : P(x) \in index}
MNext == /\ Len(hist) < Depth
         /\ \E x \in {IF Candidates # {} /\ Pick(1..6) # 1 THEN Pick(Candidates) ELSE Pick(Universe)} :
               SubmitEff(x) /\ last' = [act |-> "Submit", res |-> Res(SubmitOK(x)), x |-> x]
         /\ hist' = Append(hist, last')
MSpec == MInit /\ [][MNext]_<<vars, hist>>
Emit == Len(hist) = Depth => PrintT(<<"MBT", ToJson(hist)>>)
=============================================================================
