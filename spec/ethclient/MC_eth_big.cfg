SPECIFICATION Spec
CONSTANTS
  Universe <- GenUniverse
  Parent <- GenParent
  Height <- GenHeight
  Root <- GenRoot
  Valid <- GenValid
  FixRestrict = TRUE
INVARIANTS AcceptedHasStoredParent NeverWedged AncestryRoots
PROPERTIES HeadIsLast RejectChangesNothing OnlyRuleAbiding
VIEW stateVars
CHECK_DEADLOCK FALSE
