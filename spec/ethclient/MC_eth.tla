------------------------------- MODULE MC_eth -------------------------------
EXTENDS ETHClient
(*   g - a1 - a2 - a3            b2 and c2 are siblings with the same state root;  m1 breaks the time rule   *)
(*     \ b1 - b2                                                                                               *)
(*          \ c2                                                                                               *)
MCUniverse == {"a1", "a2", "a3", "b1", "b2", "c2", "m1"}
MCParent == [a1 |-> "g", a2 |-> "a1", a3 |-> "a2", b1 |-> "g", b2 |-> "b1", c2 |-> "b1", m1 |-> "g"]
MCHeight == [a1 |-> 1, a2 |-> 2, a3 |-> 3, b1 |-> 1, b2 |-> 2, c2 |-> 2, m1 |-> 1]
MCRoot   == [a1 |-> "ra1", a2 |-> "ra2", a3 |-> "ra3", b1 |-> "rb1", b2 |-> "rb2", c2 |-> "rb2", m1 |-> "rm1"]
MCValid  == [a1 |-> TRUE, a2 |-> TRUE, a3 |-> TRUE, b1 |-> TRUE, b2 |-> TRUE, c2 |-> TRUE, m1 |-> FALSE]
=============================================================================
