---------------------------- MODULE ETHPow_Trace ----------------------------
EXTENDS Integers, Sequences, TLC, Json, IOUtils
Trace == ndJsonDeserialize(IOEnv.TRACE_FILE)
VARIABLE l
ln(k) == Trace[k]
Report(k, name, holds) == holds \/ PrintT(<<"VIOL", k, name>>)
Stage(x, same) == IF x.claim = "right" \/ same THEN "seal" ELSE "difficulty"
IsReal(k) == "fam" \in DOMAIN ln(k).args
JudgeReal(k) ==
  (* a genuinely sealed, rule-abiding child of the stored header is accepted and becomes the head: proof-of-work chains are not wedged *)
  /\ Report(k, "C10.SealedHeaderAccepted", ln(k).args.mut \in {"none", "second"} => (ln(k).res = "ok" /\ ln(k).headok))
  (* ... and is refused, with nothing changed, when its seal or its difficulty is touched *)
  /\ Report(k, "C10.TouchedSealRefused", ln(k).args.mut \notin {"none", "second"} => (ln(k).res # "ok" /\ ln(k).dg.pre = ln(k).dg.post))
JudgeSynth(k) == ln(k).ev = "Pow" =>
  (* without a valid seal nothing is accepted, and nothing changes *)
  /\ Report(k, "C10.PowNeverAcceptedUnsealed", ln(k).res # "ok" /\ ln(k).dg.pre = ln(k).dg.post)
  (* the difficulty rule decides exactly as the formula says (reference written down in the replay, not taken from the code) *)
  /\ Report(k, "C10.DifficultyRule", ln(k).stage = Stage(ln(k).args, ln(k).same))
Judge(k) == IF ln(k).ev = "Pow" /\ IsReal(k) THEN JudgeReal(k) ELSE JudgeSynth(k)
TInit == l = 0
TNext == l < Len(Trace) /\ l' = l + 1 /\ Judge(l + 1)
TSpec == TInit /\ [][TNext]_l
=============================================================================
