SPECIFICATION Spec
CONSTANTS
  Universe <- MCUniverse
  Parent <- MCParent
  Height <- MCHeight
  Root <- MCRoot
  Valid <- MCValid
  FixRestrict = FALSE
INVARIANTS AcceptedHasStoredParent NeverWedged AncestryRoots
PROPERTIES HeadIsLast RejectChangesNothing OnlyRuleAbiding
VIEW stateVars
CHECK_DEADLOCK FALSE
