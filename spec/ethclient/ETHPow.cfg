SPECIFICATION Spec
INVARIANTS Emit
CHECK_DEADLOCK FALSE
