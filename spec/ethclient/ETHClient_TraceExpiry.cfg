SPECIFICATION TSpec
CONSTANTS
  FixRestrict = TRUE
  Expiry = TRUE
CHECK_DEADLOCK FALSE
