SPECIFICATION TSpec
CONSTANTS
  FixRestrict = TRUE
CHECK_DEADLOCK FALSE
