SPECIFICATION TSpec
CHECK_DEADLOCK FALSE
