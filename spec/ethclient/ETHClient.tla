----------------------------- MODULE ETHClient -----------------------------
(***************************************************************************)
(* The Ethereum light client of XIBC (light-clients/eth/types/update.go,   *)
(* header.go, store.go; ClientKeeper.UpdateClient).  Headers form a tree;  *)
(* the client indexes every accepted header by (hash, height), keeps an    *)
(* index (state root, height) -> header ("root main"), one consensus state *)
(* (state root) per height, and its head = the last accepted header.       *)
(* RestrictChain, which re-points the consensus states when a header does  *)
(* not extend the head, is transcribed loop by loop.                       *)
(***************************************************************************)
EXTENDS Integers, Sequences, FiniteSets, TLC

CONSTANTS Universe,    \* header ids other than the genesis header "g"
          Parent,      \* Parent[x]  id of the parent header
          Height,      \* Height[x]
          Root,        \* Root[x]    state root (siblings may share a root)
          Valid,       \* Valid[x]   the header satisfies the time / gas / base-fee rules relative to its parent
          FixRestrict  \* TRUE: RestrictChain also records the first header of the new branch (repaired code)

VARIABLES index,     \* accepted header ids
          cons,      \* cons[h] = state root kept as consensus state of height h
          rootMain,  \* rootMain[<<root, h>>] = header id
          head,      \* last accepted header
          last
stateVars == <<index, cons, rootMain, head>>
vars == <<stateVars, last>>

(* the universe used for behaviour generation and trace validation (the replay builds real headers for it)     *)
(*   g - a1 - a2 - a3 - a4        b2/c2 share a state root, so do c3/d3; m1 breaks the timestamp rule;         *)
(*   a1 used less gas than its target, b1 more: n2 (child of a1, base fee one too low) and p2 (child of b1,    *)
(*   base fee not raised) break the base-fee rule; k1 raises the gas limit by exactly parent/1024 (one too     *)
(*   much), l1 by one less (allowed)                                                                            *)
(*     \ b1 - b2 - b3                                                                                          *)
(*          \ c2 - c3                                                                                           *)
(*               \ d3                                                                                           *)
GenUniverse == {"a1", "a2", "a3", "a4", "b1", "b2", "b3", "c2", "c3", "d3", "m1", "n2", "p2", "k1", "l1"}
GenParent == [a1 |-> "g", a2 |-> "a1", a3 |-> "a2", a4 |-> "a3", b1 |-> "g", b2 |-> "b1", b3 |-> "b2", c2 |-> "b1", c3 |-> "c2", d3 |-> "c2", m1 |-> "g", n2 |-> "a1", p2 |-> "b1", k1 |-> "g", l1 |-> "g"]
GenHeight == [a1 |-> 1, a2 |-> 2, a3 |-> 3, a4 |-> 4, b1 |-> 1, b2 |-> 2, b3 |-> 3, c2 |-> 2, c3 |-> 3, d3 |-> 3, m1 |-> 1, n2 |-> 2, p2 |-> 2, k1 |-> 1, l1 |-> 1]
GenRoot   == [a1 |-> "ra1", a2 |-> "ra2", a3 |-> "ra3", a4 |-> "ra4", b1 |-> "rb1", b2 |-> "rb2", b3 |-> "rb3", c2 |-> "rb2", c3 |-> "rc3", d3 |-> "rc3", m1 |-> "rm1", n2 |-> "rn2", p2 |-> "rp2", k1 |-> "rk1", l1 |-> "rl1"]
GenValid  == [a1 |-> TRUE, a2 |-> TRUE, a3 |-> TRUE, a4 |-> TRUE, b1 |-> TRUE, b2 |-> TRUE, b3 |-> TRUE, c2 |-> TRUE, c3 |-> TRUE, d3 |-> TRUE, m1 |-> FALSE, n2 |-> FALSE, p2 |-> FALSE, k1 |-> FALSE, l1 |-> TRUE]

All == Universe \cup {"g"}
H(x) == IF x = "g" THEN 0 ELSE Height[x]
R(x) == IF x = "g" THEN "rg" ELSE Root[x]
P(x) == IF x = "g" THEN "none" ELSE Parent[x]
(* GetParentHeaderFromIndex: the header stored under (parent hash, height - 1) *)
StoredParent(x, idx) == IF x # "g" /\ P(x) \in idx /\ H(P(x)) = H(x) - 1 THEN P(x) ELSE "none"

Init == /\ index = {"g"} /\ cons = (0 :> "rg") /\ rootMain = (<<"rg", 0>> :> "g") /\ head = "g"
        /\ last = [act |-> "Init", res |-> "ok"]

Put(f, k, v) == (k :> v) @@ f

(* --- RestrictChain(new = x), evaluated on the store AFTER update() wrote x ---------------------------------- *)
MainAt(h, c, rm) == IF h \in DOMAIN c /\ <<c[h], h>> \in DOMAIN rm THEN rm[<<c[h], h>>] ELSE "none"

RECURSIVE WalkDown(_, _, _, _, _)
(* while ti > si: record new, step to its parent *)
WalkDown(n, ti, si, acc, idx) ==
  IF n = "none" THEN [ok |-> FALSE]
  ELSE IF ti > si THEN WalkDown(StoredParent(n, idx), ti - 1, si, Append(acc, n), idx)
  ELSE [ok |-> TRUE, n |-> n, ti |-> ti, acc |-> acc]

RECURSIVE WalkBoth(_, _, _, _, _)
(* while current.parent # new.parent: record new, step both to their parents *)
WalkBoth(cur, n, ti, acc, idx) ==
  IF P(cur) = P(n) THEN [ok |-> TRUE, n |-> n, ti |-> ti, acc |-> acc]
  ELSE LET pn == StoredParent(n, idx)  pc == StoredParent(cur, idx) IN
       IF pn = "none" \/ pc = "none" THEN [ok |-> FALSE]
       ELSE WalkBoth(pc, pn, ti - 1, Append(acc, n), idx)

RECURSIVE Repoint(_, _, _, _)
(* for i = len(acc) .. 1: the header acc[i] must be stored under height ti; cons[ti] := its root; ti++ *)
Repoint(acc, i, ti, c) ==
  IF i = 0 THEN [ok |-> TRUE, cons |-> c]
  ELSE IF H(acc[i]) # ti THEN [ok |-> FALSE]
  ELSE Repoint(acc, i - 1, ti + 1, Put(c, ti, R(acc[i])))

Restrict(x, idx, c, rm, hd) ==
  LET low  == H(hd) > H(x)
      cur  == IF low THEN MainAt(H(x), c, rm) ELSE hd
      si   == IF low THEN H(x) ELSE H(hd)
  IN IF cur = "none" THEN [ok |-> FALSE]
     ELSE LET w1 == WalkDown(x, H(x), si, <<>>, idx) IN
          IF ~w1.ok THEN [ok |-> FALSE]
          ELSE LET w2 == WalkBoth(cur, w1.n, w1.ti, w1.acc, idx) IN
               IF ~w2.ok THEN [ok |-> FALSE]
               ELSE LET acc == IF FixRestrict THEN Append(w2.acc, w2.n) ELSE w2.acc IN
                    Repoint(acc, Len(acc), w2.ti, c)

(* --- MsgUpdateClient with header x ----------------------------------------------------------------------- *)
SubmitResult(x) ==
  IF ~(x # "g" /\ StoredParent(x, index) # "none" /\ Valid[x]) THEN [ok |-> FALSE]
  ELSE LET idx1 == index \cup {x}
           rm1  == Put(rootMain, <<R(x), H(x)>>, x)
       IN IF P(x) = head THEN [ok |-> TRUE, index |-> idx1, rootMain |-> rm1, cons |-> Put(cons, H(x), R(x))]
          ELSE LET r == Restrict(x, idx1, cons, rm1, head) IN
               IF ~r.ok THEN [ok |-> FALSE]
               ELSE [ok |-> TRUE, index |-> idx1, rootMain |-> rm1, cons |-> Put(r.cons, H(x), R(x))]

SubmitOK(x) == SubmitResult(x).ok
SubmitEff(x) ==
  LET r == SubmitResult(x) IN
  IF ~r.ok THEN UNCHANGED stateVars
  ELSE index' = r.index /\ rootMain' = r.rootMain /\ cons' = r.cons /\ head' = x

Res(ok) == IF ok THEN "ok" ELSE "err"
Next == \E x \in Universe : SubmitEff(x) /\ last' = [act |-> "Submit", res |-> Res(SubmitOK(x)), x |-> x]
Spec == Init /\ [][Next]_vars

-----------------------------------------------------------------------------
(* C10 *)
RECURSIVE Anc(_, _)
Anc(x, h) == IF H(x) = h THEN x ELSE IF x = "g" THEN "none" ELSE Anc(P(x), h)      \* ancestor of x at height h
AcceptedHasStoredParent == \A x \in index \ {"g"} : P(x) \in index
HeadIsLast == [][(last'.act = "Submit" /\ last'.res = "ok") => head' = last'.x]_vars
(* forks never wedge the client: a rule-abiding child of any stored header is still accepted *)
NeverWedged == \A x \in Universe : (Valid[x] /\ P(x) \in index) => SubmitOK(x)
(* every consensus state kept for a height on the head's ancestry is that ancestor's state root *)
AncestryRoots == \A h \in DOMAIN cons : h <= H(head) => cons[h] = R(Anc(head, h))
RejectChangesNothing == [][last'.res = "err" => UNCHANGED stateVars]_vars
OnlyRuleAbiding == [][(last'.act = "Submit" /\ last'.res = "ok") => (Valid[last'.x] /\ P(last'.x) \in index)]_vars
=============================================================================
