SPECIFICATION MSpec
CONSTANTS
  Universe <- GenUniverse
  Parent <- GenParent
  Height <- GenHeight
  Root <- GenRoot
  Valid <- GenValid
  FixRestrict = TRUE
  Depth = 12
INVARIANTS Emit
CHECK_DEADLOCK FALSE
