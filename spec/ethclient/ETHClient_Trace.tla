--------------------------- MODULE ETHClient_Trace ---------------------------
(* Trace validation for ETHClient.tla: index / rootMain / cons / head are bound to the RAW client store of the    *)
(* real application after every submitted header.                                                                 *)
EXTENDS Integers, Sequences, FiniteSets, TLC, Json, IOUtils
CONSTANTS FixRestrict,
          Expiry    \* TRUE: the expiry leg (short trusting period, moving clock): pruning is judged, conformance with the clock-less model is not
Trace == ndJsonDeserialize(IOEnv.TRACE_FILE)
VARIABLES l, index, cons, rootMain, head, last
Universe == {"a1", "a2", "a3", "a4", "b1", "b2", "b3", "c2", "c3", "d3", "m1", "n2", "p2", "k1", "l1"}
Parent == [a1 |-> "g", a2 |-> "a1", a3 |-> "a2", a4 |-> "a3", b1 |-> "g", b2 |-> "b1", b3 |-> "b2", c2 |-> "b1", c3 |-> "c2", d3 |-> "c2", m1 |-> "g", n2 |-> "a1", p2 |-> "b1", k1 |-> "g", l1 |-> "g"]
Height == [a1 |-> 1, a2 |-> 2, a3 |-> 3, a4 |-> 4, b1 |-> 1, b2 |-> 2, b3 |-> 3, c2 |-> 2, c3 |-> 3, d3 |-> 3, m1 |-> 1, n2 |-> 2, p2 |-> 2, k1 |-> 1, l1 |-> 1]
Root == [a1 |-> "ra1", a2 |-> "ra2", a3 |-> "ra3", a4 |-> "ra4", b1 |-> "rb1", b2 |-> "rb2", b3 |-> "rb3", c2 |-> "rb2", c3 |-> "rc3", d3 |-> "rc3", m1 |-> "rm1", n2 |-> "rn2", p2 |-> "rp2", k1 |-> "rk1", l1 |-> "rl1"]
Valid == [a1 |-> TRUE, a2 |-> TRUE, a3 |-> TRUE, a4 |-> TRUE, b1 |-> TRUE, b2 |-> TRUE, b3 |-> TRUE, c2 |-> TRUE, c3 |-> TRUE, d3 |-> TRUE, m1 |-> FALSE, n2 |-> FALSE, p2 |-> FALSE, k1 |-> FALSE, l1 |-> TRUE]
INSTANCE ETHClient
SetOf(s) == {s[i] : i \in DOMAIN s}
ln(k) == Trace[k]
FnOf(list) == LET S == SetOf(list) IN [x \in {e[1] : e \in S} |-> (CHOOSE e \in S : e[1] = x)[2]]
TInit == l = 0 /\ index = {} /\ cons = <<>> /\ rootMain = <<>> /\ head = "none" /\ last = [act |-> "None", res |-> "ok"]
Report(k, name, holds) == holds \/ PrintT(<<"VIOL", k, name>>)
IsStep(k) == ln(k).ev # "Reset"
X(k) == ln(k).args.x
(* --- the expiry leg: with every accepted header the EARLIEST consensus state is removed if its date plus the trusting  *)
(* period lies before the block time - nothing else is (light-clients/eth/types/update.go)                              *)
Min(S) == CHOOSE x \in S : \A y \in S : x <= y
MainAt0(h) == IF h \in DOMAIN cons /\ <<cons[h], h>> \in DOMAIN rootMain THEN rootMain[<<cons[h], h>>] ELSE "?"
Expired(k, id) == id \in DOMAIN ln(k).dates /\ ln(k).dates[id] + ln(k).clock.tp < ln(k).clock.now
JudgeExpiry(k) == (IsStep(k) /\ DOMAIN cons # {}) =>
  LET removed == (DOMAIN cons) \ (DOMAIN cons')  e == Min(DOMAIN cons) IN
  /\ Report(k, "C10.PrunesOnlyEarliestExpired", removed \subseteq {e} /\ (removed # {} => (ln(k).res = "ok" /\ Expired(k, MainAt0(e)))))
  /\ Report(k, "C10.ExpiredEarliestIsPruned", (ln(k).res = "ok" /\ Expired(k, MainAt0(e))) => e \in removed)
  /\ Report(k, "C10.RejectChangesNothing", ln(k).res # "ok" => ln(k).dg.pre = ln(k).dg.post)
  (* stored headers leave the index only together with the pruned earliest consensus state (the header that state belongs to) *)
  /\ Report(k, "C10.HeadersLeaveOnlyWithPrunedState", (index \ index') \subseteq (IF e \in removed THEN {MainAt0(e)} ELSE {}))
  (* forks still do not wedge the client: while the head is fresh and no pruning is due, a rule-abiding header whose way back *)
  (* to the head's chain is stored (the walk of RestrictChain on the stored headers) is accepted                              *)
  /\ Report(k, "C10.NeverWedgedWhileFresh", (~Expired(k, MainAt0(e)) /\ ~Expired(k, head) /\ SubmitOK(X(k))) => ln(k).res = "ok")
JudgeTree(k) ==
  /\ Report(k, "C10.AcceptedHasStoredParent", AcceptedHasStoredParent')
  /\ Report(k, "C10.AncestryRoots", AncestryRoots')
  /\ Report(k, "C10.KnownHeadersOnly", index' \subseteq All)
  /\ IsStep(k) =>
     (* the headline clause, on the real acceptance decision: a rule-abiding child of a stored header is accepted *)
     /\ Report(k, "C10.NeverWedged", (Valid[X(k)] /\ P(X(k)) \in index) => ln(k).res = "ok")
     /\ Report(k, "C10.OnlyRuleAbiding", ln(k).res = "ok" => (Valid[X(k)] /\ P(X(k)) \in index))
     /\ Report(k, "C10.HeadIsLast", ln(k).res = "ok" => head' = X(k))
     /\ Report(k, "C10.RejectChangesNothing", ln(k).res # "ok" => (ln(k).dg.pre = ln(k).dg.post /\ UNCHANGED stateVars))
Judge(k) == IF Expiry THEN JudgeExpiry(k) ELSE JudgeTree(k)
C_Step(k) == SubmitEff(X(k)) /\ (ln(k).res = "ok") = SubmitOK(X(k))
Conform(k) == (IsStep(k) /\ ~Expiry) => (C_Step(k) \/ PrintT(<<"DRIFT", k, ln(k).ev>>))
TNext == LET k == l + 1 IN
  /\ l < Len(Trace) /\ l' = k
  /\ index' = SetOf(ln(k).st.index) /\ cons' = FnOf(ln(k).st.cons) /\ head' = ln(k).st.head
  /\ rootMain' = LET S == SetOf(ln(k).st.rootMain) IN [key \in {<<e[1][1], e[1][2]>> : e \in S} |-> (CHOOSE e \in S : <<e[1][1], e[1][2]>> = key)[2]]
  /\ last' = [act |-> ln(k).ev, res |-> ln(k).res]
  /\ Judge(k) /\ Conform(k)
TSpec == TInit /\ [][TNext]_<<l, vars>>
=============================================================================
