------------------------------- MODULE ETHPow -------------------------------
(***************************************************************************)
(* The difficulty rule of the Ethereum client on a proof-of-work chain     *)
(* (light-clients/eth/types/header.go verifyHeader, verify_header.go       *)
(* makeDifficultyCalculator; chain id other than Rinkeby).  A valid seal   *)
(* cannot be produced here, so no header is ever accepted; what IS         *)
(* observable is the stage at which a header is refused: a header that     *)
(* abides by the timestamp, gas-limit and base-fee rules is refused at the *)
(* difficulty stage exactly when its difficulty is not the value the       *)
(* (Byzantium, EIP-100) formula gives for its parent and its time, and at  *)
(* the seal stage otherwise.  The input space is partitioned into classes; *)
(* TLC enumerates the product and every case is one real client and one    *)
(* real MsgUpdateClient.                                                   *)
(***************************************************************************)
EXTENDS TLC, Json, Sequences
VARIABLE c
Cases0 == [parentUncles : BOOLEAN,                     \* the parent header includes uncles (EIP-100: factor 2 instead of 1)
          childUncles : BOOLEAN,                      \* the header itself includes uncles (irrelevant to its own difficulty)
          dt : {"1s", "9s", "18s", "1000s"},         \* seconds after the parent: (2|1) - dt/9, floored at -99
          parentDiff : {"minimum", "large"},          \* 131072 (results are floored there) or 2^40
          chain : {"main", "private"},                \* the client's chain id: 1, or 1337 (any chain id but Rinkeby's is a proof-of-work chain)
          claim : {"right", "otheruncle", "plus1", "parent"}]   \* the difficulty the header carries: the formula's value, the value for the
                                                      \* other uncle flag, the value plus one, the parent's difficulty
(* under chain id 1 the whole product, under chain id 1337 one time step and one parent difficulty *)
Cases == {x \in Cases0 : x.chain = "main" \/ (x.dt = "9s" /\ x.parentDiff = "large")}
(* genuinely sealed main-net headers (the repository's test data): the child of the header the client was created with is *)
(* accepted as it is, and refused when its seal or its difficulty is touched                                             *)
RealCases == [fam : {"real"}, chain : {"main"}, mut : {"none", "nonce", "mixdigest", "difficulty", "second"}]   \* "second": the second child after the first
             \cup [fam : {"real"}, chain : {"ropsten", "private"}, mut : {"none", "nonce"}]                    \* the same headers under chain ids 3 and 1337
(* the stage at which the header is refused; "same" marks cases in which the perturbed value happens to equal the right one *)
Stage(x, same) == IF x.claim = "right" \/ same THEN "seal" ELSE "difficulty"
Init == c \in Cases \cup RealCases
Next == UNCHANGED c
Spec == Init /\ [][Next]_c
Emit == PrintT(<<"MBT", ToJson(<< [act |-> "Pow"] @@ c >>)>>)
=============================================================================
