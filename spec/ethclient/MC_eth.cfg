SPECIFICATION Spec
CONSTANTS
  Universe <- MCUniverse
  Parent <- MCParent
  Height <- MCHeight
  Root <- MCRoot
  Valid <- MCValid
  FixRestrict = TRUE
INVARIANTS AcceptedHasStoredParent NeverWedged AncestryRoots
PROPERTIES HeadIsLast RejectChangesNothing OnlyRuleAbiding
VIEW stateVars
CHECK_DEADLOCK FALSE
