SPECIFICATION Spec
CONSTANTS
  Vouchers = {"va", "vb"}
  AmtClasses = {"1", "2", "zero", "garbage", "neg"}
  RecvClasses = {"user", "invalid", "blocked", "hexsender"}
  NatMax = 1
  BackDenoms = {"va"}
  HookReturnsAck = TRUE
INVARIANTS AckAlwaysCommitted SuccessAcked Backed NonNegative
PROPERTIES SettledOnce RefundExact
CONSTRAINT BoundSmall
CHECK_DEADLOCK FALSE
