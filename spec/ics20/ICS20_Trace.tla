---------------------------- MODULE ICS20_Trace ----------------------------
EXTENDS Integers, Sequences, TLC, Json, IOUtils
CONSTANTS Vouchers, BackDenoms, HookReturnsAck
Trace == ndJsonDeserialize(IOEnv.TRACE_FILE)
VARIABLES l, enabled, vbal, esc, sup, tok, registered, pairon, ext, xreg, xbad, mx, out, nesc, xdead, last,
          nbal,   \* the receiver's balance of this chain's own coin (units)
          gOn, gPair   \* ground truth kept by the trace: what governance set the module switch to, and the per-pair switch as its proposals left it
AmtClasses == {}
RecvClasses == {}
NatMax == 0
INSTANCE ICS20
ln(k) == Trace[k]
TInit == l = 0 /\ enabled = TRUE /\ vbal = <<>> /\ esc = <<>> /\ sup = <<>> /\ tok = <<>> /\ registered = <<>> /\ pairon = <<>> /\ ext = <<>> /\ xreg = FALSE /\ xbad = FALSE /\ mx = 0 /\ out = <<>> /\ nesc = 0 /\ xdead = FALSE /\ nbal = 0 /\ gOn = TRUE /\ gPair = [d \in Vouchers |-> FALSE] /\ last = [act |-> "None", res |-> "ok"]
Report(k, name, holds) == holds \/ PrintT(<<"VIOL", k, name>>)
IsStep(k) == ln(k).ev # "Reset"
A(k) == ln(k).args
D(k) == A(k).denom
N(k) == Val(A(k).amt)
Judge(k) ==
  IsStep(k) =>
  /\ Report(k, "C16.AckCommitted", ln(k).ev = "Recv" => ln(k).ack.stored # "none")
  /\ Report(k, "C16.AckPreserved", ln(k).ev = "Recv" => ln(k).ack.same)
  /\ Report(k, "C16.SuccessAcked", (ln(k).ev = "Recv" /\ ln(k).wrapped_success) => (ln(k).ack.stored = ln(k).ack.wrapped))
  (* conversion completes in full or leaves the received vouchers with the receiver *)
  /\ Report(k, "C16.ConversionAtomic", (ln(k).ev = "Recv" /\ ln(k).wrapped_success) =>
        \/ (vbal'[D(k)] = vbal[D(k)] + N(k) /\ tok'[D(k)] = tok[D(k)] /\ esc'[D(k)] = esc[D(k)])
        \/ (vbal'[D(k)] = vbal[D(k)] /\ tok'[D(k)] = tok[D(k)] + N(k) /\ esc'[D(k)] = esc[D(k)] + N(k))
        (* pair of an external token: the vouchers are burnt, the tokens come out of the module's holdings *)
        \/ (ext[D(k)] /\ vbal'[D(k)] = vbal[D(k)] /\ tok'[D(k)] = tok[D(k)] + N(k) /\ esc'[D(k)] = esc[D(k)] /\ sup'[D(k)] = sup[D(k)] /\ mx' = mx - N(k)))
  (* C11 on the IBC call path: no conversion while governance has the module or the pair switched off (or no pair exists) *)
  /\ Report(k, "C11.HookHonoursSwitches", (ln(k).ev = "Recv" /\ ~(gOn /\ gPair[D(k)])) => (tok'[D(k)] = tok[D(k)] /\ esc'[D(k)] = esc[D(k)]))
  (* ... and the conversion it runs for the receiver is exact and backed, or changes nothing (C11's either/or on this call path) *)
  /\ Report(k, "C11.HookConvertsExactlyOrNothing", ln(k).ev = "Recv" =>
        \/ (tok'[D(k)] = tok[D(k)] /\ esc'[D(k)] = esc[D(k)] /\ (vbal'[D(k)] = vbal[D(k)] \/ vbal'[D(k)] = vbal[D(k)] + N(k)))
        \/ (vbal'[D(k)] = vbal[D(k)] /\ tok'[D(k)] = tok[D(k)] + N(k) /\ esc'[D(k)] = esc[D(k)] + N(k))
        \/ (ext[D(k)] /\ vbal'[D(k)] = vbal[D(k)] /\ tok'[D(k)] = tok[D(k)] + N(k) /\ esc'[D(k)] = esc[D(k)] /\ sup'[D(k)] = sup[D(k)] /\ mx' = mx - N(k)))
  /\ Report(k, "C16.FailedTransferNoEffect", (ln(k).ev = "Recv" /\ ~ln(k).wrapped_success) => UNCHANGED <<vbal, esc, sup, tok>>)
  /\ Report(k, "C16.OtherDenomsUntouched", ln(k).ev = "Recv" => \A d \in Vouchers \ {D(k)} : vbal'[d] = vbal[d] /\ esc'[d] = esc[d] /\ (tok'[d] = tok[d] \/ (ext'[d] /\ ext'[D(k)])))   \* vouchers of one external pair share its token
  (* the outbound direction through the middleware: the transfer application's outcome is the outcome *)
  /\ Report(k, "C16.SendBackBurnsExactly", ln(k).ev = "SendBack" =>
        IF ln(k).res = "ok" THEN vbal'[D(k)] = vbal[D(k)] - N(k) /\ sup'[D(k)] = sup[D(k)] - N(k) /\ ln(k).st[D(k)].committed
                                 /\ \A d \in Vouchers \ {D(k)} : vbal'[d] = vbal[d] /\ sup'[d] = sup[d]
        ELSE UNCHANGED <<vbal, sup, esc, tok>>)
  /\ Report(k, "C16.SettleIsTransferOutcome", (ln(k).ev = "Settle" /\ ln(k).res = "ok") =>
        /\ ~ln(k).st[D(k)].committed
        /\ IF A(k).outcome = "success" THEN UNCHANGED <<vbal, sup>>
           ELSE vbal' = [vbal EXCEPT ![D(k)] = @ + out[D(k)]] /\ sup' = [sup EXCEPT ![D(k)] = @ + out[D(k)]]
        /\ UNCHANGED <<esc, tok>>)
  (* returning native coins: the transfer application's acknowledgement is the one committed; a successful receive releases exactly *)
  (* the amount from the escrow to the receiver; a refused one moves nothing; no voucher, token or pair is touched either way        *)
  /\ Report(k, "C16.NatAckPreserved", ln(k).ev = "RecvNat" => (ln(k).ack.stored # "none" /\ ln(k).ack.same))
  /\ Report(k, "C16.NatSuccessAcked", (ln(k).ev = "RecvNat" /\ ln(k).wrapped_success) => ln(k).ack.stored = ln(k).ack.wrapped)
  /\ Report(k, "C16.NatReleasedExactly", ln(k).ev = "RecvNat" =>
        /\ UNCHANGED <<vbal, esc, sup, tok>>
        /\ IF ln(k).wrapped_success THEN nesc' = nesc - N(k) /\ nbal' = nbal + N(k) ELSE nesc' = nesc /\ nbal' = nbal)
  /\ Report(k, "C16.SettledAtMostOnce", (ln(k).ev = "Settle" /\ ln(k).res = "ok") => (out[D(k)] > 0 /\ ~ln(k).again))
  /\ Report(k, "C16.FailedSettleNoEffect", (ln(k).ev = "Settle" /\ ln(k).res # "ok") => UNCHANGED <<vbal, sup, esc, tok>>)
C_Step(k) ==
  CASE ln(k).ev = "Recv" -> /\ RecvEff(D(k), A(k).amt, A(k).recv)
                            /\ ln(k).wrapped_success = TransferOK(A(k).amt, A(k).recv)
                            /\ (ln(k).ack.stored = "none") = (Committed(A(k).amt, A(k).recv) = "none")
    [] ln(k).ev = "Register" -> RegisterEff(D(k)) /\ (ln(k).res = "ok") = RegisterOK(D(k))
    [] ln(k).ev = "Toggle" -> ToggleEff(D(k)) /\ (ln(k).res = "ok") = ToggleOK(D(k))
    [] ln(k).ev = "Param" -> ParamEff(A(k).on)
    [] ln(k).ev = "RegisterExt" -> RegisterExtEff(A(k).bad) /\ (ln(k).res = "ok") = RegisterExtOK
    [] ln(k).ev = "AddExt" -> AddExtEff(D(k)) /\ (ln(k).res = "ok") = AddExtOK(D(k))
    [] ln(k).ev = "Fund" -> FundEff(A(k).n)
    [] ln(k).ev = "SendBack" -> SendBackEff(D(k), A(k).amt) /\ (ln(k).res = "ok") = SendBackOK(D(k), A(k).amt)
    [] ln(k).ev = "DestroyExt" -> DestroyExtEff
    [] ln(k).ev = "SendNat" -> SendNatEff(A(k).amt) /\ (ln(k).res = "ok") = SendNatOK(A(k).amt)
    [] ln(k).ev = "RecvNat" -> RecvNatEff(A(k).amt, A(k).recv) /\ ln(k).wrapped_success = NatTransferOK(A(k).amt, A(k).recv)
    [] ln(k).ev = "Settle" -> SettleEff(D(k), A(k).outcome) /\ (ln(k).res = "ok") = SettleOK(D(k))
    [] OTHER -> FALSE
Conform(k) == IsStep(k) => (C_Step(k) \/ PrintT(<<"DRIFT", k, ln(k).ev>>))
F(k, f) == [d \in Vouchers |-> ln(k).st[d][f]]
TNext == LET k == l + 1 IN
  /\ l < Len(Trace) /\ l' = k
  /\ enabled' = ln(k).st.enabled /\ vbal' = F(k, "vbal") /\ esc' = F(k, "esc") /\ sup' = F(k, "sup") /\ tok' = F(k, "tok")
  /\ registered' = F(k, "registered") /\ pairon' = F(k, "pairon") /\ ext' = F(k, "ext") /\ xreg' = ln(k).st.xreg /\ xbad' = ln(k).st.xbad /\ mx' = ln(k).st.mx /\ out' = F(k, "out") /\ nesc' = ln(k).st.nesc /\ nbal' = ln(k).st.nbal
  /\ xdead' = IF ln(k).ev = "Reset" THEN FALSE ELSE IF ln(k).ev = "DestroyExt" THEN TRUE ELSE xdead      \* what the replay did to the contract
  /\ last' = [act |-> ln(k).ev, res |-> ln(k).res]
  /\ gOn' = IF ln(k).ev = "Reset" THEN TRUE ELSE IF ln(k).ev = "Param" /\ ln(k).res = "ok" THEN ln(k).args.on ELSE gOn
  /\ gPair' = IF ln(k).ev = "Reset" THEN [d \in Vouchers |-> FALSE]
              ELSE IF ln(k).ev \in {"Register", "AddExt"} /\ ln(k).res = "ok" THEN [gPair EXCEPT ![ln(k).args.denom] = TRUE]
              ELSE IF ln(k).ev = "Toggle" /\ ln(k).res = "ok" THEN [gPair EXCEPT ![ln(k).args.denom] = ~@]
              ELSE gPair
  /\ Judge(k) /\ Conform(k)
TSpec == TInit /\ [][TNext]_<<l, vars, nbal, gOn, gPair>>
=============================================================================
