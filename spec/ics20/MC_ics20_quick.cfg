SPECIFICATION Spec
CONSTANTS
  Vouchers = {"va", "vb"}
  AmtClasses = {"1", "2", "garbage"}
  RecvClasses = {"user", "blocked"}
  NatMax = 1
  BackDenoms = {"va"}
  HookReturnsAck = TRUE
INVARIANTS AckAlwaysCommitted SuccessAcked Backed NonNegative
PROPERTIES SettledOnce RefundExact
CONSTRAINT BoundSmall
CHECK_DEADLOCK FALSE
