SPECIFICATION Spec
CONSTANTS
  Vouchers = {"va", "vb"}
  AmtClasses = {"1", "2", "zero", "garbage", "neg"}
  RecvClasses = {"user", "invalid", "blocked"}
  HookReturnsAck = TRUE
INVARIANTS AckAlwaysCommitted SuccessAcked Backed
CONSTRAINT BoundSmall
CHECK_DEADLOCK FALSE
