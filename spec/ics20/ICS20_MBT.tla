----------------------------- MODULE ICS20_MBT -----------------------------
EXTENDS ICS20, Json, Sequences
CONSTANTS Depth
VARIABLE hist
Pick(S) == RandomElement(S)
MInit == Init /\ hist = <<>>
MNext ==
  /\ Len(hist) < Depth
  /\ \E w \in {Pick(1..19)}, d \in {Pick(Vouchers)}, a \in {IF Pick(1..3) = 1 THEN Pick(AmtClasses) ELSE Pick({"1", "2"})},
        r \in {IF Pick(1..4) = 1 THEN Pick(RecvClasses) ELSE "user"} :
       \/ w <= 5 /\ RecvEff(d, a, r) /\ last' = [act |-> "Recv", res |-> "ok", denom |-> d, amt |-> a, recv |-> r, committed |-> Committed(a, r)]
       \/ w \in {6, 7} /\ RegisterEff(d) /\ last' = [act |-> "Register", res |-> Res(RegisterOK(d)), denom |-> d]
       \/ w = 8 /\ ToggleEff(d) /\ last' = [act |-> "Toggle", res |-> Res(ToggleOK(d)), denom |-> d]
       \/ w \in {9, 10} /\ \E on \in {IF enabled THEN Pick(1..2) = 1 ELSE TRUE} : ParamEff(on) /\ last' = [act |-> "Param", res |-> "ok", on |-> on]
       \/ w = 11 /\ \E bad \in {Pick(1..3) = 1} : RegisterExtEff(bad) /\ last' = [act |-> "RegisterExt", res |-> Res(RegisterExtOK), bad |-> bad]
       \/ w \in {12, 13} /\ (\A e \in Vouchers : ~ext[e]) /\ AddExtEff(d) /\ last' = [act |-> "AddExt", res |-> Res(AddExtOK(d)), denom |-> d]
       \/ w = 14 /\ IF Pick(1..2) = 1
                     THEN (IF nesc = 0 \/ (nesc < 2 /\ Pick(1..3) = 1)
                           THEN \E na \in {Pick({"1", "2"})} : nesc + Val(na) <= 2 /\ SendNatEff(na) /\ last' = [act |-> "SendNat", res |-> Res(SendNatOK(na)), amt |-> na]
                           ELSE RecvNatEff(a, r) /\ last' = [act |-> "RecvNat", res |-> "ok", amt |-> a, recv |-> r, committed |-> (IF NatTransferOK(a, r) THEN "success" ELSE "error")])
                     ELSE \E n \in {Pick({1, 2})} : mx + n <= 3 /\ FundEff(n) /\ last' = [act |-> "Fund", res |-> "ok", n |-> n]
       \/ w \in {15, 16} /\ d \in BackDenoms /\ SendBackEff(d, a) /\ last' = [act |-> "SendBack", res |-> Res(SendBackOK(d, a)), denom |-> d, amt |-> a]
       \/ w \in {17, 18, 19} /\ \E e \in {IF \E x \in BackDenoms : out[x] > 0 THEN Pick({x \in BackDenoms : out[x] > 0}) ELSE d}, o \in {Pick(Outcomes)} :
             e \in BackDenoms /\ SettleEff(e, o) /\ last' = [act |-> "Settle", res |-> Res(SettleOK(e)), denom |-> e, outcome |-> o]
  /\ hist' = Append(hist, last')
MSpec == MInit /\ [][MNext]_<<vars, hist>>
Emit == Len(hist) = Depth => PrintT(<<"MBT", ToJson(hist)>>)
=============================================================================
