SPECIFICATION TSpec
CONSTANTS
  Vouchers = {"va", "vb", "vc"}
  BackDenoms = {"va", "vb", "vc"}
  HookReturnsAck = TRUE
CHECK_DEADLOCK FALSE
