SPECIFICATION TSpec
CONSTANTS
  Vouchers = {"va", "vb", "vc"}
  HookReturnsAck = TRUE
CHECK_DEADLOCK FALSE
