SPECIFICATION TSpec
CONSTANTS
  Vouchers = {"va", "vb"}
  HookReturnsAck = TRUE
CHECK_DEADLOCK FALSE
