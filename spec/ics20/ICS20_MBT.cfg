SPECIFICATION MSpec
CONSTANTS
  Vouchers = {"va", "vb", "vc"}
  AmtClasses = {"1", "2", "zero", "garbage", "neg"}
  RecvClasses = {"user", "invalid", "blocked"}
  HookReturnsAck = TRUE
  Depth = 10
INVARIANTS Emit
CHECK_DEADLOCK FALSE
