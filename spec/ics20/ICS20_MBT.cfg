SPECIFICATION MSpec
CONSTANTS
  Vouchers = {"va", "vb", "vc"}
  AmtClasses = {"1", "2", "zero", "garbage", "neg"}
  RecvClasses = {"user", "invalid", "blocked", "hexsender"}
  NatMax = 2
  BackDenoms = {"va", "vb", "vc"}
  HookReturnsAck = TRUE
  Depth = 10
INVARIANTS Emit
CHECK_DEADLOCK FALSE
