SPECIFICATION Spec
CONSTANTS
  Vouchers = {"va", "vb"}
  AmtClasses = {"1", "2", "zero", "garbage", "neg"}
  RecvClasses = {"user", "invalid", "blocked"}
  HookReturnsAck = FALSE
INVARIANTS AckAlwaysCommitted SuccessAcked Backed
CONSTRAINT Bound
CHECK_DEADLOCK FALSE
