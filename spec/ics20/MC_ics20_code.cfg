SPECIFICATION Spec
CONSTANTS
  Vouchers = {"va", "vb"}
  AmtClasses = {"1", "2", "zero", "garbage", "neg"}
  RecvClasses = {"user", "invalid", "blocked"}
  NatMax = 2
  BackDenoms = {"va"}
  HookReturnsAck = FALSE
INVARIANTS AckAlwaysCommitted SuccessAcked Backed NonNegative
PROPERTIES SettledOnce RefundExact
CONSTRAINT Bound
CHECK_DEADLOCK FALSE
