------------------------------- MODULE ICS20 -------------------------------
(***************************************************************************)
(* The aggregate middleware around the ICS-20 transfer application         *)
(* (x/aggregate/ibc_middleware.go, keeper/ibc_hook.go, app.go wiring).     *)
(* Recv = MsgRecvPacket on the receiving chain: the wrapped transfer       *)
(* application mints vouchers and returns its acknowledgement; the hook    *)
(* then converts the vouchers to ERC-20 tokens when the voucher is a       *)
(* registered, enabled pair, in a cache context of its own; the IBC core   *)
(* commits whatever acknowledgement the middleware returns.                *)
(***************************************************************************)
EXTENDS Integers, TLC
CONSTANTS Vouchers, AmtClasses, RecvClasses, NatMax,
          BackDenoms,        \* the vouchers whose holder may send them back (a subset of Vouchers; bounds the model)
          HookReturnsAck     \* TRUE: the hook returns the transfer application's acknowledgement (repaired code)
VARIABLES enabled, vbal, esc, sup, tok, registered, pairon,
          ext,    \* ext[d]: the voucher was added (AddCoin) to the pair of the externally-owned ERC-20 X
          xreg,   \* X is registered (RegisterERC20)
          xbad,   \* the registered external token misbehaves on transfer (takes a cut): conversions into it never complete
          mx,     \* X tokens held by the module account (what it can pay out)
          xdead,  \* the external token contract destroyed itself (its pair is removed by the next conversion that meets it)
          nesc,   \* this chain's own coins escrowed on the channel to the first counterparty (sent out, not yet returned)
          out,    \* out[d]: vouchers of d sent back through the middleware and not yet settled (0: nothing outstanding)
          last
stateVars == <<enabled, vbal, esc, sup, tok, registered, pairon, ext, xreg, xbad, mx, out, nesc, xdead>>
vars == <<stateVars, last>>
Val(a) == CASE a = "1" -> 1 [] a = "2" -> 2 [] OTHER -> 0
Init == /\ enabled = TRUE /\ vbal = [d \in Vouchers |-> 0] /\ esc = vbal /\ sup = vbal /\ tok = vbal
        /\ registered = [d \in Vouchers |-> FALSE] /\ pairon = registered /\ ext = registered /\ xreg = FALSE /\ xbad = FALSE /\ mx = 0 /\ out = vbal /\ nesc = 0 /\ xdead = FALSE /\ last = [act |-> "Init", res |-> "ok"]
(* the transfer application's verdict *)
(* (receiver class "hexsender": the receiver is the user, the packet's sender field is not a bech32 string - an EVM hex address of the *)
(* counterparty; the transfer application only asks for a non-blank sender)                                                          *)
TransferOK(a, r) == a \in {"1", "2"} /\ r \in {"user", "hexsender"}
Converts(d) == enabled /\ registered[d] /\ pairon[d]
(* module-owned pair: vouchers escrowed, tokens minted.  Pair of the external token X: vouchers escrowed, X paid out *)
(* of the module's holdings, vouchers burnt - and when the module cannot pay, the whole conversion is undone.      *)
RecvEff(d, a, r) ==
  IF ~TransferOK(a, r) THEN UNCHANGED stateVars
  ELSE IF Converts(d) /\ ext[d] /\ xdead
  (* the pair of a destroyed contract is removed (with all its vouchers' entries) and nothing is converted: the vouchers stay *)
  THEN /\ sup' = [sup EXCEPT ![d] = @ + Val(a)] /\ vbal' = [vbal EXCEPT ![d] = @ + Val(a)]
       /\ registered' = [e \in Vouchers |-> registered[e] /\ ~ext[e]] /\ pairon' = [e \in Vouchers |-> pairon[e] /\ ~ext[e]]
       /\ ext' = [e \in Vouchers |-> FALSE] /\ xreg' = FALSE
       /\ tok' = [e \in Vouchers |-> IF ext[e] THEN 0 ELSE tok[e]]          \* tokens of a destroyed contract are gone with it
       /\ UNCHANGED <<enabled, esc, xbad, mx, out, nesc, xdead>>
  ELSE /\ IF Converts(d) /\ ~ext[d]
          THEN /\ sup' = [sup EXCEPT ![d] = @ + Val(a)] /\ esc' = [esc EXCEPT ![d] = @ + Val(a)]
               /\ tok' = [tok EXCEPT ![d] = @ + Val(a)] /\ UNCHANGED <<vbal, mx, nesc, xdead>>
          ELSE IF Converts(d) /\ ext[d] /\ mx >= Val(a) /\ ~xbad
          THEN /\ tok' = [tok EXCEPT ![d] = @ + Val(a)] /\ mx' = mx - Val(a) /\ UNCHANGED <<vbal, esc, sup, nesc, xdead>>
          ELSE /\ sup' = [sup EXCEPT ![d] = @ + Val(a)] /\ vbal' = [vbal EXCEPT ![d] = @ + Val(a)] /\ UNCHANGED <<esc, tok, mx, nesc, xdead>>
       /\ UNCHANGED <<enabled, registered, pairon, ext, xreg, xbad, out, nesc, xdead>>
(* what the IBC core commits: "success" | "error" | "none" *)
Committed(a, r) == IF ~TransferOK(a, r) THEN "error" ELSE IF HookReturnsAck THEN "success" ELSE "none"
RegisterOK(d) == enabled /\ ~registered[d] /\ sup[d] > 0
RegisterEff(d) == IF RegisterOK(d) THEN registered' = [registered EXCEPT ![d] = TRUE] /\ pairon' = [pairon EXCEPT ![d] = TRUE]
                                        /\ UNCHANGED <<enabled, vbal, esc, sup, tok, ext, xreg, xbad, mx, out, nesc, xdead>>
                  ELSE UNCHANGED stateVars
(* RegisterERC20 of X; AddCoin of a voucher to X's pair (at most one voucher, so that X balances belong to it) *)
RegisterExtOK == enabled /\ ~xreg
RegisterExtEff(bad) == IF RegisterExtOK THEN xreg' = TRUE /\ xbad' = bad /\ UNCHANGED <<enabled, vbal, esc, sup, tok, registered, pairon, ext, mx, out, nesc, xdead>> ELSE UNCHANGED stateVars
AddExtOK(d) == enabled /\ xreg /\ ~registered[d] /\ sup[d] > 0 /\ \A e \in Vouchers : ~ext[e]
AddExtEff(d) == IF AddExtOK(d) THEN /\ registered' = [registered EXCEPT ![d] = TRUE] /\ pairon' = [pairon EXCEPT ![d] = TRUE]
                                    /\ ext' = [ext EXCEPT ![d] = TRUE] /\ UNCHANGED <<enabled, vbal, esc, sup, tok, xreg, xbad, mx, out, nesc, xdead>>
                ELSE UNCHANGED stateVars
(* a misbehaving token also takes its cut of what is handed to the module: somewhere between nothing and n arrives *)
FundEff(n) == (IF xbad THEN \E g \in 0..n : mx' = mx + g ELSE mx' = mx + n) /\ UNCHANGED <<enabled, vbal, esc, sup, tok, registered, pairon, ext, xreg, xbad, out, nesc, xdead>>
ToggleOK(d) == registered[d]
ToggleEff(d) == IF ToggleOK(d) THEN pairon' = [pairon EXCEPT ![d] = ~@] /\ UNCHANGED <<enabled, vbal, esc, sup, tok, registered, ext, xreg, xbad, mx, out, nesc, xdead>> ELSE UNCHANGED stateVars
ParamEff(on) == enabled' = on /\ UNCHANGED <<vbal, esc, sup, tok, registered, pairon, ext, xreg, xbad, mx, out, nesc, xdead>>
(* The outbound direction: the holder sends vouchers back to where they came from.  The transfer application burns    *)
(* them and commits a packet (through the middleware's SendPacket); the packet is settled exactly once, by an         *)
(* acknowledgement or a timeout (through the middleware's OnAcknowledgementPacket / OnTimeoutPacket): a success       *)
(* acknowledgement changes nothing more, an error acknowledgement or a timeout mints the vouchers back to the sender. *)
SendBackOK(d, a) == d \in BackDenoms /\ a \in {"1", "2"} /\ vbal[d] >= Val(a) /\ out[d] = 0
SendBackEff(d, a) == IF SendBackOK(d, a)
                     THEN /\ vbal' = [vbal EXCEPT ![d] = @ - Val(a)] /\ sup' = [sup EXCEPT ![d] = @ - Val(a)] /\ out' = [out EXCEPT ![d] = Val(a)]
                          /\ UNCHANGED <<enabled, esc, tok, registered, pairon, ext, xreg, xbad, mx, nesc, xdead>>
                     ELSE UNCHANGED stateVars
Outcomes == {"success", "error", "timeout"}
SettleOK(d) == out[d] > 0
SettleEff(d, o) == IF SettleOK(d)
                   THEN /\ out' = [out EXCEPT ![d] = 0]
                        /\ IF o = "success" THEN UNCHANGED <<vbal, sup, nesc, xdead>>
                           ELSE vbal' = [vbal EXCEPT ![d] = @ + out[d]] /\ sup' = [sup EXCEPT ![d] = @ + out[d]]
                        /\ UNCHANGED <<enabled, esc, tok, registered, pairon, ext, xreg, xbad, mx, nesc, xdead>>
                   ELSE UNCHANGED stateVars
(* This chain's own coins: the holder sends some to the first counterparty (escrowed here), and they come back in packets *)
(* whose denomination carries the counterparty's port and channel - "returning native coins".  The transfer application    *)
(* releases them from the escrow (it refuses a packet asking for more than is escrowed); the middleware has nothing to     *)
(* convert and must leave the acknowledgement alone.                                                                       *)
SendNatOK(a) == a \in {"1", "2"}
SendNatEff(a) == IF SendNatOK(a) THEN nesc' = nesc + Val(a) /\ UNCHANGED <<enabled, vbal, esc, sup, tok, registered, pairon, ext, xreg, xbad, mx, out, xdead>> ELSE UNCHANGED stateVars
NatTransferOK(a, r) == a \in {"1", "2"} /\ r \in {"user", "hexsender"} /\ nesc >= Val(a)
RecvNatEff(a, r) == IF NatTransferOK(a, r) THEN nesc' = nesc - Val(a) /\ UNCHANGED <<enabled, vbal, esc, sup, tok, registered, pairon, ext, xreg, xbad, mx, out, xdead>> ELSE UNCHANGED stateVars
(* the external token contract destroys itself *)
DestroyExtEff == /\ xdead' = TRUE /\ mx' = 0 /\ tok' = [e \in Vouchers |-> IF ext[e] THEN 0 ELSE tok[e]]    \* its balances are gone with it
                 /\ UNCHANGED <<enabled, vbal, esc, sup, registered, pairon, ext, xreg, xbad, out, nesc>>
Res(ok) == IF ok THEN "ok" ELSE "err"
Next ==
  \/ xreg /\ ~xdead /\ DestroyExtEff /\ last' = [act |-> "DestroyExt", res |-> "ok"]
  \/ \E a \in AmtClasses : nesc + Val(a) <= NatMax /\ SendNatEff(a) /\ last' = [act |-> "SendNat", res |-> Res(SendNatOK(a)), amt |-> a]
  \/ \E a \in AmtClasses, r \in RecvClasses : RecvNatEff(a, r) /\ last' = [act |-> "RecvNat", res |-> "ok", amt |-> a, recv |-> r, committed |-> (IF NatTransferOK(a, r) THEN "success" ELSE "error")]
  \/ \E d \in Vouchers, a \in AmtClasses, r \in RecvClasses :
        RecvEff(d, a, r) /\ last' = [act |-> "Recv", res |-> "ok", denom |-> d, amt |-> a, recv |-> r, committed |-> Committed(a, r)]
  \/ \E d \in Vouchers : RegisterEff(d) /\ last' = [act |-> "Register", res |-> Res(RegisterOK(d)), denom |-> d]
  \/ \E d \in Vouchers : ToggleEff(d) /\ last' = [act |-> "Toggle", res |-> Res(ToggleOK(d)), denom |-> d]
  \/ \E on \in BOOLEAN : on # enabled /\ ParamEff(on) /\ last' = [act |-> "Param", res |-> "ok", on |-> on]
  \/ \E bad \in BOOLEAN : RegisterExtEff(bad) /\ last' = [act |-> "RegisterExt", res |-> Res(RegisterExtOK), bad |-> bad]
  \/ \E d \in Vouchers : AddExtEff(d) /\ last' = [act |-> "AddExt", res |-> Res(AddExtOK(d)), denom |-> d]
  \/ \E n \in {1, 2} : mx + n <= 3 /\ FundEff(n) /\ last' = [act |-> "Fund", res |-> "ok", n |-> n]
  \/ \E d \in BackDenoms, a \in AmtClasses : SendBackEff(d, a) /\ last' = [act |-> "SendBack", res |-> Res(SendBackOK(d, a)), denom |-> d, amt |-> a]
  \/ \E d \in BackDenoms, o \in Outcomes : SettleEff(d, o) /\ last' = [act |-> "Settle", res |-> Res(SettleOK(d)), denom |-> d, outcome |-> o]
Spec == Init /\ [][Next]_vars
(* C16 *)
AckAlwaysCommitted == last.act = "Recv" => last.committed # "none"
SuccessAcked == (last.act = "Recv" /\ TransferOK(last.amt, last.recv)) => last.committed = "success"
Backed == \A d \in Vouchers : (~ext[d] => tok[d] = esc[d]) /\ (ext[d] => esc[d] = 0) /\ vbal[d] + esc[d] = sup[d]
(* what came in over the channel is on this chain, on its way back, or was delivered back: nothing is lost or doubled *)
NonNegative == \A d \in Vouchers : vbal[d] >= 0 /\ sup[d] >= 0 /\ out[d] >= 0
SettledOnce == [][\A d \in Vouchers : (last'.act = "Settle" /\ last'.res = "ok" /\ last'.denom = d) => (out[d] > 0 /\ out'[d] = 0)]_vars
RefundExact == [][\A d \in Vouchers : (last'.act = "Settle" /\ last'.res = "ok" /\ last'.denom = d) =>
                     (vbal'[d] + sup[d] = vbal[d] + sup'[d] /\ vbal'[d] - vbal[d] = (IF last'.outcome = "success" THEN 0 ELSE out[d]))]_vars
Bound == \A d \in Vouchers : sup[d] <= 3 /\ tok[d] <= 3
BoundSmall == \A d \in Vouchers : sup[d] <= 2 /\ tok[d] <= 2 /\ mx <= 2
=============================================================================
