------------------------------- MODULE ICS20 -------------------------------
(***************************************************************************)
(* The aggregate middleware around the ICS-20 transfer application         *)
(* (x/aggregate/ibc_middleware.go, keeper/ibc_hook.go, app.go wiring).     *)
(* Recv = MsgRecvPacket on the receiving chain: the wrapped transfer       *)
(* application mints vouchers and returns its acknowledgement; the hook    *)
(* then converts the vouchers to ERC-20 tokens when the voucher is a       *)
(* registered, enabled pair, in a cache context of its own; the IBC core   *)
(* commits whatever acknowledgement the middleware returns.                *)
(***************************************************************************)
EXTENDS Integers, TLC
CONSTANTS Vouchers, AmtClasses, RecvClasses,
          HookReturnsAck     \* TRUE: the hook returns the transfer application's acknowledgement (repaired code)
VARIABLES enabled, vbal, esc, sup, tok, registered, pairon,
          ext,    \* ext[d]: the voucher was added (AddCoin) to the pair of the externally-owned ERC-20 X
          xreg,   \* X is registered (RegisterERC20)
          xbad,   \* the registered external token misbehaves on transfer (takes a cut): conversions into it never complete
          mx,     \* X tokens held by the module account (what it can pay out)
          last
stateVars == <<enabled, vbal, esc, sup, tok, registered, pairon, ext, xreg, xbad, mx>>
vars == <<stateVars, last>>
Val(a) == CASE a = "1" -> 1 [] a = "2" -> 2 [] OTHER -> 0
Init == /\ enabled = TRUE /\ vbal = [d \in Vouchers |-> 0] /\ esc = vbal /\ sup = vbal /\ tok = vbal
        /\ registered = [d \in Vouchers |-> FALSE] /\ pairon = registered /\ ext = registered /\ xreg = FALSE /\ xbad = FALSE /\ mx = 0 /\ last = [act |-> "Init", res |-> "ok"]
(* the transfer application's verdict *)
TransferOK(a, r) == a \in {"1", "2"} /\ r = "user"
Converts(d) == enabled /\ registered[d] /\ pairon[d]
(* module-owned pair: vouchers escrowed, tokens minted.  Pair of the external token X: vouchers escrowed, X paid out *)
(* of the module's holdings, vouchers burnt - and when the module cannot pay, the whole conversion is undone.      *)
RecvEff(d, a, r) ==
  IF ~TransferOK(a, r) THEN UNCHANGED stateVars
  ELSE /\ IF Converts(d) /\ ~ext[d]
          THEN /\ sup' = [sup EXCEPT ![d] = @ + Val(a)] /\ esc' = [esc EXCEPT ![d] = @ + Val(a)]
               /\ tok' = [tok EXCEPT ![d] = @ + Val(a)] /\ UNCHANGED <<vbal, mx>>
          ELSE IF Converts(d) /\ ext[d] /\ mx >= Val(a) /\ ~xbad
          THEN /\ tok' = [tok EXCEPT ![d] = @ + Val(a)] /\ mx' = mx - Val(a) /\ UNCHANGED <<vbal, esc, sup>>
          ELSE /\ sup' = [sup EXCEPT ![d] = @ + Val(a)] /\ vbal' = [vbal EXCEPT ![d] = @ + Val(a)] /\ UNCHANGED <<esc, tok, mx>>
       /\ UNCHANGED <<enabled, registered, pairon, ext, xreg, xbad>>
(* what the IBC core commits: "success" | "error" | "none" *)
Committed(a, r) == IF ~TransferOK(a, r) THEN "error" ELSE IF HookReturnsAck THEN "success" ELSE "none"
RegisterOK(d) == enabled /\ ~registered[d] /\ sup[d] > 0
RegisterEff(d) == IF RegisterOK(d) THEN registered' = [registered EXCEPT ![d] = TRUE] /\ pairon' = [pairon EXCEPT ![d] = TRUE]
                                        /\ UNCHANGED <<enabled, vbal, esc, sup, tok, ext, xreg, xbad, mx>>
                  ELSE UNCHANGED stateVars
(* RegisterERC20 of X; AddCoin of a voucher to X's pair (at most one voucher, so that X balances belong to it) *)
RegisterExtOK == enabled /\ ~xreg
RegisterExtEff(bad) == IF RegisterExtOK THEN xreg' = TRUE /\ xbad' = bad /\ UNCHANGED <<enabled, vbal, esc, sup, tok, registered, pairon, ext, mx>> ELSE UNCHANGED stateVars
AddExtOK(d) == enabled /\ xreg /\ ~registered[d] /\ sup[d] > 0 /\ \A e \in Vouchers : ~ext[e]
AddExtEff(d) == IF AddExtOK(d) THEN /\ registered' = [registered EXCEPT ![d] = TRUE] /\ pairon' = [pairon EXCEPT ![d] = TRUE]
                                    /\ ext' = [ext EXCEPT ![d] = TRUE] /\ UNCHANGED <<enabled, vbal, esc, sup, tok, xreg, xbad, mx>>
                ELSE UNCHANGED stateVars
(* a misbehaving token also takes its cut of what is handed to the module: somewhere between nothing and n arrives *)
FundEff(n) == (IF xbad THEN \E g \in 0..n : mx' = mx + g ELSE mx' = mx + n) /\ UNCHANGED <<enabled, vbal, esc, sup, tok, registered, pairon, ext, xreg, xbad>>
ToggleOK(d) == registered[d]
ToggleEff(d) == IF ToggleOK(d) THEN pairon' = [pairon EXCEPT ![d] = ~@] /\ UNCHANGED <<enabled, vbal, esc, sup, tok, registered, ext, xreg, xbad, mx>> ELSE UNCHANGED stateVars
ParamEff(on) == enabled' = on /\ UNCHANGED <<vbal, esc, sup, tok, registered, pairon, ext, xreg, xbad, mx>>
Res(ok) == IF ok THEN "ok" ELSE "err"
Next ==
  \/ \E d \in Vouchers, a \in AmtClasses, r \in RecvClasses :
        RecvEff(d, a, r) /\ last' = [act |-> "Recv", res |-> "ok", denom |-> d, amt |-> a, recv |-> r, committed |-> Committed(a, r)]
  \/ \E d \in Vouchers : RegisterEff(d) /\ last' = [act |-> "Register", res |-> Res(RegisterOK(d)), denom |-> d]
  \/ \E d \in Vouchers : ToggleEff(d) /\ last' = [act |-> "Toggle", res |-> Res(ToggleOK(d)), denom |-> d]
  \/ \E on \in BOOLEAN : on # enabled /\ ParamEff(on) /\ last' = [act |-> "Param", res |-> "ok", on |-> on]
  \/ \E bad \in BOOLEAN : RegisterExtEff(bad) /\ last' = [act |-> "RegisterExt", res |-> Res(RegisterExtOK), bad |-> bad]
  \/ \E d \in Vouchers : AddExtEff(d) /\ last' = [act |-> "AddExt", res |-> Res(AddExtOK(d)), denom |-> d]
  \/ \E n \in {1, 2} : mx + n <= 3 /\ FundEff(n) /\ last' = [act |-> "Fund", res |-> "ok", n |-> n]
Spec == Init /\ [][Next]_vars
(* C16 *)
AckAlwaysCommitted == last.act = "Recv" => last.committed # "none"
SuccessAcked == (last.act = "Recv" /\ TransferOK(last.amt, last.recv)) => last.committed = "success"
Backed == \A d \in Vouchers : (~ext[d] => tok[d] = esc[d]) /\ (ext[d] => esc[d] = 0) /\ vbal[d] + esc[d] = sup[d]
Bound == \A d \in Vouchers : sup[d] <= 3 /\ tok[d] <= 3
BoundSmall == \A d \in Vouchers : sup[d] <= 2 /\ tok[d] <= 2 /\ mx <= 2
=============================================================================
