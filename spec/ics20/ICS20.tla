------------------------------- MODULE ICS20 -------------------------------
(***************************************************************************)
(* The aggregate middleware around the ICS-20 transfer application         *)
(* (x/aggregate/ibc_middleware.go, keeper/ibc_hook.go, app.go wiring).     *)
(* Recv = MsgRecvPacket on the receiving chain: the wrapped transfer       *)
(* application mints vouchers and returns its acknowledgement; the hook    *)
(* then converts the vouchers to ERC-20 tokens when the voucher is a       *)
(* registered, enabled pair, in a cache context of its own; the IBC core   *)
(* commits whatever acknowledgement the middleware returns.                *)
(***************************************************************************)
EXTENDS Integers, TLC
CONSTANTS Vouchers, AmtClasses, RecvClasses,
          HookReturnsAck     \* TRUE: the hook returns the transfer application's acknowledgement (repaired code)
VARIABLES enabled, vbal, esc, sup, tok, registered, pairon, last
stateVars == <<enabled, vbal, esc, sup, tok, registered, pairon>>
vars == <<stateVars, last>>
Val(a) == CASE a = "1" -> 1 [] a = "2" -> 2 [] OTHER -> 0
Init == /\ enabled = TRUE /\ vbal = [d \in Vouchers |-> 0] /\ esc = vbal /\ sup = vbal /\ tok = vbal
        /\ registered = [d \in Vouchers |-> FALSE] /\ pairon = registered /\ last = [act |-> "Init", res |-> "ok"]
(* the transfer application's verdict *)
TransferOK(a, r) == a \in {"1", "2"} /\ r = "user"
Converts(d) == enabled /\ registered[d] /\ pairon[d]
RecvEff(d, a, r) ==
  IF ~TransferOK(a, r) THEN UNCHANGED stateVars
  ELSE /\ sup' = [sup EXCEPT ![d] = @ + Val(a)]
       /\ IF Converts(d)
          THEN /\ esc' = [esc EXCEPT ![d] = @ + Val(a)] /\ tok' = [tok EXCEPT ![d] = @ + Val(a)] /\ UNCHANGED vbal
          ELSE /\ vbal' = [vbal EXCEPT ![d] = @ + Val(a)] /\ UNCHANGED <<esc, tok>>
       /\ UNCHANGED <<enabled, registered, pairon>>
(* what the IBC core commits: "success" | "error" | "none" *)
Committed(a, r) == IF ~TransferOK(a, r) THEN "error" ELSE IF HookReturnsAck THEN "success" ELSE "none"
RegisterOK(d) == enabled /\ ~registered[d] /\ sup[d] > 0
RegisterEff(d) == IF RegisterOK(d) THEN registered' = [registered EXCEPT ![d] = TRUE] /\ pairon' = [pairon EXCEPT ![d] = TRUE]
                                        /\ UNCHANGED <<enabled, vbal, esc, sup, tok>>
                  ELSE UNCHANGED stateVars
ToggleOK(d) == registered[d]
ToggleEff(d) == IF ToggleOK(d) THEN pairon' = [pairon EXCEPT ![d] = ~@] /\ UNCHANGED <<enabled, vbal, esc, sup, tok, registered>> ELSE UNCHANGED stateVars
ParamEff(on) == enabled' = on /\ UNCHANGED <<vbal, esc, sup, tok, registered, pairon>>
Res(ok) == IF ok THEN "ok" ELSE "err"
Next ==
  \/ \E d \in Vouchers, a \in AmtClasses, r \in RecvClasses :
        RecvEff(d, a, r) /\ last' = [act |-> "Recv", res |-> "ok", denom |-> d, amt |-> a, recv |-> r, committed |-> Committed(a, r)]
  \/ \E d \in Vouchers : RegisterEff(d) /\ last' = [act |-> "Register", res |-> Res(RegisterOK(d)), denom |-> d]
  \/ \E d \in Vouchers : ToggleEff(d) /\ last' = [act |-> "Toggle", res |-> Res(ToggleOK(d)), denom |-> d]
  \/ \E on \in BOOLEAN : on # enabled /\ ParamEff(on) /\ last' = [act |-> "Param", res |-> "ok", on |-> on]
Spec == Init /\ [][Next]_vars
(* C16 *)
AckAlwaysCommitted == last.act = "Recv" => last.committed # "none"
SuccessAcked == (last.act = "Recv" /\ TransferOK(last.amt, last.recv)) => last.committed = "success"
Backed == \A d \in Vouchers : tok[d] = esc[d] /\ vbal[d] + esc[d] = sup[d]
Bound == \A d \in Vouchers : sup[d] <= 4
=============================================================================
