SPECIFICATION Spec
CONSTANTS
  Clients = {"eth", "bsc"}
  Kinds = {"commit", "ack"}
  AccountCls = {"ok", "otheraccount", "otheraddr", "otherroot", "absent", "truncated", "padded", "wrongnonce", "wrongbalance", "wrongstorage", "forgedstorage", "wrongcode", "empty"}
  StorageCls = {"ok", "otherslot", "othervalue", "absentkey", "truncated", "padded", "zeroproofs", "twoproofs", "keymismatch", "suffixkey"}
  HeightCls = {"ok", "unknown", "abovehead", "abovestored", "withindelay", "delayinstalled"}
  PathCls = {"ok", "otherseq", "otherkind", "otherchain"}
  ValueCls = {"ordinary", "leadzero1", "leadzero3"}
INVARIANTS Emit OnlyAllRight
CHECK_DEADLOCK FALSE
