--------------------------- MODULE EVMProof_Trace ---------------------------
EXTENDS Integers, Sequences, TLC, Json, IOUtils
Trace == ndJsonDeserialize(IOEnv.TRACE_FILE)
VARIABLE l
ln(k) == Trace[k]
Accept(x) == x.account = "ok" /\ x.storage = "ok" /\ x.height = "ok" /\ x.path = "ok"
Report(k, name, holds) == holds \/ PrintT(<<"VIOL", k, name>>)
Judge(k) == ln(k).ev = "Verify" =>
  (* accepted exactly when the proof proves the configured contract's slot holds exactly the hash under the stored root at an eligible height *)
  /\ Report(k, "C08.AcceptedOnlyIfAllRight", ln(k).res = "ok" => Accept(ln(k).args))
  /\ Report(k, "C08.AllRightIsAccepted", Accept(ln(k).args) => ln(k).res = "ok")
  /\ Report(k, "C08.SlotDerivation", ln(k).slotok)
TInit == l = 0
TNext == l < Len(Trace) /\ l' = l + 1 /\ Judge(l + 1)
TSpec == TInit /\ [][TNext]_l
=============================================================================
