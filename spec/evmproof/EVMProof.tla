------------------------------ MODULE EVMProof ------------------------------
(***************************************************************************)
(* Packet / acknowledgement proofs for Ethereum and BSC counterparties     *)
(* (light-clients/{eth,bsc}/types/client_state.go VerifyPacketCommitment,  *)
(* VerifyPacketAcknowledgement, verifyMerkleProof, keys.go).  This is a    *)
(* pure function: the specification partitions the input space (each       *)
(* component of the proof is either right or carries one named mutation)   *)
(* and states the verdict: a proof is accepted exactly when every          *)
(* component is right.  TLC enumerates the full product; every case is one *)
(* test of the real verifier on real Merkle-Patricia tries.                *)
(***************************************************************************)
EXTENDS TLC, Json, Sequences
CONSTANTS Clients, Kinds, AccountCls, StorageCls, HeightCls, PathCls, ValueCls
VARIABLE c
Case == [client : Clients, kind : Kinds, account : AccountCls, storage : StorageCls, height : HeightCls, path : PathCls, value : ValueCls]
Accept(x) == x.account = "ok" /\ x.storage = "ok" /\ x.height = "ok" /\ x.path = "ok"
Init == c \in Case
Next == UNCHANGED c
Spec == Init /\ [][Next]_c
Emit == PrintT(<<"MBT", ToJson(<< [act |-> "Verify", accept |-> Accept(c)] @@ c >>)>>)
(* sanity of the partition: exactly the all-right case of each (client, kind, value) is accepted *)
OnlyAllRight == Accept(c) <=> (c.account = "ok" /\ c.storage = "ok" /\ c.height = "ok" /\ c.path = "ok")
=============================================================================
