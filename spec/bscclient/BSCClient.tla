----------------------------- MODULE BSCClient -----------------------------
(***************************************************************************)
(* The BSC (Parlia) light client of XIBC (light-clients/bsc/types/         *)
(* header.go verifyHeader / verifyCascadingFields / verifySeal, update.go, *)
(* snapshot.go, store.go).  Validators are numbered in ascending address   *)
(* order (the replay picks its keys accordingly), so "in turn" is the      *)
(* position in the sorted set.  Numbers are unsigned 64-bit in the code:   *)
(* number - limit wraps around when number < limit (USub).                 *)
(***************************************************************************)
EXTENDS Integers, FiniteSets, Sequences, TLC

CONSTANTS WrapFix,     \* TRUE: a recent signer is also rejected while number < limit (repaired code, as upstream Parlia)
          Vals,        \* validator universe, a set of integers (ascending address order)
          Epoch,
          InitNumber,  \* number of the header the client is created with (a multiple of Epoch)
          InitSet,     \* validator set of the client state the client is created with (the set in force)
          InitAnn,     \* validator list in the creation header's extra data (what that epoch header announces: the pending set)
          InitSigner,
          MaxNumber,
          UpgradeSets  \* the validator sets an upgrade proposal may install (empty: no upgrades in this configuration)

VARIABLES number,     \* number of the head
          validators, \* current validator set
          pending,    \* validator set carried by the last epoch header
          recents,    \* recents[n] = validator that sealed block n (recent signers kept in the store)
          cons,       \* numbers with a consensus state (the state root of that header)
          last
stateVars == <<number, validators, pending, recents, cons>>
vars == <<stateVars, last>>

Big == 1000000                                  \* stands for 2^64
USub(a, b) == IF a >= b THEN a - b ELSE Big + a - b
SeqOf(S) == CHOOSE s \in [1..Cardinality(S) -> S] : \A i, j \in 1..Cardinality(S) : i < j => s[i] < s[j]   \* ascending
InTurn(vs, head, v) == SeqOf(vs)[((head + 1) % Cardinality(vs)) + 1] = v

Header == [number : 0..MaxNumber, parentOK : BOOLEAN, signer : Vals, coinbaseOK : BOOLEAN, diff : {1, 2},
           extra : {{}} \cup ((SUBSET Vals) \ {{}}), structOK : BOOLEAN]

Init == /\ number = InitNumber /\ validators = InitSet /\ pending = InitAnn
        /\ recents = (InitNumber :> InitSigner) /\ cons = {InitNumber}
        /\ last = [act |-> "Init", res |-> "ok"]

(* verifyHeader -> verifyCascadingFields -> verifySeal *)
Accept(hd) ==
  LET n == hd.number  limit == (Cardinality(validators) \div 2) + 1 IN
  /\ hd.structOK                                                       \* ValidateBasic, gas bounds
  /\ (n % Epoch # 0) => hd.extra = {}                                  \* validators in extra data only on epoch headers
  /\ (n % Epoch = 0) => hd.extra # {}                                  \* ... and an epoch header carries a non-empty list (D25)
  /\ n = number + 1 /\ hd.parentOK                                     \* direct child of the head
  /\ hd.coinbaseOK                                                     \* recovered signer = coinbase
  /\ hd.signer \in validators
  /\ \A seen \in DOMAIN recents : recents[seen] = hd.signer => ~((WrapFix /\ n < limit) \/ seen > USub(n, limit))
  /\ hd.diff = (IF InTurn(validators, number, hd.signer) THEN 2 ELSE 1)

Restrict(f, S) == [x \in S |-> f[x]]
UpdateEff(hd) ==
  IF ~Accept(hd) THEN UNCHANGED stateVars
  ELSE
  LET n == hd.number
      pend1 == IF n % Epoch = 0 THEN hd.extra ELSE pending
      switch == n % Epoch = Cardinality(validators) \div 2
      vals1 == IF switch THEN pend1 ELSE validators
      oldLimit == (Cardinality(validators) \div 2) + 1
      newLimit == (Cardinality(vals1) \div 2) + 1
      rec0 == (n :> hd.signer) @@ recents                              \* verifySeal recorded the signer
      drop1 == IF switch /\ newLimit < oldLimit THEN { USub(USub(n, newLimit), i) : i \in 0..(oldLimit - newLimit - 1) } ELSE {}
      drop2 == IF n >= newLimit THEN {n - newLimit} ELSE {}
  IN /\ number' = n /\ pending' = pend1 /\ validators' = vals1
     /\ recents' = Restrict(rec0, (DOMAIN rec0) \ (drop1 \cup drop2))
     /\ cons' = cons \cup {n}

(* A governance upgrade (UpgradeClientProposal -> ClientState.UpgradeState) installs a new client state: the head *)
(* becomes the proposal's header (an epoch header, lower or higher than the old head), the validator set is the   *)
(* proposal's, the pending set is the list that header announces, and the recent-signer window is reset to the    *)
(* sealer of that header.  Consensus states stored before stay.                                                  *)
UpgradeOK(hd) == hd.structOK /\ hd.number % Epoch = 0 /\ hd.coinbaseOK /\ hd.extra # {}
UpgradeEff(hd, vs) ==
  IF ~UpgradeOK(hd) THEN UNCHANGED stateVars
  ELSE /\ number' = hd.number /\ validators' = vs /\ pending' = hd.extra
       /\ recents' = (hd.number :> hd.signer) /\ cons' = cons \cup {hd.number}
EpochBelow(n) == n - (n % Epoch)

Res(ok) == IF ok THEN "ok" ELSE "err"
Extras == {{}} \cup ((SUBSET Vals) \ {{}})
Hdr(n, pk, sg, ck, df, ex, sk) == [number |-> n, parentOK |-> pk, signer |-> sg, coinbaseOK |-> ck, diff |-> df, extra |-> ex, structOK |-> sk]
UpdateNext == \E n \in {number, number + 1, number + 2}, pk \in BOOLEAN, sg \in Vals, ck \in BOOLEAN, df \in {1, 2}, ex \in Extras, sk \in BOOLEAN :
                 LET hd == Hdr(n, pk, sg, ck, df, ex, sk) IN
                 /\ n <= MaxNumber
                 /\ UpdateEff(hd) /\ last' = [act |-> "Update", res |-> Res(Accept(hd)), hd |-> hd]
UpgradeNext == \E n \in {EpochBelow(number), EpochBelow(number) + Epoch, number}, sg \in Vals, ck \in BOOLEAN, ex \in Extras, sk \in BOOLEAN, vs \in UpgradeSets :
                  LET hd == Hdr(n, TRUE, sg, ck, 2, ex, sk) IN
                  /\ n <= MaxNumber /\ n > 0
                  /\ UpgradeEff(hd, vs) /\ last' = [act |-> "Upgrade", res |-> Res(UpgradeOK(hd)), hd |-> hd, set |-> vs]
Next == UpdateNext \/ UpgradeNext
Spec == Init /\ [][Next]_vars

-----------------------------------------------------------------------------
(* C09 (Update steps) and the BSC part of C18 (Upgrade steps) *)
UpgradeInstalls == [][(last'.act = "Upgrade" /\ last'.res = "ok") =>
                        (number' = last'.hd.number /\ validators' = last'.set /\ pending' = last'.hd.extra /\ DOMAIN recents' = {number'} /\ number' \in cons')]_vars
LastSigners(n, k) == { recents[m] : m \in {x \in DOMAIN recents : x >= n - k /\ x < n} }
Eligible(hd) ==
  /\ hd.signer \in validators /\ hd.coinbaseOK
  /\ hd.signer \notin LastSigners(hd.number, Cardinality(validators) \div 2)        \* not one of the last floor(N/2) sealers
  /\ hd.diff = (IF InTurn(validators, number, hd.signer) THEN 2 ELSE 1)
AcceptedIsChild == [][(last'.res = "ok" /\ last'.act = "Update") => (last'.hd.number = number + 1 /\ last'.hd.parentOK /\ last'.hd.structOK)]_vars
SignerEligible == [][(last'.res = "ok" /\ last'.act = "Update") => Eligible(last'.hd)]_vars
SetChangesOnlyAtOffset == [][(validators' # validators /\ last'.act = "Update") => (number' % Epoch = Cardinality(validators) \div 2 /\ validators' = pending')]_vars
PendingOnlyAtEpoch == [][pending' # pending => (number' % Epoch = 0 /\ pending' = last'.hd.extra)]_vars
ConsIsRoot == [][(last'.res = "ok" /\ last'.act = "Update") => (cons' = cons \cup {last'.hd.number} /\ number' = last'.hd.number)]_vars
RejectChangesNothing == [][last'.res = "err" => UNCHANGED stateVars]_vars
=============================================================================
