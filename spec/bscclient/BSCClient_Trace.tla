--------------------------- MODULE BSCClient_Trace ---------------------------
EXTENDS Integers, Sequences, FiniteSets, TLC, Json, IOUtils
CONSTANTS WrapFix, Epoch
Trace == ndJsonDeserialize(IOEnv.TRACE_FILE)
VARIABLES l, number, validators, pending, recents, cons, last,
          announced, \* ground truth: the validator list carried by the last accepted epoch header (or installed by the creation / upgrade header)
          sealed    \* ground truth kept by the trace itself: sealed[n] = sealer of the accepted header n (not the client's own records),
                    \* forgotten by Parlia's own retention rule (an entry leaves when it falls out of the window of the set in force at
                    \* that moment; when the set shrinks the surplus entries leave; when it grows nothing comes back)
Vals == {1, 2, 3, 4, 5, 6, 7}
InitNumber == 0
InitSet == {}
InitAnn == {}
InitSigner == 0
MaxNumber == 1000
UpgradeSets == {}
INSTANCE BSCClient
SetOf(s) == {s[i] : i \in DOMAIN s}
ln(k) == Trace[k]
FnOf(list) == LET S == SetOf(list) IN [x \in {e[1] : e \in S} |-> (CHOOSE e \in S : e[1] = x)[2]]
Hd(a) == [number |-> a.number, parentOK |-> a.parentOK, signer |-> a.signer, coinbaseOK |-> a.coinbaseOK, diff |-> a.diff, extra |-> SetOf(a.extra), structOK |-> a.structOK]
TInit == l = 0 /\ number = 0 /\ validators = {} /\ pending = {} /\ recents = <<>> /\ cons = {} /\ last = [act |-> "None", res |-> "ok"] /\ sealed = <<>> /\ announced = {}
Report(k, name, holds) == holds \/ PrintT(<<"VIOL", k, name>>)
IsStep(k) == ln(k).ev # "Reset"
(* "has sealed one of the last floor(N/2) blocks", on the trace's own record of accepted sealers *)
RecentByRecord(sg, n, vs) == LET limit == (Cardinality(vs) \div 2) + 1 IN
   \E m \in DOMAIN sealed : sealed[m] = sg /\ (n < limit \/ m > USub(n, limit))
(* the record after header n sealed by sg was accepted, the set going from vs to vs2 *)
RecordAfter(n, sg, vs, vs2) ==
   LET rec0 == (n :> sg) @@ sealed
       oldLimit == (Cardinality(vs) \div 2) + 1
       newLimit == (Cardinality(vs2) \div 2) + 1
       drop1 == IF vs2 # vs /\ newLimit < oldLimit THEN { USub(USub(n, newLimit), i) : i \in 0..(oldLimit - newLimit - 1) } ELSE {}
       drop2 == IF n >= newLimit THEN {n - newLimit} ELSE {}
   IN Restrict(rec0, (DOMAIN rec0) \ (drop1 \cup drop2))
AnnOf(a) == IF "ann" \in DOMAIN a THEN SetOf(a.ann) ELSE SetOf(a.set)     \* what the creation header announces
Judge(k) ==
  /\ Report(k, "C09.ConsRootsAreHeaderRoots", ln(k).st.rootsok /\ ln(k).st.headok)
  (* a client created (or toggled to this type) by governance is initialised the way the type requires: the set in force is the   *)
  (* proposal's, the pending set is the list the installed epoch header announces, the window holds that header's sealer          *)
  /\ Report(k, "C18.BscCreateInstalls", ln(k).ev = "Reset" =>
        (number' = ln(k).args.number /\ validators' = SetOf(ln(k).args.set) /\ pending' = AnnOf(ln(k).args)
         /\ DOMAIN recents' = {ln(k).args.number} /\ recents'[ln(k).args.number] = ln(k).args.signer))
  /\ IsStep(k) =>
     LET hd == Hd(ln(k).args.hd)  ok == ln(k).res = "ok" /\ ln(k).ev = "Update"  upg == ln(k).res = "ok" /\ ln(k).ev = "Upgrade" IN
     (* a governance upgrade installs exactly the proposal: head, validator set, the announced pending set, a reset window (C18 for the BSC type) *)
     /\ Report(k, "C18.BscUpgradeInstalls", upg => (number' = hd.number /\ validators' = SetOf(ln(k).args.set) /\ pending' = hd.extra
                                                     /\ DOMAIN recents' = {hd.number} /\ recents'[hd.number] = hd.signer /\ hd.number \in cons'))
     (* ... and leaves a usable client: a header that is valid against what the upgrade installed (and against the blocks accepted since) is accepted *)
     /\ Report(k, "C18.BscValidUpdateAccepted",
          (ln(k).ev = "Update" /\ hd.structOK /\ hd.number = number + 1 /\ hd.parentOK /\ hd.coinbaseOK
            /\ ((hd.number % Epoch # 0) => hd.extra = {}) /\ ((hd.number % Epoch = 0) => hd.extra # {})
            /\ hd.signer \in validators
            /\ ~RecentByRecord(hd.signer, hd.number, validators)
            /\ hd.diff = (IF InTurn(validators, number, hd.signer) THEN 2 ELSE 1)) => ln(k).res = "ok")
     /\ Report(k, "C09.AcceptedIsChild", ok => (hd.number = number + 1 /\ hd.parentOK /\ hd.structOK /\ ((hd.number % Epoch # 0) => hd.extra = {}) /\ ((hd.number % Epoch = 0) => hd.extra # {})))
     /\ Report(k, "C09.SignerEligible", ok => Eligible(hd))
     (* the same clause against what really happened: the sealer sealed none of the last floor(N/2) accepted blocks *)
     /\ Report(k, "C09.NotARecentSealer", ok => ~RecentByRecord(hd.signer, hd.number, validators))
     /\ Report(k, "C09.SetChangesOnlyAtOffset", (validators' # validators /\ ~upg) => (number' % Epoch = Cardinality(validators) \div 2 /\ validators' = pending'))
     (* ... and at that offset it does change to it *)
     /\ Report(k, "C09.SetSwitchesAtOffset", (ok /\ number' % Epoch = Cardinality(validators) \div 2) => validators' = pending')
     (* the same against the trace's own record of what the last epoch header announced *)
     /\ Report(k, "C09.SwitchesToAnnounced", (ok /\ validators' # validators) => validators' = announced')
     /\ Report(k, "C09.SwitchesAtOffsetToAnnounced", (ok /\ number' % Epoch = Cardinality(validators) \div 2) => validators' = announced')
     /\ Report(k, "C09.PendingIsAnnounced", (ok \/ upg) => pending' = announced')
     /\ Report(k, "C09.PendingOnlyAtEpoch", pending' # pending => ((ok \/ upg) /\ number' % Epoch = 0 /\ pending' = hd.extra))
     /\ Report(k, "C09.ConsIsRoot", ok => (cons' = cons \cup {hd.number} /\ number' = hd.number))
     /\ Report(k, "C09.RejectChangesNothing", ln(k).res # "ok" => (ln(k).dg.pre = ln(k).dg.post /\ UNCHANGED stateVars))
C_Step(k) == IF ln(k).ev = "Upgrade"
             THEN UpgradeEff(Hd(ln(k).args.hd), SetOf(ln(k).args.set)) /\ (ln(k).res = "ok") = UpgradeOK(Hd(ln(k).args.hd))
             ELSE UpdateEff(Hd(ln(k).args.hd)) /\ (ln(k).res = "ok") = Accept(Hd(ln(k).args.hd))
Conform(k) == IsStep(k) => (C_Step(k) \/ PrintT(<<"DRIFT", k, ln(k).ev>>))
TNext == LET k == l + 1 IN
  /\ l < Len(Trace) /\ l' = k
  /\ number' = ln(k).st.number /\ validators' = SetOf(ln(k).st.validators) /\ pending' = SetOf(ln(k).st.pending)
  /\ recents' = FnOf(ln(k).st.recents) /\ cons' = SetOf(ln(k).st.cons)
  /\ last' = [act |-> ln(k).ev, res |-> ln(k).res]
  /\ sealed' = IF ln(k).ev = "Reset" THEN (ln(k).args.number :> ln(k).args.signer)
               ELSE IF ln(k).res = "ok" /\ ln(k).ev = "Upgrade" THEN (ln(k).args.hd.number :> ln(k).args.hd.signer)   \* the client starts over from the proposal's header
               ELSE IF ln(k).res = "ok" THEN RecordAfter(ln(k).args.hd.number, ln(k).args.hd.signer, validators, SetOf(ln(k).st.validators)) ELSE sealed
  /\ announced' = IF ln(k).ev = "Reset" THEN AnnOf(ln(k).args)
                  ELSE IF ln(k).res = "ok" /\ (ln(k).ev = "Upgrade" \/ ln(k).args.hd.number % Epoch = 0) THEN SetOf(ln(k).args.hd.extra) ELSE announced
  /\ Judge(k) /\ Conform(k)
TSpec == TInit /\ [][TNext]_<<l, vars, sealed, announced>>
=============================================================================
