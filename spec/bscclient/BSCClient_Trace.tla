--------------------------- MODULE BSCClient_Trace ---------------------------
EXTENDS Integers, Sequences, FiniteSets, TLC, Json, IOUtils
CONSTANTS WrapFix, Epoch
Trace == ndJsonDeserialize(IOEnv.TRACE_FILE)
VARIABLES l, number, validators, pending, recents, cons, last
Vals == {1, 2, 3, 4}
InitNumber == 0
InitSet == {}
InitSigner == 0
MaxNumber == 1000
INSTANCE BSCClient
SetOf(s) == {s[i] : i \in DOMAIN s}
ln(k) == Trace[k]
FnOf(list) == LET S == SetOf(list) IN [x \in {e[1] : e \in S} |-> (CHOOSE e \in S : e[1] = x)[2]]
Hd(a) == [number |-> a.number, parentOK |-> a.parentOK, signer |-> a.signer, coinbaseOK |-> a.coinbaseOK, diff |-> a.diff, extra |-> SetOf(a.extra), structOK |-> a.structOK]
TInit == l = 0 /\ number = 0 /\ validators = {} /\ pending = {} /\ recents = <<>> /\ cons = {} /\ last = [act |-> "None", res |-> "ok"]
Report(k, name, holds) == holds \/ PrintT(<<"VIOL", k, name>>)
IsStep(k) == ln(k).ev # "Reset"
Judge(k) ==
  /\ Report(k, "C09.ConsRootsAreHeaderRoots", ln(k).st.rootsok /\ ln(k).st.headok)
  /\ IsStep(k) =>
     LET hd == Hd(ln(k).args.hd)  ok == ln(k).res = "ok" IN
     /\ Report(k, "C09.AcceptedIsChild", ok => (hd.number = number + 1 /\ hd.parentOK /\ hd.structOK /\ ((hd.number % Epoch # 0) => hd.extra = {})))
     /\ Report(k, "C09.SignerEligible", ok => Eligible(hd))
     /\ Report(k, "C09.SetChangesOnlyAtOffset", validators' # validators => (number' % Epoch = Cardinality(validators) \div 2 /\ validators' = pending'))
     /\ Report(k, "C09.PendingOnlyAtEpoch", pending' # pending => (ok /\ number' % Epoch = 0 /\ pending' = hd.extra))
     /\ Report(k, "C09.ConsIsRoot", ok => (cons' = cons \cup {hd.number} /\ number' = hd.number))
     /\ Report(k, "C09.RejectChangesNothing", ~ok => (ln(k).dg.pre = ln(k).dg.post /\ UNCHANGED stateVars))
C_Step(k) == UpdateEff(Hd(ln(k).args.hd)) /\ (ln(k).res = "ok") = Accept(Hd(ln(k).args.hd))
Conform(k) == IsStep(k) => (C_Step(k) \/ PrintT(<<"DRIFT", k, ln(k).ev>>))
TNext == LET k == l + 1 IN
  /\ l < Len(Trace) /\ l' = k
  /\ number' = ln(k).st.number /\ validators' = SetOf(ln(k).st.validators) /\ pending' = SetOf(ln(k).st.pending)
  /\ recents' = FnOf(ln(k).st.recents) /\ cons' = SetOf(ln(k).st.cons)
  /\ last' = [act |-> ln(k).ev, res |-> ln(k).res]
  /\ Judge(k) /\ Conform(k)
TSpec == TInit /\ [][TNext]_<<l, vars>>
=============================================================================
