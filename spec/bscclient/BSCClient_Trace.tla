--------------------------- MODULE BSCClient_Trace ---------------------------
EXTENDS Integers, Sequences, FiniteSets, TLC, Json, IOUtils
CONSTANTS WrapFix, Epoch
Trace == ndJsonDeserialize(IOEnv.TRACE_FILE)
VARIABLES l, number, validators, pending, recents, cons, last,
          sealed    \* ground truth kept by the trace itself: sealed[n] = sealer of the accepted header n (not the client's own records)
Vals == {1, 2, 3, 4, 5, 6, 7}
InitNumber == 0
InitSet == {}
InitSigner == 0
MaxNumber == 1000
INSTANCE BSCClient
SetOf(s) == {s[i] : i \in DOMAIN s}
ln(k) == Trace[k]
FnOf(list) == LET S == SetOf(list) IN [x \in {e[1] : e \in S} |-> (CHOOSE e \in S : e[1] = x)[2]]
Hd(a) == [number |-> a.number, parentOK |-> a.parentOK, signer |-> a.signer, coinbaseOK |-> a.coinbaseOK, diff |-> a.diff, extra |-> SetOf(a.extra), structOK |-> a.structOK]
TInit == l = 0 /\ number = 0 /\ validators = {} /\ pending = {} /\ recents = <<>> /\ cons = {} /\ last = [act |-> "None", res |-> "ok"] /\ sealed = <<>>
Report(k, name, holds) == holds \/ PrintT(<<"VIOL", k, name>>)
IsStep(k) == ln(k).ev # "Reset"
Judge(k) ==
  /\ Report(k, "C09.ConsRootsAreHeaderRoots", ln(k).st.rootsok /\ ln(k).st.headok)
  /\ IsStep(k) =>
     LET hd == Hd(ln(k).args.hd)  ok == ln(k).res = "ok" IN
     /\ Report(k, "C09.AcceptedIsChild", ok => (hd.number = number + 1 /\ hd.parentOK /\ hd.structOK /\ ((hd.number % Epoch # 0) => hd.extra = {}) /\ ((hd.number % Epoch = 0) => hd.extra # {})))
     /\ Report(k, "C09.SignerEligible", ok => Eligible(hd))
     (* the same clause against what really happened: the sealer sealed none of the last floor(N/2) accepted blocks *)
     /\ Report(k, "C09.NotARecentSealer", ok => hd.signer \notin { sealed[m] : m \in {x \in DOMAIN sealed : x >= hd.number - (Cardinality(validators) \div 2) /\ x < hd.number} })
     /\ Report(k, "C09.SetChangesOnlyAtOffset", validators' # validators => (number' % Epoch = Cardinality(validators) \div 2 /\ validators' = pending'))
     (* ... and at that offset it does change to it *)
     /\ Report(k, "C09.SetSwitchesAtOffset", (ok /\ number' % Epoch = Cardinality(validators) \div 2) => validators' = pending')
     /\ Report(k, "C09.PendingOnlyAtEpoch", pending' # pending => (ok /\ number' % Epoch = 0 /\ pending' = hd.extra))
     /\ Report(k, "C09.ConsIsRoot", ok => (cons' = cons \cup {hd.number} /\ number' = hd.number))
     /\ Report(k, "C09.RejectChangesNothing", ~ok => (ln(k).dg.pre = ln(k).dg.post /\ UNCHANGED stateVars))
C_Step(k) == UpdateEff(Hd(ln(k).args.hd)) /\ (ln(k).res = "ok") = Accept(Hd(ln(k).args.hd))
Conform(k) == IsStep(k) => (C_Step(k) \/ PrintT(<<"DRIFT", k, ln(k).ev>>))
TNext == LET k == l + 1 IN
  /\ l < Len(Trace) /\ l' = k
  /\ number' = ln(k).st.number /\ validators' = SetOf(ln(k).st.validators) /\ pending' = SetOf(ln(k).st.pending)
  /\ recents' = FnOf(ln(k).st.recents) /\ cons' = SetOf(ln(k).st.cons)
  /\ last' = [act |-> ln(k).ev, res |-> ln(k).res]
  /\ sealed' = IF ln(k).ev = "Reset" THEN (ln(k).args.number :> ln(k).args.signer)
               ELSE IF ln(k).res = "ok" THEN (ln(k).args.hd.number :> ln(k).args.hd.signer) @@ sealed ELSE sealed
  /\ Judge(k) /\ Conform(k)
TSpec == TInit /\ [][TNext]_<<l, vars, sealed>>
=============================================================================
