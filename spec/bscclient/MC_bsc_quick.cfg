SPECIFICATION Spec
CONSTANTS
  WrapFix = TRUE
  Vals = {1, 2, 3, 4}
  Epoch = 3
  InitNumber = 3
  InitSet = {1, 2, 3}
  InitAnn = {1, 2, 3}
  InitSigner = 1
  MaxNumber = 9
  UpgradeSets = {{2, 4}}
PROPERTIES UpgradeInstalls AcceptedIsChild SignerEligible SetChangesOnlyAtOffset PendingOnlyAtEpoch ConsIsRoot RejectChangesNothing
VIEW stateVars
CHECK_DEADLOCK FALSE
