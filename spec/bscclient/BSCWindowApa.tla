---------------------------- MODULE BSCWindowApa ----------------------------
(* The recent-signer window of the BSC client over unbounded integers (Apalache): the test the code performs      *)
(* (snapshot / verifySeal, with the repair of D20: "number < limit ||")  says "recent" exactly when the statement   *)
(* of C09 does - the validator sealed one of the last floor(N/2) blocks before the header - for EVERY block number, *)
(* EVERY validator-set size and EVERY earlier block.  The unrepaired test (unsigned subtraction that wraps around)   *)
(* is refuted with a counterexample (WindowUnrepaired).                                                             *)
EXTENDS Integers

VARIABLES
  \* @type: Int;
  n,      \* number of the header being verified
  \* @type: Int;
  size,   \* number of validators
  \* @type: Int;
  seen    \* number of an earlier accepted block sealed by the same validator

Big == 18446744073709551616   \* 2^64

Init == n \in Nat /\ size \in Nat /\ seen \in Nat /\ size >= 1 /\ seen < n /\ n < Big
Next == UNCHANGED <<n, size, seen>>

Limit == (size \div 2) + 1
USub(a, b) == IF a >= b THEN a - b ELSE Big + a - b                 \* uint64 subtraction
CodeRecent == n < Limit \/ seen > USub(n, Limit)                     \* repaired code
CodeRecentUnrepaired == seen > USub(n, Limit)                        \* before D20
StatementRecent == seen >= n - (size \div 2)                         \* one of the last floor(N/2) blocks before n

WindowEquivalence == CodeRecent <=> StatementRecent
WindowUnrepaired == CodeRecentUnrepaired <=> StatementRecent
=============================================================================
