SPECIFICATION TSpec
CONSTANTS
  WrapFix = TRUE
  Epoch = 2
CHECK_DEADLOCK FALSE
