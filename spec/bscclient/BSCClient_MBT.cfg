SPECIFICATION MSpec
CONSTANTS
  WrapFix = TRUE
  Vals = {1, 2, 3, 4, 5, 6, 7}
  Epoch = 4
  InitNumber = 4
  InitSet = {1, 2, 3}
  InitAnn = {1, 2, 3}
  InitSigner = 2
  MaxNumber = 1000
  UpgradeSets = {{1, 2, 3}, {2, 4, 5, 6, 7}, {3}, {4, 5, 6}}
  Depth = 14
INVARIANTS Emit
CHECK_DEADLOCK FALSE
