SPECIFICATION MSpec
CONSTANTS
  WrapFix = TRUE
  Vals = {1, 2, 3, 4, 5, 6, 7}
  Epoch = 1
  InitNumber = 1
  InitSet = {1, 2, 3, 4}
  InitAnn = {1, 2, 3, 4}
  InitSigner = 2
  MaxNumber = 1000
  UpgradeSets = {}
  Depth = 14
INVARIANTS Emit
CHECK_DEADLOCK FALSE
