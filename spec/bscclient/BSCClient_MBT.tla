---------------------------- MODULE BSCClient_MBT ----------------------------
EXTENDS BSCClient, Json
CONSTANTS Depth
VARIABLE hist
Pick(S) == RandomElement(S)
MInit == Init /\ hist = << [act |-> "Init", res |-> "ok", epoch |-> Epoch, number |-> InitNumber, set |-> InitSet, ann |-> InitAnn, signer |-> InitSigner] >>
Limit == (Cardinality(validators) \div 2) + 1
(* validators that may seal the next block *)
Eligibles == { v \in validators : \A seen \in DOMAIN recents : recents[seen] = v => ~(number + 1 < Limit \/ seen > USub(number + 1, Limit)) }
GenHeader ==
  \E n \in {IF Pick(1..10) = 1 THEN Pick({number, number + 2}) ELSE number + 1} :
  (* mostly an eligible sealer; otherwise, half of the time, a validator of the set the model holds ineligible (a recent sealer) *)
  \E sg \in {IF Eligibles # {} /\ Pick(1..6) # 1 THEN Pick(Eligibles)
              ELSE IF validators \ Eligibles # {} /\ Pick(1..2) = 1 THEN Pick(validators \ Eligibles) ELSE Pick(Vals)} :
  (* mostly the difficulty that matches the turn; otherwise 1 or 2, or 101 / 102: a value wider than 64 bits whose low 64 bits are 1 / 2 *)
  \E df \in {IF validators # {} /\ sg \in validators /\ Pick(1..8) # 1 THEN (IF InTurn(validators, number, sg) THEN 2 ELSE 1)
              ELSE IF validators # {} /\ sg \in validators /\ Pick(1..2) = 1 THEN 100 + (IF InTurn(validators, number, sg) THEN 2 ELSE 1) ELSE Pick({1, 2, 101, 102})} :
  \E ex \in {IF n % Epoch = 0 THEN (IF Pick(1..10) = 1 THEN {} ELSE IF Pick(1..3) = 1 THEN Vals ELSE Pick((SUBSET Vals) \ {{}})) ELSE (IF Pick(1..10) = 1 THEN Pick((SUBSET Vals) \ {{}}) ELSE {})} :
  \E pk \in {Pick(1..10) # 1} : \E ck \in {Pick(1..10) # 1} : \E sk \in {Pick(1..12) # 1} :
    LET hd == [number |-> n, parentOK |-> pk, signer |-> sg, coinbaseOK |-> ck, diff |-> df, extra |-> ex, structOK |-> sk] IN
    UpdateEff(hd) /\ last' = [act |-> "Update", res |-> Res(Accept(hd)), hd |-> hd]
GenUpgrade ==
  \E n \in {Pick({x \in {EpochBelow(number), EpochBelow(number) + Epoch, IF Pick(1..6) = 1 THEN number ELSE EpochBelow(number)} : x > 0 /\ x <= MaxNumber} \cup {Epoch})} :
  \E sg \in {Pick(Vals)} : \E vs \in {Pick(UpgradeSets)} :
  \E ex \in {IF Pick(1..8) = 1 THEN {} ELSE IF Pick(1..3) = 1 THEN vs ELSE Pick((SUBSET Vals) \ {{}})} :
  \E ck \in {Pick(1..10) # 1} : \E sk \in {Pick(1..12) # 1} :
    LET hd == [number |-> n, parentOK |-> TRUE, signer |-> sg, coinbaseOK |-> ck, diff |-> 2, extra |-> ex, structOK |-> sk] IN
    UpgradeEff(hd, vs) /\ last' = [act |-> "Upgrade", res |-> Res(UpgradeOK(hd)), hd |-> hd, set |-> vs]
MNext == /\ Len(hist) < Depth + 1 /\ number < MaxNumber
         /\ IF UpgradeSets # {} /\ Pick(1..7) = 1 THEN GenUpgrade ELSE GenHeader
         /\ hist' = Append(hist, last')
MSpec == MInit /\ [][MNext]_<<vars, hist>>
Emit == Len(hist) = Depth + 1 => PrintT(<<"MBT", ToJson(hist)>>)
=============================================================================
