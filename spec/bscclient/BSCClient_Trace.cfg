SPECIFICATION TSpec
CONSTANTS
  WrapFix = TRUE
  Epoch = 4
CHECK_DEADLOCK FALSE
