SPECIFICATION Spec
CONSTANTS
  WrapFix = TRUE
  Vals = {1, 2, 3, 4}
  Epoch = 1
  InitNumber = 1
  InitSet = {1, 2, 3}
  InitAnn = {1, 2, 4}
  InitSigner = 1
  MaxNumber = 9
  UpgradeSets = {}
PROPERTIES AcceptedIsChild SignerEligible SetChangesOnlyAtOffset PendingOnlyAtEpoch ConsIsRoot RejectChangesNothing
VIEW stateVars
CHECK_DEADLOCK FALSE
