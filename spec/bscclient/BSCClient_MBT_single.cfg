SPECIFICATION MSpec
CONSTANTS
  WrapFix = TRUE
  Vals = {1, 2, 3, 4, 5, 6, 7}
  Epoch = 2
  InitNumber = 2
  InitSet = {3}
  InitAnn = {3}
  InitSigner = 3
  MaxNumber = 1000
  UpgradeSets = {}
  Depth = 14
INVARIANTS Emit
CHECK_DEADLOCK FALSE
