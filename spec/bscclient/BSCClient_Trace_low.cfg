SPECIFICATION TSpec
CONSTANTS
  WrapFix = TRUE
  Epoch = 1
CHECK_DEADLOCK FALSE
