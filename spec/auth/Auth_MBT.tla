------------------------------ MODULE Auth_MBT ------------------------------
EXTENDS Auth, Json
CONSTANTS Depth
VARIABLE hist
Pick(S) == RandomElement(S)
VStr(v) == IF v = 1 THEN "1" ELSE IF v = 2 THEN "2" ELSE "3"
(* version 3 is an address several relayers share on a chain (nothing forbids registering the same counterparty address twice) *)
CounterStr(r, c, v) == IF v = 3 THEN "cp-any-" \o c \o "-v3" ELSE "cp-" \o r \o "-" \o c \o "-v" \o VStr(v)
AllAccts == {"r1", "r2", "tss", "out"}
AllChains == {"one", "two", "tss"}
AllMethods == {"setSequence", "setAckStatus", "setChainName", "sendPacketFeeToRelayer", "packet.onRecvPacket", "OnAcknowledgePacket",
               "bindToken", "enableLimit", "disableLimit", "endpoint.onRecvPacket", "onAcknowledgementPacket"}
AllPaths == {"eoa", "contract", "execute", "execute-contract"}
SetToSeq(S) == CHOOSE s \in [1..Cardinality(S) -> S] : \A i, j \in 1..Cardinality(S) : i # j => s[i] # s[j]
Unacked == (1..sent) \ acked
Payable == {Counter(r, TssChain, ver[r]) : r \in {x \in Accts : TssChain \in reg[x]}}
MInit == Init /\ hist = <<>>
(* biased towards histories in which something is registered, sent and received, so that the accept side is exercised *)
MNext ==
  /\ Len(hist) < Depth
  /\ \E w \in {Pick(1..21)}, a \in {Pick(Accts)}, c \in {Pick(Chains)}, pf \in {Pick(Proofs)} :
       \/ w <= 3 /\ \E cs \in {Pick((SUBSET Chains) \ {{}})}, v \in {Pick(Vers)} : RegisterEff(a, cs, v) /\ last' = [act |-> "Register", res |-> "ok", r |-> a, chains |-> SetToSeq(cs), v |-> v]
       (* the TSS account (re-)registered for the TSS chain; re-registrations of an account for the SAME chains with the other address *)
       \/ w = 4 /\ IF Pick(1..3) = 1
                    THEN \E na \in {Pick(Accts \ {"out"})} : RotateEff(na) /\ last' = [act |-> "Rotate", res |-> "ok", to |-> na]
                    ELSE \E v \in {Pick(Vers)} : RegisterEff(tssacct, {TssChain}, v) /\ last' = [act |-> "Register", res |-> "ok", r |-> tssacct, chains |-> <<TssChain>>, v |-> v]
       \/ w = 21 /\ reg[a] # {} /\ \E nv \in {IF ver[a] = 1 THEN 2 ELSE 1} : RegisterEff(a, reg[a], nv) /\ last' = [act |-> "Register", res |-> "ok", r |-> a, chains |-> SetToSeq(reg[a]), v |-> nv]
       \/ w \in {5, 6, 7} /\ UpdateEff(a, c) /\ last' = [act |-> "Update", res |-> Res(UpdateOK(a, c)), signer |-> a, chain |-> c]
       \/ w \in {8, 9, 10} /\ \E aa \in {IF Pick(1..2) = 1 THEN tssacct ELSE a}, cc \in {IF Pick(1..3) > 1 THEN TssChain ELSE c},
                                 m \in {IF Pick(1..2) = 1 THEN "none" ELSE IF Pick(1..4) = 1 THEN "malformed" ELSE Pick(Methods)} :
              \E s \in {IF Pick(1..4) = 1 THEN Pick(1..MaxSeq) ELSE 1 + Cardinality({x \in rcpt : x[1] = cc})} :
              s <= MaxSeq /\ RecvEff(aa, cc, s) /\ last' = [act |-> "Recv", res |-> Res(RecvOK(aa, cc, s)), signer |-> aa, chain |-> cc, seq |-> s, call |-> m, proof |-> pf]
       \/ w \in {11, 12} /\ Send
       \/ w \in {13, 14, 15} /\ \E aa \in {IF Pick(1..2) = 1 THEN tssacct ELSE a},
                                    s \in {IF Unacked # {} /\ Pick(1..4) > 1 THEN Pick(Unacked) ELSE Pick(1..MaxSeq)},
                                    rel \in {IF Payable # {} /\ Pick(1..4) > 1 THEN Pick(Payable) ELSE Pick(Rels)} :
              AckEff(aa, s, rel) /\ last' = [act |-> "Ack", res |-> Res(AckOK(aa, s, rel)), signer |-> aa, seq |-> s, rel |-> rel, proof |-> pf]
       \/ w \in 16..19 /\ \E p \in {Pick(Paths)}, m \in {Pick(Methods)} : Priv(p, m)
       \/ w = 20 /\ IF Pick(1..2) = 1 THEN Regenesis ELSE \E p \in {Pick(Paths)}, m \in {Pick(Methods)} : Priv(p, m)
  /\ hist' = Append(hist, last')
MSpec == MInit /\ [][MNext]_<<vars, hist>>
Emit == Len(hist) = Depth => PrintT(<<"MBT", ToJson(hist)>>)
=============================================================================
