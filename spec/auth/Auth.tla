-------------------------------- MODULE Auth --------------------------------
(***************************************************************************)
(* Who can drive the bridge (C06).  One host chain with light clients of   *)
(* three counterparties - "one" and "two" (Tendermint) and "tss" (TSS) -,  *)
(* a relayer registry that governance changes, the accounts r1, r2, tss    *)
(* (the TSS account), out (never registered), and the privileged entry     *)
(* points of the system contracts.                                         *)
(*   msg_server.go UpdateClient:  AuthRelayer(chain, signer), then         *)
(*                 ClientState.CheckMsg (TSS: signer = TssAddress)         *)
(*   packet.go RecvPacket:  proof := signer for a TSS client; proof check; *)
(*   msg_server.go RecvPacket: GetRelayerAddressOnOtherChain(src, signer)  *)
(*                 must be found; it is the relayer field of the ack       *)
(*   packet.go AcknowledgePacket: proof := signer for a TSS client;        *)
(*   msg_server.go Acknowledgement: the ack's relayer field must be the    *)
(*                 counterparty address of some relayer of that chain      *)
(*   system contracts: privileged methods check msg.sender = module address*)
(* Proofs of the Tendermint counterparties cannot be produced here (their  *)
(* acceptance is the subject of XIBC.tla): a receive from them is never    *)
(* accepted in this model.                                                 *)
(***************************************************************************)
EXTENDS Integers, FiniteSets, Sequences, TLC

CONSTANTS Accts,      \* {"r1","r2","tss","out"}
          Chains,     \* {"one","two","tss"}
          Methods,    \* privileged contract methods
          Paths,      \* call paths of an unprivileged caller
          MaxSeq, MaxUpd,
          Vers,           \* address versions a registration may carry, e.g. {1, 2}
          Counter(_, _, _)   \* Counter(r, c, v): the v-th counterparty address governance registers for relayer r on chain c

TssChain == "tss"
TssAcct == "tss"       \* the account the TSS client is created with

VARIABLES reg,       \* reg[a] = set of chains account a is registered for
          ver,       \* ver[a] = which of its counterparty addresses the current registration of a carries (a re-registration may change it)
          upd,       \* upd[c] = number of accepted updates of client c
          rcpt,      \* set of <<chain, seq>> received
          ackrel,    \* ackrel[<<chain, seq>>] = relayer field of the written acknowledgement
          sent,      \* number of packets sent to the TSS chain
          acked,     \* sequences acknowledged
          paid,      \* paid[seq] = account the fee of packet seq went to
          tssacct,   \* the account configured as the TSS account of the TSS client (governance may move it: RotateTss)
          priv,      \* abstract privileged contract state: number of effects of privileged methods by non-modules
          last
stateVars == <<reg, ver, upd, rcpt, ackrel, sent, acked, paid, priv, tssacct>>
vars == <<stateVars, last>>

Init == /\ reg = [a \in Accts |-> {}] /\ ver = [a \in Accts |-> 1] /\ upd = [c \in Chains |-> 0] /\ rcpt = {} /\ ackrel = <<>>
        /\ sent = 0 /\ acked = {} /\ paid = <<>> /\ priv = 0 /\ tssacct = TssAcct
        /\ last = [act |-> "Init", res |-> "ok"]

Res(ok) == IF ok THEN "ok" ELSE "err"

(* governance: the proposal replaces the account's entry *)
RegisterEff(a, cs, v) == reg' = [reg EXCEPT ![a] = cs] /\ ver' = [ver EXCEPT ![a] = v] /\ UNCHANGED <<upd, rcpt, ackrel, sent, acked, paid, priv, tssacct>>
Register(a, cs, v) == cs # {} /\ RegisterEff(a, cs, v) /\ last' = [act |-> "Register", res |-> "ok", r |-> a, chains |-> cs, v |-> v]

UpdateOK(a, c) == c \in reg[a] /\ (c = TssChain => a = tssacct)
UpdateEff(a, c) == IF UpdateOK(a, c) THEN upd' = [upd EXCEPT ![c] = @ + 1] /\ UNCHANGED <<reg, ver, rcpt, ackrel, sent, acked, paid, priv, tssacct>>
                   ELSE UNCHANGED stateVars
Update(a, c) == upd[c] < MaxUpd /\ UpdateEff(a, c) /\ last' = [act |-> "Update", res |-> Res(UpdateOK(a, c)), signer |-> a, chain |-> c]

(* a receive of packet (c, seq); call = the contract method its call data targets ("none": a harmless call) *)
RecvOK(a, c, seq) == c = TssChain /\ a = tssacct /\ c \in reg[a] /\ <<c, seq>> \notin rcpt
RecvEff(a, c, seq) ==
  IF RecvOK(a, c, seq)
  THEN /\ rcpt' = rcpt \cup {<<c, seq>>}
       /\ ackrel' = (<<c, seq>> :> Counter(a, c, ver[a])) @@ ackrel
       /\ UNCHANGED <<reg, ver, upd, sent, acked, paid, priv, tssacct>>          \* privileged call data has no privileged effect
  ELSE UNCHANGED stateVars
(* pf: what the sender put into the proof field ("junk" or the TSS account's address as bytes): it never matters for *)
(* a TSS client, whose proof is the signer                                                                          *)
Recv(a, c, seq, call, pf) == seq \in 1..MaxSeq /\ RecvEff(a, c, seq)
                         /\ last' = [act |-> "Recv", res |-> Res(RecvOK(a, c, seq)), signer |-> a, chain |-> c, seq |-> seq, call |-> call, proof |-> pf]

(* governance moves the TSS client to another TSS account (UpgradeClientProposal with a new client state): from then on only *)
(* that account acts for the TSS chain, and the former one is an ordinary relayer at most                                     *)
RotateEff(a) == tssacct' = a /\ UNCHANGED <<reg, ver, upd, rcpt, ackrel, sent, acked, paid, priv>>
RotateTss(a) == RotateEff(a) /\ last' = [act |-> "Rotate", res |-> "ok", to |-> a]

(* the host chain is restarted from its own exported genesis: registry, clients, receipts, acknowledgements stay *)
Regenesis == UNCHANGED stateVars /\ last' = [act |-> "Regenesis", res |-> "ok"]

Send == /\ sent < MaxSeq /\ sent' = sent + 1 /\ UNCHANGED <<reg, ver, upd, rcpt, ackrel, acked, paid, priv, tssacct>>
        /\ last' = [act |-> "Send", res |-> "ok"]

(* an acknowledgement for packet seq sent to the TSS chain, naming rel = <<r, c>> as relayer *)
Payee(rel) == { r \in Accts : TssChain \in reg[r] /\ rel = Counter(r, TssChain, ver[r]) }
AckOK(a, seq, rel) == seq \in 1..sent /\ seq \notin acked /\ a = tssacct /\ Payee(rel) # {}
AckEff(a, seq, rel) ==
  IF AckOK(a, seq, rel)
  THEN /\ acked' = acked \cup {seq} /\ paid' = (seq :> CHOOSE r \in Payee(rel) : TRUE) @@ paid
       /\ UNCHANGED <<reg, ver, upd, rcpt, ackrel, sent, priv, tssacct>>
  ELSE UNCHANGED stateVars
Ack(a, seq, rel, pf) == AckEff(a, seq, rel) /\ last' = [act |-> "Ack", res |-> Res(AckOK(a, seq, rel)), signer |-> a, seq |-> seq, rel |-> rel, proof |-> pf]

(* a privileged method called by something that is not the chain's module: never any effect *)
Priv(path, m) == UNCHANGED stateVars /\ last' = [act |-> "Priv", res |-> "err", path |-> path, method |-> m]

Proofs == {"junk", "tssaddr"}
Rels == {Counter(r, TssChain, v) : r \in Accts, v \in Vers} \cup {Counter("nobody", TssChain, 1)}
Next == \/ \E a \in Accts, cs \in SUBSET Chains, v \in Vers : Register(a, cs, v)
        \/ \E a \in Accts, c \in Chains : Update(a, c)
        \/ \E a \in Accts, c \in Chains, s \in 1..MaxSeq, m \in Methods \cup {"none", "malformed"}, pf \in Proofs : Recv(a, c, s, m, pf)
        \/ Send
        \/ \E a \in Accts, s \in 1..MaxSeq, rel \in Rels, pf \in Proofs : Ack(a, s, rel, pf)
        \/ \E p \in Paths, m \in Methods : Priv(p, m)
        \/ \E a \in Accts \ {"out"} : RotateTss(a)
        \/ Regenesis
Spec == Init /\ [][Next]_vars

-----------------------------------------------------------------------------
(* C06 *)
Accepted(k) == last'.act = k /\ last'.res = "ok"
OnlyRegistered == [][(Accepted("Update") \/ Accepted("Recv")) => last'.chain \in reg[last'.signer]]_vars
TssOnly == [][((Accepted("Update") \/ Accepted("Recv")) /\ last'.chain = TssChain) \/ Accepted("Ack") => last'.signer = tssacct]_vars
NothingForOtherChains == [][(Accepted("Update") \/ Accepted("Recv")) => \A c \in Chains \ {last'.chain} : upd'[c] = upd[c] /\ {x \in rcpt' : x[1] = c} = {x \in rcpt : x[1] = c}]_vars
AckRelayerField == \A x \in DOMAIN ackrel : \E r \in Accts, v \in Vers : ackrel[x] = Counter(r, x[1], v)
(* the address of the CURRENT registration of the submitter, also after a re-registration with another address *)
AckRelayerIsSubmitter == [][Accepted("Recv") => ackrel'[<<last'.chain, last'.seq>>] = Counter(last'.signer, last'.chain, ver[last'.signer])]_vars
FeeToRegistered == [][Accepted("Ack") => (TssChain \in reg[paid'[last'.seq]] /\ last'.rel = Counter(paid'[last'.seq], TssChain, ver[paid'[last'.seq]]))]_vars
PrivNeverActs == [][priv' = priv]_vars
RejectChangesNothing == [][last'.res = "err" => UNCHANGED stateVars]_vars
NeverRegisteredNeverActs == [][(reg["out"] = {} /\ last'.act \in {"Update", "Recv", "Ack"} /\ last'.signer = "out") => last'.res = "err"]_vars
=============================================================================
