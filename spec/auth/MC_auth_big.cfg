SPECIFICATION Spec
CONSTANTS
  Accts <- AllAccts
  Chains <- AllChains
  Methods <- SomeMethods
  Paths <- SomePaths
  MaxSeq = 2
  MaxUpd = 1
INVARIANTS AckRelayerField
PROPERTIES OnlyRegistered TssOnly NothingForOtherChains AckRelayerIsSubmitter FeeToRegistered PrivNeverActs RejectChangesNothing NeverRegisteredNeverActs
CHECK_DEADLOCK FALSE
