SPECIFICATION Spec
CONSTANTS
  Accts <- AllAccts
  Chains <- AllChains
  Methods <- SomeMethods
  Paths <- SomePaths
  Counter <- CounterTuple
  MaxSeq = 1
  MaxUpd = 1
INVARIANTS AckRelayerField
PROPERTIES OnlyRegistered TssOnly NothingForOtherChains AckRelayerIsSubmitter FeeToRegistered PrivNeverActs RejectChangesNothing NeverRegisteredNeverActs
CHECK_DEADLOCK FALSE
