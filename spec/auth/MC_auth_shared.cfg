SPECIFICATION Spec
CONSTANTS
  Accts <- SomeAccts
  Chains <- TwoChains
  Methods <- SomeMethods
  Paths <- SomePaths
  Counter <- CounterTuple
  Vers = {3}
  MaxSeq = 1
  MaxUpd = 1
INVARIANTS AckRelayerField
PROPERTIES OnlyRegistered TssOnly NothingForOtherChains AckRelayerIsSubmitter FeeToRegistered PrivNeverActs RejectChangesNothing NeverRegisteredNeverActs
CHECK_DEADLOCK FALSE
