----------------------------- MODULE Auth_Trace -----------------------------
(* Judges every replayed real step of the authorisation world with the C06 operators, on the recorded real *)
(* state (registry read from the store, client versions, receipts, committed acknowledgements, fee balances, *)
(* privileged contract state), and checks conformance with Auth's actions.                                   *)
EXTENDS Integers, Sequences, FiniteSets, TLC, Json, IOUtils
Trace == ndJsonDeserialize(IOEnv.TRACE_FILE)
VARIABLES l, reg, ver, upd, rcpt, ackrel, sent, acked, paid, priv, tssacct, last,
          gTss,     \* ground truth: the account governance configured as TSS account (creation: "tss"; then every accepted Rotate)
          feebal,   \* fee-token balance per account
          privfp,   \* fingerprint of the privileged contract state
          dg        \* digest of the evm, xibc and aggregate stores
Accts == {"r1", "r2", "tss", "out"}
Chains == {"one", "two", "tss"}
Methods == {}
Paths == {}
MaxSeq == 1000
MaxUpd == 1000
Vers == {1, 2, 3}
VStr(v) == IF v = 1 THEN "1" ELSE IF v = 2 THEN "2" ELSE "3"
Counter(r, c, v) == IF v = 3 THEN "cp-any-" \o c \o "-v3" ELSE "cp-" \o r \o "-" \o c \o "-v" \o VStr(v)
INSTANCE Auth
ln(k) == Trace[k]
SeqSet(s) == {s[i] : i \in DOMAIN s}
RegOf(k) == [a \in Accts |-> {x.c : x \in SeqSet(ln(k).st.reg[a])}]
AddrOK(k) == \A a \in Accts : \A x \in SeqSet(ln(k).st.reg[a]) : x.a = Counter(a, x.c, ver'[a])
TInit == /\ l = 0 /\ reg = [a \in Accts |-> {}] /\ ver = [a \in Accts |-> 1] /\ upd = [c \in Chains |-> 0] /\ rcpt = {} /\ ackrel = <<>> /\ sent = 0 /\ acked = {}
         /\ paid = <<>> /\ priv = 0 /\ tssacct = "tss" /\ gTss = "tss" /\ last = [act |-> "None", res |-> "ok"] /\ feebal = [a \in Accts |-> 0] /\ privfp = "" /\ dg = ""
Report(k, name, holds) == holds \/ PrintT(<<"VIOL", k, name>>)
IsStep(k) == ln(k).ev # "Init"
A(k) == ln(k).args
OK(k) == ln(k).res = "ok"
Gainers == {a \in Accts : feebal'[a] > feebal[a]}
Judge(k) ==
  IsStep(k) =>
  LET ev == ln(k).ev IN
  (* a restart from the chain's own exported genesis keeps the replay guards and everything else of the bridge (chain names of every *)
  (* admissible shape: the TSS counterparty's name contains . _ + - # [ ] < >)                                                      *)
  /\ Report(k, "C01.RestartKeepsReceipts", ev = "Regenesis" => (OK(k) /\ rcpt' = rcpt /\ ackrel' = ackrel))
  /\ Report(k, "C06.RestartKeepsRegistry", ev = "Regenesis" => (reg' = reg /\ ver' = ver /\ upd' = upd /\ tssacct' = tssacct))
  /\ Report(k, "C04.RestartKeepsSequences", ev = "Regenesis" => (ln(k).st.sent = sent /\ acked' = acked))
  (* C04 for a destination behind a TSS client: a successful send takes the next sequence and leaves its commitment, *)
  (* the hash of the emitted packet bytes - whatever the type of the destination's client                            *)
  /\ Report(k, "C04.TssSendCommits", (ev = "Send" /\ OK(k)) => (ln(k).st.sent = sent + 1 /\ (sent + 1) \in SeqSet(ln(k).st.commits)))
  /\ Report(k, "C04.TssCommitIsHash", ln(k).st.commitok)
  (* updates and receives only from an account registered for exactly that chain (registry before the step) *)
  /\ Report(k, "C06.OnlyRegistered", (ev \in {"Update", "Recv"} /\ OK(k)) => A(k).chain \in reg[A(k).signer])
  (* a TSS-secured counterparty: only the TSS account, for updates, receives and acknowledgements *)
  /\ Report(k, "C06.TssOnly", (OK(k) /\ ((ev \in {"Update", "Recv"} /\ A(k).chain = "tss") \/ ev = "Ack")) => A(k).signer = gTss)
  (* ... and after governance moved the client to another account, it is that account the client holds *)
  /\ Report(k, "C06.RotateInstalls", (ev = "Rotate" /\ OK(k)) => tssacct' = A(k).to)
  (* an accepted message for one chain changes nothing of another chain's client or receipts *)
  /\ Report(k, "C06.NothingForOtherChains", (ev \in {"Update", "Recv"}) =>
        \A c \in Chains \ {A(k).chain} : upd'[c] = upd[c] /\ {x \in rcpt' : x[1] = c} = {x \in rcpt : x[1] = c})
  (* the relayer field of the written acknowledgement is the submitter's registered counterparty address *)
  /\ Report(k, "C06.AckRelayerField", (ev = "Recv" /\ OK(k)) =>
        /\ <<A(k).chain, ln(k).seq>> \in DOMAIN ackrel'
        /\ ackrel'[<<A(k).chain, ln(k).seq>>] = Counter(A(k).signer, A(k).chain, ver[A(k).signer]))
  (* the fee of an acknowledged packet goes to the teleport account whose registered counterparty address the ack names *)
  /\ Report(k, "C06.FeeToRegistered", (ev = "Ack" /\ OK(k)) =>
        /\ Cardinality(Gainers) = 1
        /\ \A a \in Gainers : "tss" \in reg[a] /\ A(k).rel = Counter(a, "tss", ver[a]))
  /\ Report(k, "C06.NoFeeOtherwise", (ev # "Ack" \/ ~OK(k)) => Gainers = {})
  (* a rejected attempt changes no state *)
  /\ Report(k, "C06.RejectNoChange", (ev \in {"Update", "Recv", "Ack"} /\ ~OK(k)) => dg' = dg)
  (* privileged contract methods have no effect for any caller that is not the chain's module: EOA, contract, *)
  (* nested call through the execute contract, call data of a received packet                                  *)
  /\ Report(k, "C06.PrivNoEffect", (ev \in {"Priv", "Recv"}) => privfp' = privfp)
  /\ Report(k, "C06.PrivNoStoreChange", (ev = "Priv") => dg' = dg)
  /\ Report(k, "C06.PrivDirectCallFails", (ev = "Priv" /\ A(k).path \in {"eoa", "contract"}) => ~OK(k))
  (* clients change only by accepted updates; the registry only by proposals *)
  /\ Report(k, "C06.ClientsOnlyByUpdate", (ev # "Update" \/ ~OK(k)) => upd' = upd)
  /\ Report(k, "C06.RegistryOnlyByProposal", (ev # "Register") => (reg' = reg /\ ver' = ver))
  (* a (re-)registration installs exactly the proposal's chains and addresses *)
  /\ Report(k, "C06.RegistrationInstalled", (ev = "Register" /\ OK(k)) => (reg'[A(k).r] = SeqSet(A(k).chains) /\ ver'[A(k).r] = A(k).v /\ AddrOK(k)))
C_Step(k) ==
  LET ev == ln(k).ev IN
  CASE ev = "Register" -> RegisterEff(A(k).r, SeqSet(A(k).chains), A(k).v) /\ OK(k) /\ AddrOK(k)
    [] ev = "Update" -> UpdateEff(A(k).signer, A(k).chain) /\ OK(k) = UpdateOK(A(k).signer, A(k).chain)
    [] ev = "Recv" -> RecvEff(A(k).signer, A(k).chain, ln(k).seq) /\ OK(k) = RecvOK(A(k).signer, A(k).chain, ln(k).seq)
    [] ev = "Send" -> OK(k) /\ sent' = sent + 1 /\ UNCHANGED <<reg, ver, upd, rcpt, ackrel, acked>>
    [] ev = "Ack" -> /\ OK(k) = AckOK(A(k).signer, A(k).seq, A(k).rel)
                     /\ acked' = (IF AckOK(A(k).signer, A(k).seq, A(k).rel) THEN acked \cup {A(k).seq} ELSE acked)
                     /\ UNCHANGED <<reg, ver, upd, rcpt, ackrel, sent>>
    [] ev = "Priv" -> UNCHANGED <<reg, ver, upd, rcpt, ackrel, sent, acked>>
    [] ev = "Regenesis" -> OK(k) /\ UNCHANGED <<reg, ver, upd, rcpt, ackrel, sent, acked, tssacct>>
    [] ev = "Rotate" -> OK(k) /\ tssacct' = A(k).to /\ UNCHANGED <<reg, ver, upd, rcpt, ackrel, sent, acked>>
    [] OTHER -> FALSE
Conform(k) == IsStep(k) => (C_Step(k) \/ PrintT(<<"DRIFT", k, ln(k).ev>>))
AckMap(k) == LET S == SeqSet(ln(k).st.acks) IN [x \in {<<e.c, e.s>> : e \in S} |-> (CHOOSE e \in S : e.c = x[1] /\ e.s = x[2]).rel]
TNext == LET k == l + 1 IN
  /\ l < Len(Trace) /\ l' = k
  /\ reg' = RegOf(k)
  /\ ver' = [a \in Accts |-> ln(k).st.ver[a]]      \* read back from the registered addresses themselves
  /\ upd' = [c \in Chains |-> ln(k).st.upd[c]]
  /\ rcpt' = {<<x.c, x.s>> : x \in SeqSet(ln(k).st.rcpt)}
  /\ ackrel' = AckMap(k)
  /\ sent' = ln(k).st.sent
  /\ acked' = {s \in 1..ln(k).st.sent : s \notin SeqSet(ln(k).st.commits)}
  /\ paid' = paid /\ priv' = 0
  /\ tssacct' = ln(k).st.tssacct        \* the account whose address the stored TSS client state names
  /\ gTss' = IF ln(k).ev = "Init" THEN "tss" ELSE IF ln(k).ev = "Rotate" /\ ln(k).res = "ok" THEN ln(k).args.to ELSE gTss
  /\ feebal' = [a \in Accts |-> ln(k).st.fee[a]]
  /\ privfp' = ln(k).st.privfp /\ dg' = ln(k).dg
  /\ last' = [act |-> ln(k).ev, res |-> ln(k).res]
  /\ Judge(k) /\ Conform(k)
TSpec == TInit /\ [][TNext]_<<l, reg, ver, upd, rcpt, ackrel, sent, acked, paid, priv, tssacct, gTss, last, feebal, privfp, dg>>
=============================================================================
