SPECIFICATION MSpec
CONSTANTS
  Accts <- AllAccts
  Chains <- AllChains
  Methods <- AllMethods
  Paths <- AllPaths
  Counter <- CounterStr
  Vers = {1, 2, 3}
  MaxSeq = 3
  MaxUpd = 100
  Depth = 16
INVARIANTS Emit
CHECK_DEADLOCK FALSE
