------------------------------ MODULE MC_auth ------------------------------
EXTENDS Auth
CounterTuple(r, c, v) == IF v = 3 THEN <<"any", c, v>> ELSE <<r, c, v>>
AllAccts == {"r1", "r2", "tss", "out"}
SomeAccts == {"r1", "tss", "out"}
AllChains == {"one", "two", "tss"}
TwoChains == {"one", "tss"}
SomeMethods == {"setSequence"}
AllMethods == {"setSequence", "setAckStatus", "setChainName", "sendPacketFeeToRelayer", "packet.onRecvPacket", "OnAcknowledgePacket",
               "bindToken", "enableLimit", "disableLimit", "endpoint.onRecvPacket", "onAcknowledgementPacket"}
SomePaths == {"eoa"}
AllPaths == {"eoa", "contract", "execute", "execute-contract"}
=============================================================================
