--------------------------- MODULE Lifecycle_MBT ---------------------------
EXTENDS Lifecycle, Json, Sequences
CONSTANTS Depth
VARIABLE hist
Pick(S) == RandomElement(S)
MInit == Init /\ hist = <<>>
Log == hist' = Append(hist, last')
(* mostly valid contents, occasionally the invalid classes *)
Ct == IF Pick(1..5) = 1 THEN Pick(Contents) ELSE IF Pick(1..4) = 1 THEN "altroot" ELSE "valid"
MNext ==
  /\ Len(hist) < Depth
  /\ \E w \in {Pick(1..10)}, n \in {Pick(Names)}, ty \in {Pick(Types)}, h \in {Pick(1..peerH)}, ct \in {Ct}, s \in {Pick(Signers)} :
       \/ w = 1 /\ PeerCommit
       \/ w \in {2, 3} /\ UNCHANGED peerH /\ CreateEff(n, ty, h, ct)  /\ last' = Prop("Create", n, ty, h, ct, CreateOK(n, ty, h, ct))
       \/ w \in {4, 5} /\ UNCHANGED peerH /\ UpgradeEff(n, ty, h, ct) /\ last' = Prop("Upgrade", n, ty, h, ct, UpgradeOK(n, ty, h, ct))
       \/ w \in {6, 7} /\ UNCHANGED peerH /\ ToggleEff(n, ty, h, ct)  /\ last' = Prop("Toggle", n, ty, h, ct, ToggleOK(n, ty, h, ct))
       \/ w >= 8 /\ UNCHANGED peerH /\ UpdateEff(n, h, s)
                 /\ last' = [act |-> "Update", res |-> Res(UpdateOK(n, h, s)), n |-> n, h |-> h, signer |-> s]
  /\ Log
MSpec == MInit /\ [][MNext]_<<vars, hist>>
Emit == Len(hist) = Depth => PrintT(<<"MBT", ToJson(hist)>>)
=============================================================================
