SPECIFICATION MSpec
CONSTANTS
  Names = {"na", "nb"}
  Types = {"tm", "tss"}
  MaxH = 6
  Contents = {"valid", "altroot", "wrongcons", "badname"}
  Signers = {"relayer", "tss", "outsider"}
  UpgradeSetsMeta = TRUE
  Depth = 12
INVARIANTS Emit
CHECK_DEADLOCK FALSE
