-------------------------- MODULE Lifecycle_Trace --------------------------
(* Trace validation for Lifecycle.tla: clients[n] is bound to the projection of the REAL client store after    *)
(* every step; `probe` records, from discarded cache contexts, whether the installed client is usable.         *)
EXTENDS Integers, Sequences, FiniteSets, TLC, Json, IOUtils
CONSTANTS Names, UpgradeSetsMeta
Trace == ndJsonDeserialize(IOEnv.TRACE_FILE)
VARIABLES l, clients, peerH, last
Types == {}
MaxH == 1000
Contents == {}
Signers == {}
INSTANCE Lifecycle
SetOf(s) == {s[i] : i \in DOMAIN s}
ln(k) == Trace[k]
B_client(r) == IF r.type = "none" THEN None
               ELSE [type |-> r.type, latest |-> r.latest, cons |-> SetOf(r.cons), meta |-> SetOf(r.meta)]
TInit == l = 0 /\ clients = [n \in Names |-> None] /\ peerH = 1 /\ last = [act |-> "None", res |-> "ok"]
Report(k, name, holds) == holds \/ PrintT(<<"VIOL", k, name>>)
IsProposal(k) == ln(k).ev \in {"Create", "Upgrade", "Toggle"}
Touched(k) == ln(k).args.n
Judge(k) ==
  /\ Report(k, "C18.Initialised", InitialisedInv')
  /\ Report(k, "C18.NoPartialMetadata", \A n \in Names : ln(k).st[n].type # "none" => (ln(k).st[n].partial = 0 /\ ln(k).st[n].other = 0))
  /\ Report(k, "C18.TssKeepsNothing", TssKeepsNothing')
  /\ ln(k).ev # "Reset" =>
     /\ Report(k, "C18.FailureChangesNothing", ln(k).res # "ok" => (ln(k).dg.pre = ln(k).dg.post /\ clients' = clients))
     /\ (IsProposal(k) /\ ln(k).res = "ok") =>
          /\ Report(k, "C18.InstallsExactly", ln(k).installed)
          /\ Report(k, "C18.UsableActive", ln(k).probe[Touched(k)].status = "Active")
          /\ Report(k, "C18.UsableProof", ln(k).args.ct = "valid" => ln(k).probe[Touched(k)].verify = "ok")   \* (a state root governance chose differently proves nothing of the counterparty)
          /\ Report(k, "C18.UsableUpdate", ln(k).probe[Touched(k)].update = "ok")
          /\ Report(k, "C18.CreateOnlyUnused", ln(k).ev = "Create" => clients[Touched(k)] = None)
          /\ Report(k, "C18.UpgradeKeepsType", ln(k).ev = "Upgrade" => (clients[Touched(k)] # None /\ clients'[Touched(k)].type = clients[Touched(k)].type))
          /\ Report(k, "C18.ToggleChangesType", ln(k).ev = "Toggle" => (clients[Touched(k)] # None /\ clients'[Touched(k)].type # clients[Touched(k)].type))
     /\ (IsProposal(k) /\ ln(k).args.ct = "badname") => Report(k, "C18.ValidNameOnly", ln(k).res # "ok")
     (* a valid header from the authorised account succeeds for every client type *)
     /\ (ln(k).ev = "Update" /\ UpdateOK(ln(k).args.n, ln(k).args.h, ln(k).args.signer)) => Report(k, "C18.ValidUpdateSucceeds", ln(k).res = "ok")
C_Step(k) ==
  LET a == ln(k).args IN
  CASE ln(k).ev = "PeerCommit" -> clients' = clients
    [] ln(k).ev = "Lapse" -> clients' = clients
    [] ln(k).ev = "Create"  -> CreateEff(a.n, a.ty, a.h, a.ct)  /\ (ln(k).res = "ok") = CreateOK(a.n, a.ty, a.h, a.ct)
    [] ln(k).ev = "Upgrade" -> UpgradeEff(a.n, a.ty, a.h, a.ct) /\ (ln(k).res = "ok") = UpgradeOK(a.n, a.ty, a.h, a.ct)
    [] ln(k).ev = "Toggle"  -> ToggleEff(a.n, a.ty, a.h, a.ct)  /\ (ln(k).res = "ok") = ToggleOK(a.n, a.ty, a.h, a.ct)
    [] ln(k).ev = "Update"  -> UpdateEff(a.n, a.h, a.signer)    /\ (ln(k).res = "ok") = UpdateOK(a.n, a.h, a.signer)
    [] OTHER -> FALSE
Conform(k) == ln(k).ev # "Reset" => (C_Step(k) \/ PrintT(<<"DRIFT", k, ln(k).ev>>))
TNext == /\ l < Len(Trace) /\ l' = l + 1
         /\ clients' = [n \in Names |-> B_client(ln(l + 1).st[n])]
         /\ peerH' = ln(l + 1).peerH
         /\ last' = [act |-> ln(l + 1).ev, res |-> ln(l + 1).res]
         /\ Judge(l + 1) /\ Conform(l + 1)
TSpec == TInit /\ [][TNext]_<<l, clients, peerH, last>>
=============================================================================
