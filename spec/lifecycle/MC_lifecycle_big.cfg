SPECIFICATION Spec
CONSTANTS
  Names = {"na", "nb"}
  Types = {"tm", "tss"}
  MaxH = 4
  Contents = {"valid", "altroot", "wrongcons", "badname"}
  Signers = {"relayer", "tss", "outsider"}
  UpgradeSetsMeta = TRUE
INVARIANTS InitialisedInv ConsHaveMeta TssKeepsNothing
PROPERTIES FailureChangesNothing UpgradeKeepsType ToggleChangesType CreateOnlyUnused
VIEW view
CHECK_DEADLOCK FALSE
