----------------------------- MODULE Lifecycle -----------------------------
(***************************************************************************)
(* Client lifecycle (x/xibc/core/client/keeper/{client,proposal}.go and    *)
(* the Initialize / UpgradeState / CheckHeaderAndUpdateState of each       *)
(* client type).  One action per passed governance proposal (executed in   *)
(* a cache context: an error discards everything) and per MsgUpdateClient. *)
(* A client is abstracted to its type, latest height, the heights with a   *)
(* consensus state (cons) and the heights with the type's metadata (meta:  *)
(* tendermint processed time + iteration key).                             *)
(***************************************************************************)
EXTENDS Integers, FiniteSets, TLC

CONSTANTS Names, Types, MaxH, Contents, Signers,
          UpgradeSetsMeta     \* TRUE: tendermint UpgradeState records processed time / iteration key (repaired code)

VARIABLES clients,   \* clients[n] = None or [type, latest, cons, meta]
          peerH,     \* committed height of the counterparty chain
          last
vars == <<clients, peerH, last>>
view == <<clients, peerH>>
None == [type |-> "none"]

Fresh(ty, h) == IF ty = "tss" THEN [type |-> "tss", latest |-> 0, cons |-> {}, meta |-> {}]
                ELSE [type |-> ty, latest |-> h, cons |-> {h}, meta |-> {h}]

Init == clients = [n \in Names |-> None] /\ peerH = 1 /\ last = [act |-> "Init", res |-> "ok"]

Res(ok) == IF ok THEN "ok" ELSE "err"

PeerCommit == /\ peerH < MaxH /\ peerH' = peerH + 1 /\ UNCHANGED clients
              /\ last' = [act |-> "PeerCommit", res |-> "ok"]

(* content: "valid" | "altroot" (valid, but the consensus state carries another state root than the counterparty's:   *)
(* what governance installs is what is stored) | "wrongcons" (consensus state of another client type) | "badname"     *)
Valid(ct) == ct \in {"valid", "altroot"}
CreateOK(n, ty, h, ct) == Valid(ct) /\ clients[n] = None
CreateEff(n, ty, h, ct) == IF CreateOK(n, ty, h, ct) THEN clients' = [clients EXCEPT ![n] = Fresh(ty, h)] ELSE UNCHANGED clients

UpgradeOK(n, ty, h, ct) == Valid(ct) /\ clients[n] # None /\ clients[n].type = ty
UpgradeEff(n, ty, h, ct) ==
  IF ~UpgradeOK(n, ty, h, ct) THEN UNCHANGED clients
  ELSE IF ty = "tss" THEN UNCHANGED clients       \* new key material only
  ELSE clients' = [clients EXCEPT ![n] = [@ EXCEPT !.latest = h, !.cons = @ \cup {h},
                                                    !.meta = IF UpgradeSetsMeta THEN @ \cup {h} ELSE @]]

ToggleOK(n, ty, h, ct) == Valid(ct) /\ clients[n] # None /\ clients[n].type # ty
ToggleEff(n, ty, h, ct) == IF ToggleOK(n, ty, h, ct) THEN clients' = [clients EXCEPT ![n] = Fresh(ty, h)] ELSE UNCHANGED clients

(* MsgUpdateClient with the counterparty's real header of height h, signed by s *)
UpdateOK(n, h, s) ==
  /\ clients[n] # None
  /\ \/ /\ clients[n].type = "tm" /\ s \in {"relayer", "tss"}     \* both are registered relayers
        /\ h <= peerH /\ \E t \in clients[n].cons : t < h
     \/ /\ clients[n].type = "tss" /\ s = "tss"
UpdateEff(n, h, s) ==
  IF ~UpdateOK(n, h, s) THEN UNCHANGED clients
  ELSE IF clients[n].type = "tss" THEN UNCHANGED clients   \* new key material only
  ELSE clients' = [clients EXCEPT ![n] = [@ EXCEPT !.cons = @ \cup {h}, !.meta = @ \cup {h},
                                                    !.latest = IF h > @ THEN h ELSE @]]

Prop(act, n, ty, h, ct, ok) == [act |-> act, res |-> Res(ok), n |-> n, ty |-> ty, h |-> h, ct |-> ct]

(* the host chain's clock moves past every trusting period (no update came for weeks): clients of proof-verifying types count as *)
(* expired; nothing stored changes, and in particular a used chain name stays used                                               *)
Lapse == UNCHANGED <<clients, peerH>> /\ last' = [act |-> "Lapse", res |-> "ok"]

Next ==
  \/ Lapse
  \/ PeerCommit
  \/ \E n \in Names, ty \in Types, h \in 1..MaxH, ct \in Contents :
       /\ h <= peerH /\ UNCHANGED peerH
       /\ \/ CreateEff(n, ty, h, ct)  /\ last' = Prop("Create", n, ty, h, ct, CreateOK(n, ty, h, ct))
          \/ UpgradeEff(n, ty, h, ct) /\ last' = Prop("Upgrade", n, ty, h, ct, UpgradeOK(n, ty, h, ct))
          \/ ToggleEff(n, ty, h, ct)  /\ last' = Prop("Toggle", n, ty, h, ct, ToggleOK(n, ty, h, ct))
  \/ \E n \in Names, h \in 1..MaxH, s \in Signers :
       /\ UNCHANGED peerH /\ UpdateEff(n, h, s)
       /\ last' = [act |-> "Update", res |-> Res(UpdateOK(n, h, s)), n |-> n, h |-> h, signer |-> s]

Spec == Init /\ [][Next]_vars

-----------------------------------------------------------------------------
(* C18 *)
Initialised(c) == c.type = "tm" => (c.latest \in c.cons /\ c.latest \in c.meta)
InitialisedInv == \A n \in Names : clients[n] # None => Initialised(clients[n])
ConsHaveMeta == \A n \in Names : (clients[n] # None /\ clients[n].type = "tm") => clients[n].cons = clients[n].meta
TssKeepsNothing == \A n \in Names : (clients[n] # None /\ clients[n].type = "tss") => (clients[n].cons = {} /\ clients[n].meta = {})
FailureChangesNothing == [][last'.res # "ok" => UNCHANGED clients]_vars
UpgradeKeepsType == [][(last'.act = "Upgrade" /\ last'.res = "ok") => clients'[last'.n].type = clients[last'.n].type]_vars
ToggleChangesType == [][(last'.act = "Toggle" /\ last'.res = "ok") => clients'[last'.n].type # clients[last'.n].type]_vars
CreateOnlyUnused == [][(last'.act = "Create" /\ last'.res = "ok") => clients[last'.n] = None]_vars
=============================================================================
