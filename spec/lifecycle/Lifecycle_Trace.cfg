SPECIFICATION TSpec
CONSTANTS
  Names = {"na", "nb"}
  UpgradeSetsMeta = TRUE
CHECK_DEADLOCK FALSE
