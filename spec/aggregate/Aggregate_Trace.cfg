SPECIFICATION TSpec
CONSTANTS
  Coins = {"acoin", "bcoin"}
  ExtContracts = {"x1", "x2", "x3"}
  BonusContracts = {"xb"}
  BadContracts = {"xd", "xm"}
  ReindexAll = TRUE
  CheckNewAddr = TRUE
CHECK_DEADLOCK FALSE
