SPECIFICATION TSpec
CONSTANTS
  Coins = {"acoin", "bcoin"}
  ExtContracts = {"x1", "x2", "x3"}
  BadContracts = {"xd", "xm"}
  ReindexAll = TRUE
  CheckNewAddr = TRUE
CHECK_DEADLOCK FALSE
