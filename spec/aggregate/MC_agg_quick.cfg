SPECIFICATION Spec
CONSTANTS
  Coins = {"acoin", "bcoin"}
  ModContracts <- MCMods
  ExtContracts = {"x1"}
  BonusContracts = {}
  BadContracts = {}
  Amts = {1}
  Start = 2
  Receivers = {"user"}
  ReindexAll = TRUE
  CheckNewAddr = TRUE
INVARIANTS Findable NoDangling NoSharing UniqueIds BackedModuleOwned BackedExternal NonNegative
PROPERTIES StillConvertible RejectChangesNothing
VIEW stateVars
CHECK_DEADLOCK FALSE
