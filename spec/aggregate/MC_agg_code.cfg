SPECIFICATION Spec
CONSTANTS
  Coins = {"acoin", "bcoin"}
  ModContracts <- MCMods
  ExtContracts = {"x1", "x2"}
  BonusContracts = {}
  BadContracts = {}
  Amts = {1}
  Start = 2
  Receivers = {"user"}
  ReindexAll = FALSE
  CheckNewAddr = FALSE
INVARIANTS Findable NoDangling NoSharing UniqueIds BackedModuleOwned BackedExternal NonNegative
PROPERTIES StillConvertible RejectChangesNothing
VIEW stateVars
CHECK_DEADLOCK FALSE
