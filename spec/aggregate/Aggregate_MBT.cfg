SPECIFICATION MSpec
CONSTANTS
  Coins = {"acoin", "bcoin"}
  ModContracts <- MCMods2
  ExtContracts = {"x1", "x2", "x3"}
  BonusContracts = {"xb"}
  BadContracts = {"xd", "xm"}
  Amts = {1, 2, 7}
  Start = 5
  Receivers = {"user", "blocked"}
  ReindexAll = TRUE
  CheckNewAddr = TRUE
  Depth = 14
INVARIANTS Emit
CHECK_DEADLOCK FALSE
