---------------------------- MODULE Aggregate_MBT ----------------------------
EXTENDS Aggregate, Json
CONSTANTS Depth
VARIABLE hist
Pick(S) == RandomElement(S)
Names == Coins \cup {"Name"}
MInit == Init /\ hist = <<>>
Step(eff, act, ok, args) == eff /\ L(act, ok, args)
MNext ==
  /\ Len(hist) < Depth
  /\ \E w \in {Pick(1..20)}, b \in {Pick(Coins)}, n \in {Pick(Names)}, c \in {Pick(Contracts)}, c2 \in {Pick(Contracts)},
        d \in {Pick(Denoms)}, a \in {Pick(Amts)}, r \in {IF Pick(1..6) = 1 THEN "blocked" ELSE "user"} :
       \/ w \in {1, 2}  /\ \E nn \in {IF Pick(1..3) = 1 THEN n ELSE b} :
                             Step(RegisterCoinEff(b, nn), "RegisterCoin", RegisterCoinOK(b, nn), [base |-> b, name |-> nn])
       \/ w \in {3, 4}  /\ \E cc \in {IF DOMAIN byErc20 # {} /\ Pick(1..4) # 1 THEN Pick(DOMAIN byErc20) ELSE c} :
                           \E nn \in {IF Pick(1..3) = 1 THEN n ELSE b} :
                           Step(AddCoinEff(b, nn, cc), "AddCoin", AddCoinOK(b, nn, cc), [base |-> b, name |-> nn, c |-> cc])
       \/ w \in {5, 6}  /\ Step(RegisterERC20Eff(c), "RegisterERC20", RegisterERC20OK(c), [c |-> c])
       \/ w = 7         /\ \E t \in {Pick(Contracts \cup Denoms)} : Step(ToggleEff(t), "Toggle", ToggleOK(t), [t |-> t])
       \/ w \in {8, 9}  /\ \E o \in {IF DOMAIN byErc20 # {} /\ Pick(1..4) # 1 THEN Pick(DOMAIN byErc20) ELSE c} :
                           \E nw \in {Pick(Contracts \ {o})} : Step(UpdateEff(o, nw), "UpdateERC20", UpdateOK(o, nw), [old |-> o, new |-> nw])
       \/ w = 10        /\ (IF Pick(1..4) = 1 THEN \E on \in {Pick(BOOLEAN)} : Step(ParamHookEff(on), "ParamHook", TRUE, [on |-> on])
                            ELSE \E on \in {IF enabled THEN Pick(1..3) # 1 ELSE TRUE} : Step(ParamEff(on), "Param", TRUE, [on |-> on]))
       (* only contracts with a byte code of their own are destroyed: ethermint deletes code by hash, so   *)
       (* destroying one of several contracts with identical byte code kills all of them (harness note)  *)
       \/ w = 11        /\ \E x \in {Pick(BadContracts)} :
                           IF code[x] /\ x \in DOMAIN byErc20 THEN Step(DestroyEff(x), "Destroy", TRUE, [c |-> x])
                           ELSE Step(RegisterERC20Eff(x), "RegisterERC20", RegisterERC20OK(x), [c |-> x])
       \/ w \in 12..15  /\ \E dd \in {IF DOMAIN byDenom # {} /\ Pick(1..4) # 1 THEN Pick(DOMAIN byDenom) ELSE d} :
                             Step(ConvertCoinEff(dd, a, r), "ConvertCoin", ConvertCoinOK(dd, a, r), [d |-> dd, amt |-> a, recv |-> r])
       \/ w \in 16..20  /\ \E p \in {IF pairs # {} /\ Pick(1..4) # 1 THEN Pick(pairs) ELSE [erc20 |-> c, denoms |-> <<d>>]} :
                           (* mostly a denomination of the pair; sometimes one registered to ANOTHER pair, or any *)
                           \E dd \in {IF Pick(1..5) = 1 THEN (IF (DOMAIN byDenom) \ SeqToSet(p.denoms) # {} /\ Pick(1..2) = 1 THEN Pick((DOMAIN byDenom) \ SeqToSet(p.denoms)) ELSE d)
                                       ELSE p.denoms[Pick(DOMAIN p.denoms)]} :
                             Step(ConvertERC20Eff(p.erc20, dd, a, r), "ConvertERC20", ConvertERC20OK(p.erc20, dd, a, r), [c |-> p.erc20, d |-> dd, amt |-> a, recv |-> r])
  /\ hist' = Append(hist, last')
MSpec == MInit /\ [][MNext]_<<vars, hist>>
Emit == Len(hist) = Depth => PrintT(<<"MBT", ToJson(hist)>>)
=============================================================================
