----------------------------- MODULE Aggregate -----------------------------
(***************************************************************************)
(* x/aggregate: the token-pair registry (three store prefixes: pair by id, *)
(* id by ERC-20 address, id by denomination), the governance actions that  *)
(* write it (keeper/proposals.go), the coin <-> ERC-20 conversions         *)
(* (keeper/msg_server.go, mint.go) and the self-destruct clean-up.         *)
(* A pair id is the hash of (erc20 address | first denomination): modelled *)
(* as the tuple <<erc20, denoms[1]>>.                                       *)
(***************************************************************************)
EXTENDS Integers, Sequences, FiniteSets, TLC

CONSTANTS Coins,        \* native coin denominations with a supply, e.g. {"acoin","bcoin"}
          ModContracts, \* sequence of contracts RegisterCoin will deploy, in order: <<"m1","m2">>
          ExtContracts, \* externally deployed standard ERC-20 contracts, e.g. {"x1","x2"}
          BadContracts, \* externally deployed contracts that misbehave on transfer
          BonusContracts, \* external contracts whose transfer credits the recipient amount + amount/2 (taken from the caller): honest
                          \* for an amount of 1, misbehaving from 2 on
          Amts,         \* conversion amounts
          Start,        \* initial coin / token balance of the user
          Receivers,    \* subset of {"user","blocked"}
          ReindexAll,   \* TRUE: UpdateTokenPairERC20 re-creates the index entry of every denomination (repaired code)
          CheckNewAddr  \* TRUE: UpdateTokenPairERC20 refuses a new address that is already registered (repaired code)

VARIABLES enabled,  \* module parameter EnableAggregate
          pairs,    \* set of [erc20, denoms, enabled, owner]
          byErc20,  \* function contract -> pair id
          byDenom,  \* function denomination -> pair id
          meta,     \* denominations with bank metadata
          cbal,     \* cbal[d]: user's coin balance
          escrow,   \* escrow[d]: module account's coin balance
          csup,     \* csup[d]: coin supply
          tbal,     \* tbal[c]: user's token balance
          tesc,     \* tesc[c]: module account's token balance
          tsup,     \* tsup[c]: token supply
          code,     \* code[c]: the contract account still has code
          deployed, \* how many of ModContracts exist
          moved,    \* ghost: first denominations of pairs whose ERC-20 address governance replaced
          last

stateVars == <<enabled, pairs, byErc20, byDenom, meta, cbal, escrow, csup, tbal, tesc, tsup, code, deployed>>
ghostVars == <<moved>>
vars == <<stateVars, moved, last>>

MCMods == <<"m1">>
MCMods2 == <<"m1", "m2">>
SeqToSet(s) == {s[i] : i \in DOMAIN s}
ModSet == SeqToSet(ModContracts)
External == ExtContracts \cup BadContracts \cup BonusContracts
(* the token does not move exactly the requested amount: the conversion is refused (balance check after the transfer) *)
SameMeta == ExtContracts \cup BonusContracts          \* contracts that report the same name, symbol and decimals
Misbehaves(c, a) == c \in BadContracts \/ (c \in BonusContracts /\ a >= 2)
Contracts == ModSet \cup External
Voucher(c) == "agg/" \o c
Denoms == Coins \cup {Voucher(c) : c \in External}
Id(p) == <<p.erc20, p.denoms[1]>>
PairOf(id) == CHOOSE p \in pairs : Id(p) = id
HasPair(id) == \E p \in pairs : Id(p) = id
Res(ok) == IF ok THEN "ok" ELSE "err"

Init ==
  /\ enabled = TRUE /\ pairs = {} /\ byErc20 = <<>> /\ byDenom = <<>> /\ meta = {}
  /\ cbal = [d \in Denoms |-> IF d \in Coins THEN Start ELSE 0]
  /\ escrow = [d \in Denoms |-> 0]
  /\ csup = [d \in Denoms |-> IF d \in Coins THEN Start ELSE 0]
  /\ tbal = [c \in Contracts |-> IF c \in External THEN Start ELSE 0]
  /\ tesc = [c \in Contracts |-> 0]
  /\ tsup = [c \in Contracts |-> IF c \in External THEN Start ELSE 0]
  /\ code = [c \in Contracts |-> c \in External]
  /\ deployed = 0 /\ moved = {}
  /\ last = [act |-> "Init", res |-> "ok"]

Put(f, k, v) == (k :> v) @@ f
Del(f, ks) == [k \in (DOMAIN f) \ ks |-> f[k]]

-----------------------------------------------------------------------------
(* governance *)
RegisterCoinOK(base, name) ==
  /\ enabled /\ name \notin DOMAIN byDenom /\ csup[base] > 0 /\ base \notin meta
  /\ deployed < Len(ModContracts)
RegisterCoinEff(base, name) ==
  IF ~RegisterCoinOK(base, name) THEN UNCHANGED stateVars
  ELSE LET c == ModContracts[deployed + 1]
           p == [erc20 |-> c, denoms |-> <<base>>, enabled |-> TRUE, owner |-> "module"] IN
       /\ deployed' = deployed + 1 /\ code' = [code EXCEPT ![c] = TRUE]
       /\ meta' = meta \cup {base}
       /\ pairs' = pairs \cup {p} /\ byDenom' = Put(byDenom, base, Id(p)) /\ byErc20' = Put(byErc20, c, Id(p))
       /\ UNCHANGED <<enabled, cbal, escrow, csup, tbal, tesc, tsup>>

AddCoinOK(base, name, c) ==
  /\ enabled /\ name \notin DOMAIN byDenom /\ csup[base] > 0 /\ base \notin meta
  /\ c \in DOMAIN byErc20 /\ HasPair(byErc20[c])
AddCoinEff(base, name, c) ==
  IF ~AddCoinOK(base, name, c) THEN UNCHANGED stateVars
  ELSE LET p == PairOf(byErc20[c])
           q == [p EXCEPT !.denoms = Append(@, base)] IN
       /\ meta' = meta \cup {base}
       /\ pairs' = (pairs \ {p}) \cup {q} /\ byDenom' = Put(byDenom, base, Id(q))
       /\ UNCHANGED <<enabled, byErc20, cbal, escrow, csup, tbal, tesc, tsup, code, deployed>>

RegisterERC20OK(c) ==
  /\ enabled /\ c \notin DOMAIN byErc20 /\ c \in Contracts /\ code[c]
  /\ Voucher(c) \notin meta /\ Voucher(c) \notin DOMAIN byDenom
RegisterERC20Eff(c) ==
  IF ~RegisterERC20OK(c) THEN UNCHANGED stateVars
  ELSE LET p == [erc20 |-> c, denoms |-> <<Voucher(c)>>, enabled |-> TRUE, owner |-> "external"] IN
       /\ meta' = meta \cup {Voucher(c)}
       /\ pairs' = pairs \cup {p} /\ byDenom' = Put(byDenom, Voucher(c), Id(p)) /\ byErc20' = Put(byErc20, c, Id(p))
       /\ UNCHANGED <<enabled, cbal, escrow, csup, tbal, tesc, tsup, code, deployed>>

(* token is a contract or a denomination *)
IdOfToken(t) == IF t \in Contracts THEN (IF t \in DOMAIN byErc20 THEN byErc20[t] ELSE <<>>)
                ELSE (IF t \in DOMAIN byDenom THEN byDenom[t] ELSE <<>>)
ToggleOK(t) == IdOfToken(t) # <<>> /\ HasPair(IdOfToken(t))
ToggleEff(t) ==
  IF ~ToggleOK(t) THEN UNCHANGED stateVars
  ELSE LET p == PairOf(IdOfToken(t)) IN
       /\ pairs' = (pairs \ {p}) \cup {[p EXCEPT !.enabled = ~@]}
       /\ UNCHANGED <<enabled, byErc20, byDenom, meta, cbal, escrow, csup, tbal, tesc, tsup, code, deployed>>

(* UpdateTokenPairERC20: the metadata of the pair's first denomination must describe the old contract the way     *)
(* RegisterERC20 writes it, and the new contract must answer the ERC-20 views with the same name and symbol        *)
UpdateOK(old, new) ==
  /\ old \in DOMAIN byErc20 /\ HasPair(byErc20[old])
  /\ LET p == PairOf(byErc20[old]) IN p.denoms[1] = Voucher(old) /\ p.denoms[1] \in meta
  /\ new \in SameMeta /\ old \in SameMeta /\ code[new]     \* same ERC-20 name and symbol as the metadata says
  /\ CheckNewAddr => new \notin DOMAIN byErc20
UpdateEff(old, new) ==
  IF ~UpdateOK(old, new) THEN UNCHANGED stateVars
  ELSE LET p == PairOf(byErc20[old])
           q == [p EXCEPT !.erc20 = new]
           keep == IF ReindexAll THEN SeqToSet(p.denoms) ELSE {p.denoms[1]} IN
       /\ pairs' = (pairs \ {p}) \cup {q}
       /\ byErc20' = Put(Del(byErc20, {old}), new, Id(q))
       /\ byDenom' = [d \in ((DOMAIN byDenom) \ SeqToSet(p.denoms)) \cup keep |-> IF d \in keep THEN Id(q) ELSE byDenom[d]]
       /\ UNCHANGED <<enabled, meta, cbal, escrow, csup, tbal, tesc, tsup, code, deployed>>

(* the module's other parameter (EnableEVMHook) gates nothing that is modelled here: changing it changes no conversion *)
ParamHookEff(b) == UNCHANGED stateVars
ParamEff(b) == enabled' = b /\ UNCHANGED <<pairs, byErc20, byDenom, meta, cbal, escrow, csup, tbal, tesc, tsup, code, deployed>>

(* the contract account loses its code (selfdestruct) *)
DestroyEff(c) == /\ code' = [code EXCEPT ![c] = FALSE]
                 /\ tbal' = [tbal EXCEPT ![c] = 0] /\ tesc' = [tesc EXCEPT ![c] = 0] /\ tsup' = [tsup EXCEPT ![c] = 0]
                 /\ UNCHANGED <<enabled, pairs, byErc20, byDenom, meta, cbal, escrow, csup, deployed>>

-----------------------------------------------------------------------------
(* conversions *)
DeletePairEff(p) ==
  /\ pairs' = pairs \ {p}
  /\ byErc20' = Del(byErc20, {p.erc20})
  /\ byDenom' = Del(byDenom, SeqToSet(p.denoms))

(* MintingEnabled(token, denom): both resolve to the same, existing, enabled pair; receiver not blocked *)
Gate(t, d, recv) ==
  /\ enabled
  /\ IdOfToken(t) # <<>> /\ IdOfToken(d) = IdOfToken(t) /\ HasPair(IdOfToken(t))
  /\ PairOf(IdOfToken(t)).enabled
  /\ recv # "blocked"

(* MsgConvertCoin: coin d -> tokens of the pair's contract, to recv *)
ConvertCoinOK(d, a, recv) ==
  /\ Gate(d, d, recv)
  /\ LET p == PairOf(byDenom[d]) IN
     ~code[p.erc20]                                   \* clean-up path: succeeds, deletes the pair
     \/ /\ cbal[d] >= a
        /\ p.owner = "external" => (tesc[p.erc20] >= a /\ ~Misbehaves(p.erc20, a))
ConvertCoinEff(d, a, recv) ==
  IF ~ConvertCoinOK(d, a, recv) THEN UNCHANGED stateVars
  ELSE LET p == PairOf(byDenom[d])  c == p.erc20 IN
       IF ~code[c] THEN DeletePairEff(p) /\ UNCHANGED <<enabled, meta, cbal, escrow, csup, tbal, tesc, tsup, code, deployed>>
       ELSE IF p.owner = "module"
       THEN /\ cbal' = [cbal EXCEPT ![d] = @ - a] /\ escrow' = [escrow EXCEPT ![d] = @ + a]
            /\ tbal' = [tbal EXCEPT ![c] = @ + a] /\ tsup' = [tsup EXCEPT ![c] = @ + a]
            /\ UNCHANGED <<enabled, pairs, byErc20, byDenom, meta, csup, tesc, code, deployed>>
       ELSE /\ cbal' = [cbal EXCEPT ![d] = @ - a] /\ csup' = [csup EXCEPT ![d] = @ - a]
            /\ tesc' = [tesc EXCEPT ![c] = @ - a] /\ tbal' = [tbal EXCEPT ![c] = @ + a]
            /\ UNCHANGED <<enabled, pairs, byErc20, byDenom, meta, escrow, tsup, code, deployed>>

(* MsgConvertERC20: tokens of contract c -> coin d, to recv *)
ConvertERC20OK(c, d, a, recv) ==
  /\ Gate(c, d, recv)
  /\ LET p == PairOf(byErc20[c]) IN
     ~code[c]
     \/ /\ tbal[c] >= a
        /\ p.owner = "module" => escrow[d] >= a
        /\ p.owner = "external" => ~Misbehaves(c, a)
ConvertERC20Eff(c, d, a, recv) ==
  IF ~ConvertERC20OK(c, d, a, recv) THEN UNCHANGED stateVars
  ELSE LET p == PairOf(byErc20[c]) IN
       IF ~code[c] THEN DeletePairEff(p) /\ UNCHANGED <<enabled, meta, cbal, escrow, csup, tbal, tesc, tsup, code, deployed>>
       ELSE IF p.owner = "module"
       THEN /\ tbal' = [tbal EXCEPT ![c] = @ - a] /\ tsup' = [tsup EXCEPT ![c] = @ - a]
            /\ escrow' = [escrow EXCEPT ![d] = @ - a] /\ cbal' = [cbal EXCEPT ![d] = @ + a]
            /\ UNCHANGED <<enabled, pairs, byErc20, byDenom, meta, csup, tesc, code, deployed>>
       ELSE /\ tbal' = [tbal EXCEPT ![c] = @ - a] /\ tesc' = [tesc EXCEPT ![c] = @ + a]
            /\ csup' = [csup EXCEPT ![d] = @ + a] /\ cbal' = [cbal EXCEPT ![d] = @ + a]
            /\ UNCHANGED <<enabled, pairs, byErc20, byDenom, meta, escrow, tsup, code, deployed>>

-----------------------------------------------------------------------------
(* The chain is restarted from a genesis file written from the module's export, in which an operator spelt the contract *)
(* addresses as exported (EIP-55), in lower case or in upper case - all three pass genesis validation.  The registry   *)
(* that comes out is the one that went in.                                                                             *)
ReimportEff(f) == UNCHANGED stateVars

L(act, ok, args) == /\ last' = [act |-> act, res |-> Res(ok)] @@ args
                    /\ moved' = IF act = "UpdateERC20" /\ ok THEN moved \cup {PairOf(byErc20[args.old]).denoms[1]} ELSE moved

Next ==
  \/ \E b \in Coins, n \in Coins \cup {"Name"} : RegisterCoinEff(b, n) /\ L("RegisterCoin", RegisterCoinOK(b, n), [base |-> b, name |-> n])
  \/ \E b \in Coins, n \in Coins \cup {"Name"}, c \in Contracts : AddCoinEff(b, n, c) /\ L("AddCoin", AddCoinOK(b, n, c), [base |-> b, name |-> n, c |-> c])
  \/ \E c \in Contracts : RegisterERC20Eff(c) /\ L("RegisterERC20", RegisterERC20OK(c), [c |-> c])
  \/ \E t \in Contracts \cup Denoms : ToggleEff(t) /\ L("Toggle", ToggleOK(t), [t |-> t])
  \/ \E o \in Contracts, n \in Contracts : o # n /\ UpdateEff(o, n) /\ L("UpdateERC20", UpdateOK(o, n), [old |-> o, new |-> n])
  \/ \E b \in BOOLEAN : b # enabled /\ ParamEff(b) /\ L("Param", TRUE, [on |-> b])
  \/ \E b \in BOOLEAN : ParamHookEff(b) /\ L("ParamHook", TRUE, [on |-> b])
  \/ \E c \in Contracts : code[c] /\ DestroyEff(c) /\ L("Destroy", TRUE, [c |-> c])
  \/ \E d \in Denoms, a \in Amts, r \in Receivers : ConvertCoinEff(d, a, r) /\ L("ConvertCoin", ConvertCoinOK(d, a, r), [d |-> d, amt |-> a, recv |-> r])
  \/ \E c \in Contracts, d \in Denoms, a \in Amts, r \in Receivers :
        ConvertERC20Eff(c, d, a, r) /\ L("ConvertERC20", ConvertERC20OK(c, d, a, r), [c |-> c, d |-> d, amt |-> a, recv |-> r])

  \/ \E f \in {"same", "lower", "upper"} : ReimportEff(f) /\ L("Reimport", TRUE, [form |-> f])

Spec == Init /\ [][Next]_vars

-----------------------------------------------------------------------------
(* C12 *)
Findable == \A p \in pairs : /\ p.erc20 \in DOMAIN byErc20 /\ byErc20[p.erc20] = Id(p)
                             /\ \A d \in SeqToSet(p.denoms) : d \in DOMAIN byDenom /\ byDenom[d] = Id(p)
NoDangling == /\ \A c \in DOMAIN byErc20 : HasPair(byErc20[c]) /\ PairOf(byErc20[c]).erc20 = c
              /\ \A d \in DOMAIN byDenom : HasPair(byDenom[d]) /\ d \in SeqToSet(PairOf(byDenom[d]).denoms)
NoSharing == \A p, q \in pairs : p # q => (p.erc20 # q.erc20 /\ SeqToSet(p.denoms) \cap SeqToSet(q.denoms) = {})
UniqueIds == \A p, q \in pairs : Id(p) = Id(q) => p = q
(* a coin that could be converted into tokens before a governance action can still be converted back afterwards *)
Convertible(d) == d \in DOMAIN byDenom /\ HasPair(byDenom[d])
Govern == {"RegisterCoin", "AddCoin", "RegisterERC20", "Toggle", "UpdateERC20"}
StillConvertible == [][(last'.act \in Govern) => \A d \in Denoms : Convertible(d) => Convertible(d)']_vars

(* C11 *)
RECURSIVE SumEscrow(_, _)
SumEscrow(ds, i) == IF i > Len(ds) THEN 0 ELSE escrow[ds[i]] + SumEscrow(ds, i + 1)
(* "fully backed": every token in circulation has an escrowed coin behind it (a destroyed contract leaves coins over) *)
BackedModuleOwned == \A p \in pairs : p.owner = "module" => (IF code[p.erc20] THEN tsup[p.erc20] = SumEscrow(p.denoms, 1) ELSE tsup[p.erc20] <= SumEscrow(p.denoms, 1))
(* governance replacing the contract address of a pair moves the backing out of the module's view; the clause is  *)
(* about conversions, so such pairs are excluded (DESIGN.md, C11)                                                 *)
BackedExternal == \A p \in pairs : (p.owner = "external" /\ Len(p.denoms) = 1 /\ p.denoms[1] \notin moved /\ code[p.erc20]) => csup[p.denoms[1]] = tesc[p.erc20]
NonNegative == \A d \in Denoms : cbal[d] >= 0 /\ escrow[d] >= 0 /\ csup[d] >= 0
RejectChangesNothing == [][last'.res = "err" => UNCHANGED stateVars]_vars
=============================================================================
