--------------------------- MODULE Aggregate_Trace ---------------------------
(* Trace validation for Aggregate.tla: the registry variables are bound to the RAW content of the three store   *)
(* prefixes of the real application, balances to the real bank / ERC-20 state.                                   *)
EXTENDS Integers, Sequences, FiniteSets, TLC, Json, IOUtils
CONSTANTS Coins, ExtContracts, BadContracts, BonusContracts, ReindexAll, CheckNewAddr
Trace == ndJsonDeserialize(IOEnv.TRACE_FILE)
VARIABLES l, enabled, pairs, byErc20, byDenom, meta, cbal, escrow, csup, tbal, tesc, tsup, code, deployed, moved, last,
          govOn   \* ground truth kept by the trace: what governance last set the EnableAggregate parameter to (not what the module reads back)
ModContracts == <<"m1", "m2">>
Amts == {}
Start == 5
Receivers == {}
INSTANCE Aggregate
SetOf(s) == {s[i] : i \in DOMAIN s}
ln(k) == Trace[k]
FnOf(list) == LET S == SetOf(list) IN [k \in {x[1] : x \in S} |-> (CHOOSE x \in S : x[1] = k)[2]]
B_pairs(k) == { [erc20 |-> p.erc20, denoms |-> p.denoms, enabled |-> p.enabled, owner |-> p.owner] : p \in SetOf(ln(k).st.pairs) }
TInit == /\ l = 0 /\ govOn = TRUE /\ enabled = TRUE /\ pairs = {} /\ byErc20 = <<>> /\ byDenom = <<>> /\ meta = {}
         /\ cbal = <<>> /\ escrow = <<>> /\ csup = <<>> /\ tbal = <<>> /\ tesc = <<>> /\ tsup = <<>> /\ code = <<>>
         /\ deployed = 0 /\ moved = {} /\ last = [act |-> "None", res |-> "ok"]
Report(k, name, holds) == holds \/ PrintT(<<"VIOL", k, name>>)
IsStep(k) == ln(k).ev # "Reset"
Unchanged(k) == ln(k).dg.pre = ln(k).dg.post /\ UNCHANGED stateVars
A(k) == ln(k).args
UserRecv(k) == A(k).recv = "user"
Judge(k) ==
  /\ Report(k, "C12.Findable", Findable')
  /\ Report(k, "C12.NoDangling", NoDangling')
  /\ Report(k, "C12.NoSharing", NoSharing')
  /\ Report(k, "C12.UniqueIds", UniqueIds')
  /\ Report(k, "C12.KeyIsId", \A p \in SetOf(ln(k).st.pairs) : p.keyok)
  (* ... and found through the registry's own lookups (GetTokenPairID, the TokenPair query) by its address and by each denomination *)
  /\ Report(k, "C12.FoundByLookup", \A p \in SetOf(ln(k).st.pairs) : p.lookups)
  /\ Report(k, "C11.BackedModuleOwned", BackedModuleOwned')
  /\ Report(k, "C11.BackedExternal", BackedExternal')
  /\ Report(k, "C11.NonNegative", NonNegative')
  /\ IsStep(k) =>
     /\ Report(k, "C12.StillConvertible", (ln(k).ev \in Govern) => \A d \in Denoms : Convertible(d) => Convertible(d)')
     (* a restart from the module's own export (contract addresses spelt in any accepted way) gives the same registry back *)
     /\ Report(k, "C12.ReimportKeepsRegistry", ln(k).ev = "Reimport" => (ln(k).res = "ok" /\ pairs' = pairs /\ byErc20' = byErc20 /\ byDenom' = byDenom))
     /\ Report(k, "C12.RejectNoChange", (ln(k).ev \in Govern /\ ln(k).res # "ok") => Unchanged(k))
     /\ Report(k, "C11.RejectNoChange", (ln(k).ev \in {"ConvertCoin", "ConvertERC20"} /\ ln(k).res # "ok") => Unchanged(k))
     (* a pair is enabled or disabled only by its own toggle proposal: what the conversion gate reads is what governance set *)
     /\ Report(k, "C11.EnabledOnlyByToggle", \A d \in Denoms :
                   (d \in DOMAIN byDenom /\ d \in DOMAIN byDenom' /\ HasPair(byDenom[d]) /\ HasPair(byDenom[d])')
                     => (PairOf(byDenom[d]).enabled = PairOf(byDenom[d])'.enabled \/ ln(k).ev = "Toggle"))
     (* conversions are refused while governance has the module disabled - judged on what governance set, by key *)
     /\ Report(k, "C11.GateGoverned", (ln(k).ev \in {"ConvertCoin", "ConvertERC20"} /\ ln(k).res = "ok") => govOn)
     /\ Report(k, "C11.ParamReadsBack", enabled' = govOn')
     /\ Report(k, "C11.Gate", (ln(k).ev \in {"ConvertCoin", "ConvertERC20"} /\ ln(k).res = "ok") =>
                   LET t == IF ln(k).ev = "ConvertCoin" THEN A(k).d ELSE A(k).c IN
                   /\ enabled /\ A(k).recv # "blocked"
                   /\ IdOfToken(t) # <<>> /\ HasPair(IdOfToken(t)) /\ PairOf(IdOfToken(t)).enabled /\ IdOfToken(A(k).d) = IdOfToken(t))
     (* exact amount: the sender loses it on one side, the receiver gains it on the other (receiver = sender's own account here) *)
     /\ Report(k, "C11.ExactCoinToToken", (ln(k).ev = "ConvertCoin" /\ ln(k).res = "ok" /\ pairs' = pairs) =>
                   LET c == PairOf(byDenom[A(k).d]).erc20 IN
                   /\ cbal'[A(k).d] = cbal[A(k).d] - A(k).amt /\ tbal'[c] = tbal[c] + A(k).amt
                   /\ \A d \in Denoms \ {A(k).d} : cbal'[d] = cbal[d]
                   /\ \A x \in Contracts \ {c} : tbal'[x] = tbal[x])
     /\ Report(k, "C11.ExactTokenToCoin", (ln(k).ev = "ConvertERC20" /\ ln(k).res = "ok" /\ pairs' = pairs) =>
                   /\ tbal'[A(k).c] = tbal[A(k).c] - A(k).amt /\ cbal'[A(k).d] = cbal[A(k).d] + A(k).amt
                   /\ \A d \in Denoms \ {A(k).d} : cbal'[d] = cbal[d]
                   /\ \A x \in Contracts \ {A(k).c} : tbal'[x] = tbal[x])
     (* a conversion that ends by removing the pair of a destroyed contract (the clean-up branch) is not a conversion: it moves nothing *)
     /\ Report(k, "C11.CleanupMovesNothing", (ln(k).ev \in {"ConvertCoin", "ConvertERC20"} /\ ln(k).res = "ok" /\ pairs' # pairs) =>
                   (cbal' = cbal /\ escrow' = escrow /\ csup' = csup /\ tbal' = tbal /\ tesc' = tesc))
C_Step(k) ==
  LET a == A(k)  ok == ln(k).res = "ok" IN
  CASE ln(k).ev = "RegisterCoin"  -> RegisterCoinEff(a.base, a.name) /\ ok = RegisterCoinOK(a.base, a.name)
    [] ln(k).ev = "AddCoin"       -> AddCoinEff(a.base, a.name, a.c) /\ ok = AddCoinOK(a.base, a.name, a.c)
    [] ln(k).ev = "RegisterERC20" -> RegisterERC20Eff(a.c) /\ ok = RegisterERC20OK(a.c)
    [] ln(k).ev = "Toggle"        -> ToggleEff(a.t) /\ ok = ToggleOK(a.t)
    [] ln(k).ev = "UpdateERC20"   -> UpdateEff(a.old, a.new) /\ ok = UpdateOK(a.old, a.new)
    [] ln(k).ev = "Param"         -> ParamEff(a.on)
    [] ln(k).ev = "ParamHook"     -> ParamHookEff(a.on)
    [] ln(k).ev = "Destroy"       -> DestroyEff(a.c)
    [] ln(k).ev = "ConvertCoin"   -> ConvertCoinEff(a.d, a.amt, a.recv) /\ ok = ConvertCoinOK(a.d, a.amt, a.recv)
    [] ln(k).ev = "ConvertERC20"  -> ConvertERC20Eff(a.c, a.d, a.amt, a.recv) /\ ok = ConvertERC20OK(a.c, a.d, a.amt, a.recv)
    [] ln(k).ev = "Reimport"      -> ReimportEff(a.form) /\ ok
    [] OTHER -> FALSE
Conform(k) == IsStep(k) => (C_Step(k) \/ PrintT(<<"DRIFT", k, ln(k).ev>>))
TNext ==
  LET k == l + 1  st == ln(k).st IN
  /\ l < Len(Trace) /\ l' = k
  /\ enabled' = st.enabled /\ pairs' = B_pairs(k) /\ byErc20' = FnOf(st.byErc20) /\ byDenom' = FnOf(st.byDenom)
  /\ meta' = SetOf(st.meta)
  /\ cbal' = [d \in Denoms |-> st.cbal[d]] /\ escrow' = [d \in Denoms |-> st.escrow[d]] /\ csup' = [d \in Denoms |-> st.csup[d]]
  /\ tbal' = [c \in Contracts |-> st.tbal[c]] /\ tesc' = [c \in Contracts |-> st.tesc[c]] /\ tsup' = [c \in Contracts |-> st.tsup[c]]
  /\ code' = [c \in Contracts |-> st.code[c]] /\ deployed' = st.deployed
  /\ moved' = IF ln(k).ev = "Reset" THEN {}
              ELSE IF ln(k).ev = "UpdateERC20" /\ ln(k).res = "ok" /\ ln(k).args.old \in DOMAIN byErc20 /\ HasPair(byErc20[ln(k).args.old])
                   THEN moved \cup {PairOf(byErc20[ln(k).args.old]).denoms[1]} ELSE moved
  /\ last' = [act |-> ln(k).ev, res |-> ln(k).res]
  /\ govOn' = IF ln(k).ev = "Reset" THEN TRUE ELSE IF ln(k).ev = "Param" /\ ln(k).res = "ok" THEN ln(k).args.on ELSE govOn
  /\ Judge(k) /\ Conform(k)
TSpec == TInit /\ [][TNext]_<<l, vars, govOn>>
=============================================================================
