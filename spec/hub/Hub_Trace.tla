----------------------------- MODULE Hub_Trace -----------------------------
(* Binds Hub's variables to the recorded real state of the three applications after every replayed step and judges  *)
(* the relay properties on it (they concern C01-C05 in relay-chain mode: exactly-once per hop, authenticity of what   *)
(* the hub re-emits, end-to-end conservation, one acknowledgement per packet).                                        *)
EXTENDS Integers, Sequences, FiniteSets, TLC, Json, IOUtils
Trace == ndJsonDeserialize(IOEnv.TRACE_FILE)
VARIABLES l, seq, commitsA, ubal, escrow, status, rcptB, commitsB, acksB, hubval, rcptC, acksC, minted, sent, last, hubdg
MaxSeq == 1000
Amts == {}
Funds == 1000
INSTANCE Hub
ln(k) == Trace[k]
SeqSet(s) == {s[i] : i \in DOMAIN s}
Pk(x) == [dst |-> x.dst, seq |-> x.seq, amt |-> x.amt, call |-> x.call]
Tr(x) == <<x.dst, x.seq>>
Report(k, name, holds) == holds \/ PrintT(<<"VIOL", k, name>>)
IsStep(k) == ln(k).ev # "Reset"
OK(k) == ln(k).res = "ok"
A(k) == ln(k).args
P(k) == LET S == {p \in sent : p.dst = A(k).dst /\ p.seq = A(k).seq} IN IF S = {} THEN [dst |-> A(k).dst, seq |-> A(k).seq, amt |-> 0, call |-> "?"] ELSE CHOOSE p \in S : TRUE
TInit == /\ l = 0 /\ seq = <<>> /\ commitsA = {} /\ ubal = 0 /\ escrow = <<>> /\ status = <<>> /\ rcptB = {} /\ commitsB = {} /\ acksB = {} /\ hubval = 0
         /\ rcptC = {} /\ acksC = {} /\ minted = 0 /\ sent = {} /\ last = [act |-> "None", res |-> "ok"] /\ hubdg = ""
Judge(k) ==
  /\ Report(k, "C03.HubHoldsNothing", HubHoldsNothing')
  /\ Report(k, "C02.HubRelaysOnlyCommitted", HubRelaysOnlyCommitted')
  /\ Report(k, "C03.HubConservation", Conservation')
  /\ Report(k, "C03.HubExclusive", Exclusive')
  /\ Report(k, "C05.HubAckIsDestinations", AckIsDestinations')
  /\ Report(k, "C05.UnknownDestinationAcked", UnknownDestinationRefundable')
  /\ IsStep(k) =>
     /\ Report(k, "C01.HubOncePerHop", /\ rcptB \subseteq rcptB' /\ rcptC \subseteq rcptC' /\ acksB \subseteq acksB' /\ acksC \subseteq acksC'
                                      /\ \A t \in DOMAIN status : status[t] # 0 => (t \in DOMAIN status' /\ status'[t] = status[t]))
     /\ Report(k, "C01.HubDupRejected", (ln(k).ev = "HubRecv" /\ Tr(A(k)) \in rcptB) => ~OK(k))
     /\ Report(k, "C01.DstDupRejected", (ln(k).ev = "DstRecv" /\ Tr(A(k)) \in rcptC) => ~OK(k))
     (* authenticity per hop: accepted only if the proving chain holds exactly that commitment / acknowledgement *)
     /\ Report(k, "C02.HubRecvAuthentic", (ln(k).ev = "HubRecv" /\ OK(k)) => P(k) \in commitsA)
     /\ Report(k, "C02.DstRecvAuthentic", (ln(k).ev = "DstRecv" /\ OK(k)) => (P(k) \in commitsB /\ A(k).via = "hub"))
     /\ Report(k, "C02.HubAckAuthentic", (ln(k).ev = "HubAck" /\ OK(k)) => (P(k) \in commitsB /\ [t |-> Tr(A(k)), code |-> A(k).code] \in acksC))
     /\ Report(k, "C02.SrcAckAuthentic", (ln(k).ev = "SrcAck" /\ OK(k)) => (P(k) \in commitsA /\ [t |-> Tr(A(k)), code |-> A(k).code] \in acksB))
     (* the hub executes nothing: its evm, bank and aggregate stores change with no relayed message *)
     /\ Report(k, "C03.HubStoresUntouched", (ln(k).ev \in {"HubRecv", "HubAck"}) => hubdg' = hubdg)
     /\ Report(k, "C02.RejectNoChange", ~OK(k) => ln(k).dg.pre = ln(k).dg.post)
C_Step(k) ==
  CASE ln(k).ev = "Send" -> SendEff(A(k).dst, A(k).amt, A(k).call) /\ OK(k) = SendOK(A(k).dst, A(k).amt)
    [] ln(k).ev = "HubRecv" -> HubRecvEff(P(k)) /\ OK(k) = HubRecvOK(P(k))
    [] ln(k).ev = "DstRecv" -> DstRecvEff(P(k), A(k).via) /\ OK(k) = DstRecvOK(P(k), A(k).via)
    [] ln(k).ev = "HubAck" -> HubAckEff(P(k), A(k).code) /\ OK(k) = HubAckOK(P(k), A(k).code)
    [] ln(k).ev = "SrcAck" -> SrcAckEff(P(k), A(k).code) /\ OK(k) = SrcAckOK(P(k), A(k).code)
    [] OTHER -> FALSE
Conform(k) == IsStep(k) => (C_Step(k) \/ PrintT(<<"DRIFT", k, ln(k).ev>>))
Pks(s) == {Pk(x) : x \in SeqSet(s)}
Aks(s) == {[t |-> Tr(x), code |-> x.code] : x \in SeqSet(s)}
TNext == LET k == l + 1  st == ln(k).st IN
  /\ l < Len(Trace) /\ l' = k
  /\ seq' = [d \in Dsts |-> st.seq[d]] /\ commitsA' = Pks(st.commitsA) /\ ubal' = st.ubal /\ escrow' = [d \in Dsts |-> st.escrow[d]]
  /\ status' = LET S == SeqSet(st.status) IN [t \in {Tr(x) : x \in S} |-> (CHOOSE x \in S : Tr(x) = t).v]
  /\ rcptB' = {Tr(x) : x \in SeqSet(st.rcptB)} /\ commitsB' = Pks(st.commitsB) /\ acksB' = Aks(st.acksB) /\ hubval' = st.hubval
  /\ rcptC' = {Tr(x) : x \in SeqSet(st.rcptC)} /\ acksC' = Aks(st.acksC) /\ minted' = st.minted
  /\ sent' = Pks(st.sent) /\ hubdg' = st.hubdg
  /\ last' = [act |-> ln(k).ev, res |-> ln(k).res]
  /\ Judge(k) /\ Conform(k)
TSpec == TInit /\ [][TNext]_<<l, vars, hubdg>>
=============================================================================
