SPECIFICATION Spec
CONSTANTS
  MaxSeq = 2
  Amts = {1, 2}
  Funds = 3
INVARIANTS HubHoldsNothing HubRelaysOnlyCommitted Conservation Exclusive AckIsDestinations UnknownDestinationRefundable
PROPERTIES OncePerHop RejectChangesNothing
CHECK_DEADLOCK FALSE
