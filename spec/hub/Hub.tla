-------------------------------- MODULE Hub --------------------------------
(***************************************************************************)
(* Teleport as relay chain ("hub").  Chain A sends packets addressed to    *)
(* chain C (or to a chain D the hub has no client for); A, C and D are     *)
(* only connected to the hub B.  The hub receives the packet with a proof  *)
(* from A, stores the same commitment under the same (A, C, seq) path and  *)
(* emits it again (packet.go RecvPacket: "teleport is relayChain");  C     *)
(* receives it with a proof from the hub's store; C's acknowledgement      *)
(* travels back the same way (packet.go AcknowledgePacket: the hub deletes *)
(* its commitment and stores the acknowledgement hash; msg_server.go       *)
(* RecvPacket: "dstChain not found" -> the hub writes an error ack itself).*)
(* Heights and proofs are the subject of XIBC.tla; here every relayer      *)
(* message is preceded by a commit of the proving chain and a client       *)
(* update, so that "proved" means "in the proving chain's store now".      *)
(***************************************************************************)
EXTENDS Integers, FiniteSets, TLC

CONSTANTS MaxSeq,      \* packets per destination
          Amts,        \* transfer amounts
          Funds        \* the sender's initial balance of A's token

Dsts == {"C", "D"}     \* C: the hub has a client; D: it has none
Calls == {"none", "revert"}
T(p) == <<p.dst, p.seq>>

VARIABLES seq,       \* seq[d]  next sequence on A towards d
          commitsA,  \* packets whose commitment A holds
          ubal,      \* sender's balance on A
          escrow,    \* escrow[d] on A
          status,    \* status[T(p)] on A: 0 pending, 1 success, 2 refunded
          rcptB, commitsB, acksB,    \* the hub: receipts, relayed commitments, acknowledgements ([t, code]) it stores
          hubval,    \* everything of value on the hub (token balances, bindings, marks): must never change
          rcptC, acksC, minted,      \* the destination C
          sent,      \* all packets ever sent (ghost)
          last
stateVars == <<seq, commitsA, ubal, escrow, status, rcptB, commitsB, acksB, hubval, rcptC, acksC, minted, sent>>
vars == <<stateVars, last>>

Init == /\ seq = [d \in Dsts |-> 1] /\ commitsA = {} /\ ubal = Funds /\ escrow = [d \in Dsts |-> 0] /\ status = <<>>
        /\ rcptB = {} /\ commitsB = {} /\ acksB = {} /\ hubval = 0 /\ rcptC = {} /\ acksC = {} /\ minted = 0 /\ sent = {}
        /\ last = [act |-> "Init", res |-> "ok"]
Res(ok) == IF ok THEN "ok" ELSE "err"

SendOK(d, a) == ubal >= a
SendEff(d, a, cl) ==
  IF ~SendOK(d, a) THEN UNCHANGED stateVars
  ELSE LET p == [dst |-> d, seq |-> seq[d], amt |-> a, call |-> cl] IN
       /\ seq' = [seq EXCEPT ![d] = @ + 1] /\ commitsA' = commitsA \cup {p} /\ ubal' = ubal - a
       /\ escrow' = [escrow EXCEPT ![d] = @ + a] /\ status' = (T(p) :> 0) @@ status /\ sent' = sent \cup {p}
       /\ UNCHANGED <<rcptB, commitsB, acksB, hubval, rcptC, acksC, minted>>
Send(d, a, cl) == seq[d] <= MaxSeq /\ SendEff(d, a, cl) /\ last' = [act |-> "Send", res |-> Res(SendOK(d, a)), dst |-> d, amt |-> a, call |-> cl]

(* MsgRecvPacket on the hub, proof from A *)
HubRecvOK(p) == p \in commitsA /\ T(p) \notin rcptB
HubRecvEff(p) ==
  IF ~HubRecvOK(p) THEN UNCHANGED stateVars
  ELSE /\ rcptB' = rcptB \cup {T(p)}
       /\ IF p.dst = "C" THEN commitsB' = commitsB \cup {p} /\ UNCHANGED acksB        \* relayed: same commitment, same path
          ELSE acksB' = acksB \cup {[t |-> T(p), code |-> 1]} /\ UNCHANGED commitsB      \* unknown destination: error ack by the hub
       /\ UNCHANGED <<seq, commitsA, ubal, escrow, status, hubval, rcptC, acksC, minted, sent>>
HubRecv(p) == HubRecvEff(p) /\ last' = [act |-> "HubRecv", res |-> Res(HubRecvOK(p)), dst |-> p.dst, seq |-> p.seq]

(* MsgRecvPacket on C.  via = "hub": proof from the hub's store; via = "direct": a proof from A's store (C's client of *)
(* "A" follows the hub, so that proves nothing)                                                                        *)
DstRecvOK(p, via) == via = "hub" /\ p.dst = "C" /\ p \in commitsB /\ T(p) \notin rcptC
Code(p) == IF p.call = "revert" THEN 3 ELSE 0
DstRecvEff(p, via) ==
  IF ~DstRecvOK(p, via) THEN UNCHANGED stateVars
  ELSE /\ rcptC' = rcptC \cup {T(p)} /\ acksC' = acksC \cup {[t |-> T(p), code |-> Code(p)]}
       /\ minted' = minted + (IF Code(p) = 0 THEN p.amt ELSE 0)
       /\ UNCHANGED <<seq, commitsA, ubal, escrow, status, rcptB, commitsB, acksB, hubval, sent>>
DstRecv(p, via) == DstRecvEff(p, via) /\ last' = [act |-> "DstRecv", res |-> Res(DstRecvOK(p, via)), dst |-> p.dst, seq |-> p.seq, via |-> via]

(* MsgAcknowledgement on the hub, proof from C; code = the code the message carries *)
HubAckOK(p, code) == p \in commitsB /\ [t |-> T(p), code |-> code] \in acksC
HubAckEff(p, code) ==
  IF ~HubAckOK(p, code) THEN UNCHANGED stateVars
  ELSE /\ commitsB' = commitsB \ {p} /\ acksB' = acksB \cup {[t |-> T(p), code |-> code]}
       /\ UNCHANGED <<seq, commitsA, ubal, escrow, status, rcptB, hubval, rcptC, acksC, minted, sent>>
HubAck(p, code) == HubAckEff(p, code) /\ last' = [act |-> "HubAck", res |-> Res(HubAckOK(p, code)), dst |-> p.dst, seq |-> p.seq, code |-> code]

(* MsgAcknowledgement on A, proof from the hub *)
SrcAckOK(p, code) == p \in commitsA /\ [t |-> T(p), code |-> code] \in acksB
SrcAckEff(p, code) ==
  IF ~SrcAckOK(p, code) THEN UNCHANGED stateVars
  ELSE /\ commitsA' = commitsA \ {p} /\ status' = [status EXCEPT ![T(p)] = IF code = 0 THEN 1 ELSE 2]
       /\ IF code # 0 THEN ubal' = ubal + p.amt /\ escrow' = [escrow EXCEPT ![p.dst] = @ - p.amt] ELSE UNCHANGED <<ubal, escrow>>
       /\ UNCHANGED <<seq, rcptB, commitsB, acksB, hubval, rcptC, acksC, minted, sent>>
SrcAck(p, code) == SrcAckEff(p, code) /\ last' = [act |-> "SrcAck", res |-> Res(SrcAckOK(p, code)), dst |-> p.dst, seq |-> p.seq, code |-> code]

Codes == {0, 1, 3}
Next == \/ \E d \in Dsts, a \in Amts, cl \in Calls : Send(d, a, cl)
        \/ \E p \in sent : HubRecv(p)
        \/ \E p \in sent, via \in {"hub", "direct"} : DstRecv(p, via)
        \/ \E p \in sent, c \in Codes : HubAck(p, c)
        \/ \E p \in sent, c \in Codes : SrcAck(p, c)
Spec == Init /\ [][Next]_vars

-----------------------------------------------------------------------------
RECURSIVE SumAmt(_)
SumAmt(S) == IF S = {} THEN 0 ELSE LET x == CHOOSE y \in S : TRUE IN x.amt + SumAmt(S \ {x})
DeliveredOK(p) == [t |-> T(p), code |-> 0] \in acksC /\ p.dst = "C"
Refunded(p) == T(p) \in DOMAIN status /\ status[T(p)] = 2
(* the hub is a pure relay: nothing of value ever moves on it *)
HubHoldsNothing == hubval = 0
(* what the hub re-emits is what A committed, under the same path *)
HubRelaysOnlyCommitted == commitsB \subseteq sent /\ \A p \in commitsB : p.dst = "C" /\ T(p) \in rcptB
(* end to end: A's escrow towards C = minted on C + in flight; towards D = in flight *)
Conservation == /\ escrow["C"] = minted + SumAmt({p \in sent : p.dst = "C" /\ ~DeliveredOK(p) /\ ~Refunded(p)})
                /\ escrow["D"] = SumAmt({p \in sent : p.dst = "D" /\ ~Refunded(p)})
Exclusive == \A p \in sent : ~(DeliveredOK(p) /\ Refunded(p))
(* the acknowledgement the hub stores for a relayed packet is the destination's *)
AckIsDestinations == \A x \in acksB : (x.t[1] = "C" => x \in acksC) /\ (x.t[1] = "D" => x.code = 1)
OncePerHop == [][/\ rcptB \subseteq rcptB' /\ rcptC \subseteq rcptC' /\ acksB \subseteq acksB' /\ acksC \subseteq acksC'
                 /\ \A t \in DOMAIN status : status[t] # 0 => status'[t] = status[t]]_vars
RejectChangesNothing == [][last'.res = "err" => UNCHANGED stateVars]_vars
UnknownDestinationRefundable == \A p \in sent : (p.dst = "D" /\ T(p) \in rcptB) => ([t |-> T(p), code |-> 1] \in acksB)
=============================================================================
