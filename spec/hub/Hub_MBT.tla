------------------------------ MODULE Hub_MBT ------------------------------
EXTENDS Hub, Json, Sequences
CONSTANTS Depth
VARIABLE hist
Pick(S) == RandomElement(S)
MInit == Init /\ hist = <<>>
ToHub == {p \in sent : p \in commitsA /\ T(p) \notin rcptB}
ToDst == {p \in commitsB : T(p) \notin rcptC}
AckableB == {p \in commitsB : \E x \in acksC : x.t = T(p)}
AckableA == {p \in commitsA : \E x \in acksB : x.t = T(p)}
CodeAt(S, p) == (CHOOSE x \in S : x.t = T(p)).code
(* progress steps most of the time, otherwise any message about any sent packet (replays, wrong order, wrong code, wrong proof source) *)
MNext ==
  /\ Len(hist) < Depth
  /\ \E w \in {Pick((IF \E d \in Dsts : seq[d] <= MaxSeq THEN {1, 2, 3} ELSE {}) \cup (IF ToHub # {} THEN {4, 12} ELSE {}) \cup (IF ToDst # {} THEN {5} ELSE {})
                        \cup (IF AckableB # {} THEN {6} ELSE {}) \cup (IF AckableA # {} THEN {7} ELSE {}) \cup (IF sent # {} THEN {8, 9, 10, 11} ELSE {}))} :
       \/ w <= 3 /\ \E d \in {Pick({x \in Dsts : seq[x] <= MaxSeq})}, a \in {Pick(Amts)}, cl \in {Pick(Calls)} : Send(d, a, cl)
       \/ w = 4 /\ ToHub # {} /\ \E p \in {Pick(ToHub)} : HubRecv(p)
       \/ w = 5 /\ ToDst # {} /\ \E p \in {Pick(ToDst)} : DstRecv(p, "hub")
       \/ w = 6 /\ AckableB # {} /\ \E p \in {Pick(AckableB)} : HubAck(p, CodeAt(acksC, p))
       \/ w = 7 /\ AckableA # {} /\ \E p \in {Pick(AckableA)} : SrcAck(p, CodeAt(acksB, p))
       \/ w = 8 /\ sent # {} /\ \E p \in {Pick(sent)} : HubRecv(p)
       \/ w = 9 /\ sent # {} /\ \E p \in {Pick(sent)}, via \in {Pick({"hub", "direct"})} : DstRecv(p, via)
       \/ w = 10 /\ sent # {} /\ \E p \in {Pick(sent)}, c \in {Pick(Codes)} : HubAck(p, c)
       \/ w = 11 /\ sent # {} /\ \E p \in {Pick(sent)}, c \in {Pick(Codes)} : SrcAck(p, c)
       \/ w = 12 /\ ToHub # {} /\ \E p \in {Pick(ToHub)} : DstRecv(p, "direct")
  /\ hist' = Append(hist, last')
MSpec == MInit /\ [][MNext]_<<vars, hist>>
Emit == Len(hist) = Depth => PrintT(<<"MBT", ToJson(hist)>>)
=============================================================================
