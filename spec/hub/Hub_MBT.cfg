SPECIFICATION MSpec
CONSTANTS
  MaxSeq = 3
  Amts = {1, 2}
  Funds = 1000
  Depth = 18
INVARIANTS Emit
CHECK_DEADLOCK FALSE
