---------------------------- MODULE Store_Trace ----------------------------
(* Trace validation for Store.tla: the store variable is bound to the abstract image of the REAL xibc client    *)
(* store after every step; every line also carries the result of a real genesis round trip (export, module      *)
(* validation, InitChain of a fresh application, raw store comparison, second export).                          *)
EXTENDS Integers, Sequences, FiniteSets, TLC, Json, IOUtils
CONSTANTS W, ParserMode, ExportIterKeys, ToggleClears
Trace == ndJsonDeserialize(IOEnv.TRACE_FILE)
VARIABLES l, store, ops
Names == {}
Types == {}
MaxOps == 0
INSTANCE Store
SetOf(s) == {s[i] : i \in DOMAIN s}
Entry(x) == [k |-> x.k, v |-> x.v]
B_store(k) == { Entry(x) : x \in SetOf(Trace[k].store) }
TInit == l = 0 /\ store = {} /\ ops = 0
Report(k, name, holds) == holds \/ PrintT(<<"VIOL", k, name>>)
ln(k) == Trace[k]
Judge(k) ==
  /\ Report(k, "C13.RoundTripLossless", ln(k).rt.missing = <<>> /\ ln(k).rt.extra = <<>>)
  /\ Report(k, "C13.Validates", ln(k).rt.validate = "ok")
  /\ Report(k, "C13.ImportOK", ln(k).rt.init = "ok")
  /\ Report(k, "C13.ReexportEqual", ln(k).rt.equal2)
  /\ Report(k, "C19.ParseBack", \A x \in SetOf(ln(k).rt.missing) : x.v.kind # "cons")
  (* every reader of the code that parses heights out of keys returns every stored consensus height *)
  /\ Report(k, "C19.IteratorReadsBack", ln(k).rb.missing_iter = <<>>)
  /\ Report(k, "C19.QueryReadsBack", ln(k).rb.missing_query = <<>>)
  /\ Report(k, "C19.KnownKeyShapes", \A e \in store' : e.v.kind # "other")
  /\ (ln(k).ev # "Reset" /\ ln(k).res # "ok") => Report(k, "C18.FailureChangesNothing", ln(k).dg.pre = ln(k).dg.post /\ store' = store)
C_Step(k) ==
  LET a == ln(k).args IN
  CASE ln(k).ev = "Create" -> IF CreateOK(a.n) THEN ln(k).res = "ok" /\ CreateEff(a.n, a.ty, a.r, a.h) ELSE ln(k).res # "ok" /\ store' = store
    [] ln(k).ev = "Update" -> IF UpdateOK(a.n, a.r, a.h) THEN ln(k).res = "ok" /\ UpdateEff(a.n, a.r, a.h) ELSE ln(k).res # "ok" /\ store' = store
    [] ln(k).ev = "Toggle" -> IF ToggleOK(a.n, a.ty) THEN ln(k).res = "ok" /\ ToggleEff(a.n, a.ty, a.r, a.h) ELSE ln(k).res # "ok" /\ store' = store
    [] OTHER -> FALSE
C_Lost(k) == { Entry(x) : x \in SetOf(ln(k).rt.missing) } = (store' \ Import(Export(store')))
Conform(k) == /\ (ln(k).ev # "Reset") => (C_Step(k) \/ PrintT(<<"DRIFT", k, ln(k).ev>>))
              /\ (C_Lost(k) \/ PrintT(<<"DRIFT", k, "RoundTripLoss">>))
TNext == /\ l < Len(Trace) /\ l' = l + 1 /\ ops' = ops + 1
         /\ store' = B_store(l + 1)
         /\ Judge(l + 1) /\ Conform(l + 1)
TSpec == TInit /\ [][TNext]_<<l, store, ops>>
=============================================================================
