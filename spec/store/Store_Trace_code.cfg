SPECIFICATION TSpec
CONSTANTS
  W = 2
  ParserMode = "split"
  ExportIterKeys = FALSE
  ToggleClears = FALSE
CHECK_DEADLOCK FALSE
