SPECIFICATION Spec
CONSTANTS
  W = 2
  Names = {"na"}
  Types = {"tm", "tss"}
  ParserMode = "offset"
  ExportIterKeys = TRUE
  ToggleClears = TRUE
  MaxOps = 4
INVARIANTS RoundTrip Valid Idempotent ParseBack Injective
CHECK_DEADLOCK FALSE
