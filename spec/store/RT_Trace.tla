------------------------------ MODULE RT_Trace ------------------------------
(* Genesis round trips of the states the other drivers' behaviours end in (Ethereum and BSC clients with their   *)
(* metadata, packet traffic of the XIBC world, relayer registries, token pairs): one line per chain, judged with  *)
(* the same C13 operators as Store_Trace.  Export, module validation, InitChain of a fresh application, raw       *)
(* comparison of the xibc and aggregate stores and parameter subspaces, second export.                            *)
EXTENDS Integers, Sequences, TLC, Json, IOUtils
Trace == ndJsonDeserialize(IOEnv.TRACE_FILE)
VARIABLE l
ln(k) == Trace[k]
Report(k, name, holds) == holds \/ PrintT(<<"VIOL", k, name>>)
Judge(k) ==
  /\ Report(k, "C13.Validates", ln(k).rt.validate = "ok")
  /\ Report(k, "C13.ImportOK", ln(k).rt.init = "ok")
  /\ Report(k, "C13.RoundTripLossless", ln(k).rt.init = "ok" => (ln(k).rt.nmissing = 0 /\ ln(k).rt.nextra = 0))
  /\ Report(k, "C13.ReexportEqual", ln(k).rt.init = "ok" => ln(k).rt.equal2)
TInit == l = 0
TNext == l < Len(Trace) /\ l' = l + 1 /\ Judge(l + 1)
TSpec == TInit /\ [][TNext]_l
=============================================================================
