----------------------------- MODULE Store_MBT -----------------------------
(* Behaviour generator for Store.tla: random create / update / toggle sequences over all byte patterns *)
EXTENDS Store, Json
CONSTANTS Depth
VARIABLE hist
Pick(S) == RandomElement(S)

Rec(a, n, ty, r, h) == [act |-> a, n |-> n, ty |-> ty, r |-> r, h |-> h]

MInit == Init /\ hist = <<>>
MNext ==
  /\ Len(hist) < Depth
  /\ \E n \in {Pick(Names)}, ty \in {Pick(Types)}, r \in {Pick(Num)}, h \in {Pick(Num)}, w \in {Pick(1..6)} :
       \/ w <= 2 /\ hist' = Append(hist, Rec("Create", n, ty, r, h)) /\ ops' = ops + 1
                 /\ IF CreateOK(n) THEN CreateEff(n, ty, r, h) ELSE UNCHANGED store
       \/ w \in {3, 4} /\ ops' = ops + 1
                 /\ \E rr \in {IF Pick(1..4) = 1 THEN r ELSE
                               (IF \E e \in store : e.v.kind = "cons" /\ e.k[3] = n
                                THEN SubSeq((CHOOSE e \in store : e.v.kind = "cons" /\ e.k[3] = n).k, 7, 6 + W) ELSE r)} :
                      /\ hist' = Append(hist, Rec("Update", n, "tm", rr, h))
                      /\ IF UpdateOK(n, rr, h) THEN UpdateEff(n, rr, h) ELSE UNCHANGED store
       \/ w >= 5 /\ hist' = Append(hist, Rec("Toggle", n, ty, r, h)) /\ ops' = ops + 1
                 /\ IF ToggleOK(n, ty) THEN ToggleEff(n, ty, r, h) ELSE UNCHANGED store
MSpec == MInit /\ [][MNext]_<<vars, hist>>
Emit == Len(hist) = Depth => PrintT(<<"MBT", ToJson(hist)>>)
=============================================================================
