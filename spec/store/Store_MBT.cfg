SPECIFICATION MSpec
CONSTANTS
  W = 2
  Names = {"na", "nb"}
  Types = {"tm", "tss"}
  ParserMode = "offset"
  ExportIterKeys = TRUE
  ToggleClears = TRUE
  MaxOps = 100
  Depth = 8
INVARIANTS Emit
CHECK_DEADLOCK FALSE
