SPECIFICATION TSpec
CONSTANTS
  W = 2
  ParserMode = "offset"
  ExportIterKeys = TRUE
  ToggleClears = TRUE
CHECK_DEADLOCK FALSE
