SPECIFICATION Spec
CONSTANTS
  W = 2
  Names = {"na", "nb"}
  Types = {"tm", "tss"}
  ParserMode = "split"
  ExportIterKeys = FALSE
  ToggleClears = FALSE
  MaxOps = 3
INVARIANTS RoundTrip
CHECK_DEADLOCK FALSE
