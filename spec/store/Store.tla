------------------------------- MODULE Store -------------------------------
(***************************************************************************)
(* Store keys of the XIBC client sub-module, the iterators that parse them *)
(* back, and genesis export / validation / import built from them          *)
(* (x/xibc/core/host/keys.go, core/client/keeper/keeper.go, core/client/   *)
(* genesis.go, light-clients/tendermint/types/{store,genesis}.go, tss).    *)
(*                                                                         *)
(* A key is a sequence of tokens: literal words are atomic tokens, binary  *)
(* parts are sequences of byte tokens.  "x2f" is the byte 0x2f, which IS   *)
(* the separator character '/': strings.Split splits on it wherever it is. *)
(* Numbers are fixed-width big-endian byte strings (W abstract bytes       *)
(* instead of 8).                                                          *)
(***************************************************************************)
EXTENDS Integers, Sequences, FiniteSets, TLC

CONSTANTS W,              \* abstract bytes per uint64
          Names,          \* valid chain names (atomic: validation forbids '/')
          Types,          \* subset of {"tm","tss"}
          ParserMode,     \* "split": strings.Split as in the code before the repair; "offset": fixed offsets
          ExportIterKeys, \* TRUE: tendermint ExportMetadata also exports the iteration keys
          ToggleClears,   \* TRUE: toggling a client clears the old client's store first
          MaxOps

Byte  == {"x2f", "x61", "x00"}
Num   == [1..W -> Byte]
IsSep(t) == t \in {"/", "x2f"}

RECURSIVE SplitAcc(_, _, _)
SplitAcc(k, cur, acc) ==
  IF k = <<>> THEN Append(acc, cur)
  ELSE IF IsSep(Head(k)) THEN SplitAcc(Tail(k), <<>>, Append(acc, cur))
  ELSE SplitAcc(Tail(k), Append(cur, Head(k)), acc)
Split(k) == SplitAcc(k, <<>>, <<>>)          \* strings.Split(key, "/")

(* --- key constructors (host/keys.go, tendermint/types/store.go) ---------- *)
ClientPrefix(n)   == <<"clients", "/", n, "/">>
StateKey(n)       == ClientPrefix(n) \o <<"clientState">>
ConsKey(n, r, h)  == ClientPrefix(n) \o <<"consensusStates", "/">> \o r \o h
ProcKey(n, r, h)  == ConsKey(n, r, h) \o <<"/", "processedTime">>
IterKey(n, r, h)  == ClientPrefix(n) \o <<"iterateConsensusStates">> \o r \o h

VARIABLES store,    \* set of [k, v]: the xibc store (client part); v identifies the value
          ops       \* number of operations so far (bound)
vars == <<store, ops>>

Has(k)  == \E e \in store : e.k = k
Val(k)  == (CHOOSE e \in store : e.k = k).v
Put(s, k, v) == {e \in s : e.k # k} \cup {[k |-> k, v |-> v]}
ClientType(s, n) == (CHOOSE e \in s : e.k = StateKey(n)).v.type
Exists(s, n) == \E e \in s : e.k = StateKey(n)

(* what each client type writes for a consensus state at (r,h)  (Initialize / update) *)
WriteCons(s, n, ty, r, h) ==
  IF ty = "tm"
  THEN Put(Put(Put(s, ConsKey(n, r, h), [kind |-> "cons", type |-> "tm"]),
               ProcKey(n, r, h), [kind |-> "proc"]),
           IterKey(n, r, h), [kind |-> "iter"])
  ELSE s                                         \* tss: no consensus state, no metadata

ClearClient(s, n) == {e \in s : SubSeq(e.k, 1, 4) # ClientPrefix(n)}

Init == store = {} /\ ops = 0

Ord(b) == CASE b = "x00" -> 1 [] b = "x2f" -> 47 [] b = "x61" -> 97 [] OTHER -> 0
RECURSIVE NumVal(_)
NumVal(x) == IF x = <<>> THEN 0 ELSE Ord(x[Len(x)]) + 256 * NumVal(SubSeq(x, 1, Len(x) - 1))

CreateOK(n) == ~Exists(store, n)
CreateEff(n, ty, r, h) ==
  store' = WriteCons(Put(store, StateKey(n), [kind |-> "state", type |-> ty]), n, ty, r, h)
Create(n, ty, r, h) == CreateOK(n) /\ CreateEff(n, ty, r, h) /\ ops' = ops + 1

(* MsgUpdateClient of a tendermint client: same revision as a stored consensus state of lower height *)
UpdateOK(n, r, h) ==
  /\ Exists(store, n) /\ ClientType(store, n) = "tm"
  /\ \E e \in store : /\ e.v.kind = "cons" /\ e.v.type = "tm" /\ Len(e.k) = 6 + 2 * W /\ e.k[3] = n
                       /\ SubSeq(e.k, 7, 6 + W) = r
                       /\ NumVal(SubSeq(e.k, 7 + W, 6 + 2 * W)) < NumVal(h)
UpdateEff(n, r, h) == store' = WriteCons(store, n, "tm", r, h)
Update(n, r, h) == UpdateOK(n, r, h) /\ UpdateEff(n, r, h) /\ ops' = ops + 1

ToggleOK(n, ty) == Exists(store, n) /\ ClientType(store, n) # ty
ToggleEff(n, ty, r, h) ==
  LET base == IF ToggleClears THEN ClearClient(store, n) ELSE store IN
  store' = WriteCons(Put(base, StateKey(n), [kind |-> "state", type |-> ty]), n, ty, r, h)
Toggle(n, ty, r, h) == ToggleOK(n, ty) /\ ToggleEff(n, ty, r, h) /\ ops' = ops + 1

Next == /\ ops < MaxOps
        /\ \E n \in Names, r \in Num, h \in Num :
              \/ \E ty \in Types : Create(n, ty, r, h) \/ Toggle(n, ty, r, h)
              \/ Update(n, r, h)

Spec == Init /\ [][Next]_vars

-----------------------------------------------------------------------------
(* --- the iterators, as written ------------------------------------------ *)
(* Keeper.IterateConsensusStates over the whole store *)
ParsedCons(s) ==
  IF ParserMode = "split"
  THEN { [n |-> Split(e.k)[2][1], rh |-> Split(e.k)[4], type |-> e.v.type] :
           e \in { x \in s : LET p == Split(x.k) IN Len(p) = 4 /\ p[1] = <<"clients">> /\ p[3] = <<"consensusStates">> } }
  ELSE { [n |-> e.k[3], rh |-> SubSeq(e.k, 7, 6 + 2 * W), type |-> e.v.type] :
           e \in { x \in s : Len(x.k) = 6 + 2 * W /\ SubSeq(x.k, 1, 2) = <<"clients", "/">> /\ SubSeq(x.k, 4, 6) = <<"/", "consensusStates", "/">> } }

(* tendermint IterateProcessedTime over one client store (keys relative to the client prefix) *)
ExportedMeta(s, n) ==
  LET rel == { [k |-> SubSeq(e.k, 5, Len(e.k)), v |-> e.v] : e \in { x \in s : Len(x.k) > 4 /\ SubSeq(x.k, 1, 4) = ClientPrefix(n) } }
      proc == IF ParserMode = "split"
              THEN { e \in rel : LET p == Split(e.k) IN Len(p) = 3 /\ p[1] = <<"consensusStates">> /\ p[3] = <<"processedTime">> }
              ELSE { e \in rel : e.v.kind = "proc" }
      iter == IF ExportIterKeys THEN { e \in rel : e.v.kind = "iter" } ELSE {}
  IN IF ClientType(s, n) = "tm" THEN proc \cup iter ELSE {}

ClientsOf(s) == { e.k[3] : e \in { x \in s : x.v.kind = "state" } }

Export(s) == [ clients |-> { [n |-> n, type |-> ClientType(s, n)] : n \in ClientsOf(s) },
               cons    |-> ParsedCons(s),
               meta    |-> UNION { { [n |-> n, k |-> e.k, v |-> e.v] : e \in ExportedMeta(s, n) } : n \in ClientsOf(s) } ]

(* GenesisState.Validate: consensus states belong to a listed client of the same type; heights have the full width *)
Validate(g) == \A c \in g.cons : /\ \E cl \in g.clients : cl.n = c.n /\ cl.type = c.type
                                 /\ Len(c.rh) = 2 * W

Import(g) ==
  { [k |-> ClientPrefix(m.n) \o m.k, v |-> m.v] : m \in g.meta }
  \cup { [k |-> StateKey(cl.n), v |-> [kind |-> "state", type |-> cl.type]] : cl \in g.clients }
  \cup { [k |-> ClientPrefix(c.n) \o <<"consensusStates", "/">> \o c.rh, v |-> [kind |-> "cons", type |-> c.type]] : c \in g.cons }

(* --- C13 / C19 ---------------------------------------------------------- *)
RoundTrip  == Import(Export(store)) = store
Valid      == Validate(Export(store))
Idempotent == Export(Import(Export(store))) = Export(store)
(* C19: every stored consensus height is read back as the height it was written for *)
ParseBack  == \A e \in store : e.v.kind = "cons" =>
                 \E c \in ParsedCons(store) : ClientPrefix(c.n) \o <<"consensusStates", "/">> \o c.rh = e.k
(* C19: distinct (name, revision, height) give distinct keys *)
Injective  == \A n1, n2 \in Names, r1, r2, h1, h2 \in Num :
                 ConsKey(n1, r1, h1) = ConsKey(n2, r2, h2) => (n1 = n2 /\ r1 = r2 /\ h1 = h2)

(* what a round trip loses (used to predict the real application's losses) *)
Lost == store \ Import(Export(store))
=============================================================================
