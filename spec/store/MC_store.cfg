SPECIFICATION Spec
CONSTANTS
  W = 2
  Names = {"na", "nb"}
  Types = {"tm", "tss"}
  ParserMode = "offset"
  ExportIterKeys = TRUE
  ToggleClears = TRUE
  MaxOps = 3
INVARIANTS RoundTrip Valid Idempotent ParseBack Injective
CHECK_DEADLOCK FALSE
