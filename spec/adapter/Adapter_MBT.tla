---------------------------- MODULE Adapter_MBT ----------------------------
EXTENDS Adapter, Json, Sequences
CONSTANTS Depth
VARIABLE hist
Pick(S) == RandomElement(S)
MInit == Init /\ hist = <<>>
MNext ==
  /\ Len(hist) < Depth
  /\ \E w \in {IF Len(hist) = Depth - 1 /\ Pick(1..2) = 1 THEN 13 ELSE Pick(1..12)}, p \in {IF Pick(1..3) = 1 THEN Pick(Paths) ELSE Pick({"direct", "forward"})}, op \in {Pick(Ops)},
        v \in {IF Pick(1..6) = 1 THEN "unknown" ELSE IF Pick(1..3) = 1 THEN "second" ELSE "valid"}, n \in {IF Pick(1..4) = 1 THEN Pick(Amts) ELSE Pick({1, 2})}, o \in {IF Pick(1..3) = 1 THEN Pick(Options) ELSE Pick({1, 3, 12})} :
       \/ w = 11 /\ \E vv \in {IF Pick(1..3) = 1 THEN "unknown" ELSE "valid"}, o2 \in {IF Pick(1..4) = 1 THEN Pick(Options) ELSE Pick({2, 4})} :
              \E k2 \in {Pick({"plain", "weighted"})} :
              Tx2Eff(vv, o, o2) /\ last' = [act |-> "Tx2", res |-> Res(Tx2OK(vv, o, o2)), val |-> vv, opt |-> o, opt2 |-> o2, kind2 |-> k2]
       \/ w <= 10 /\ TxEff(p, op, v, n, o) /\ last' = [act |-> "Tx", res |-> Res(TxOK(p, op, v, n, o)), path |-> p, op |-> op, val |-> v, amt |-> n, opt |-> o]
       \/ w = 12 /\ ExpireEff /\ last' = [act |-> "Expire", res |-> "ok"]
       (* a slash ends the behaviour: only as the last step *)
       \/ w = 13 /\ Len(hist) = Depth - 1 /\ slashed' = TRUE /\ burned' = burned /\ UNCHANGED <<bal, del, unb, voted, active, redel>> /\ last' = [act |-> "Slash", res |-> "ok"]
  /\ hist' = Append(hist, last')
MSpec == MInit /\ [][MNext]_<<vars, hist>>
Emit == Len(hist) = Depth => PrintT(<<"MBT", ToJson(hist)>>)
=============================================================================
