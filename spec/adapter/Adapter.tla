------------------------------ MODULE Adapter ------------------------------
(***************************************************************************)
(* Staking / governance through the system contracts (adapter/staking,     *)
(* adapter/gov, adapter/common/execute.go, adapter/bank/keeper.go).  The    *)
(* contracts only emit an event naming msg.sender; the EVM post-tx hook    *)
(* turns every such event EMITTED BY THE SYSTEM CONTRACT ADDRESS into the  *)
(* native message signed by that sender; a failing native message fails    *)
(* the hook and thereby reverts the whole EVM transaction.                 *)
(* Call paths: direct (EOA -> contract), forward (EOA -> forwarding        *)
(* contract -> contract: the forwarder is the actor), delegatecall (the    *)
(* event is emitted by the calling contract: ignored), lookalike (another  *)
(* contract emits a log with the same topic and data: ignored), fwdrevert  *)
(* (forwarder calls the contract and then reverts: nothing happens).       *)
(***************************************************************************)
EXTENDS Integers, TLC
CONSTANTS Accts,      \* {"eoa","fwd"}: accounts that can be actors
          Paths, Ops, Amts, Vals, Options, Start, Deposit
VARIABLES bal, del, unb, voted, active, burned, last
stateVars == <<bal, del, unb, voted, active, burned>>
vars == <<stateVars, last>>
Init == /\ bal = [a \in Accts |-> Start] /\ del = [a \in Accts |-> 0] /\ unb = del
        /\ voted = [a \in Accts |-> 0] /\ active = TRUE /\ burned = 0
        /\ last = [act |-> "Init", res |-> "ok"]
Actor(path) == CASE path = "direct" -> "eoa" [] path = "forward" -> "fwd" [] OTHER -> "none"
NativeOK(a, op, v, n, o) ==
  CASE op = "delegate"   -> v = "valid" /\ n > 0 /\ bal[a] >= n
    [] op = "undelegate" -> v = "valid" /\ n > 0 /\ del[a] >= n
    [] op = "withdraw"   -> v = "valid" /\ del[a] > 0
    [] op = "vote"       -> active /\ o \in 1..4
    [] OTHER -> FALSE
(* result of the EVM transaction *)
TxOK(path, op, v, n, o) ==
  CASE path \in {"delegatecall", "lookalike"} -> TRUE      \* no event from the system contract: nothing native happens
    [] path = "fwdrevert" -> FALSE
    [] OTHER -> NativeOK(Actor(path), op, v, n, o)
TxEff(path, op, v, n, o) ==
  IF ~(Actor(path) \in Accts /\ NativeOK(Actor(path), op, v, n, o)) THEN UNCHANGED stateVars
  ELSE LET a == Actor(path) IN
    CASE op = "delegate"   -> bal' = [bal EXCEPT ![a] = @ - n] /\ del' = [del EXCEPT ![a] = @ + n] /\ UNCHANGED <<unb, voted, active, burned>>
      [] op = "undelegate" -> del' = [del EXCEPT ![a] = @ - n] /\ unb' = [unb EXCEPT ![a] = @ + n] /\ UNCHANGED <<bal, voted, active, burned>>
      [] op = "withdraw"   -> UNCHANGED stateVars                         \* no rewards accrue in these behaviours
      [] op = "vote"       -> voted' = [voted EXCEPT ![a] = o] /\ UNCHANGED <<bal, del, unb, active, burned>>
(* the voting period ends without quorum: the deposit is "burned", i.e. moved to the fee collector *)
ExpireEff == IF active THEN active' = FALSE /\ burned' = burned + Deposit /\ voted' = [a \in Accts |-> 0] /\ UNCHANGED <<bal, del, unb>>
             ELSE UNCHANGED stateVars
Res(ok) == IF ok THEN "ok" ELSE "err"
Next ==
  \/ \E p \in Paths, op \in Ops, v \in Vals, n \in Amts, o \in Options :
       TxEff(p, op, v, n, o) /\ last' = [act |-> "Tx", res |-> Res(TxOK(p, op, v, n, o)), path |-> p, op |-> op, val |-> v, amt |-> n, opt |-> o]
  \/ ExpireEff /\ last' = [act |-> "Expire", res |-> "ok"]
Spec == Init /\ [][Next]_vars
(* C17 *)
Conserved == \A a \in Accts : bal[a] + del[a] + unb[a] = Start
NonNegative == \A a \in Accts : bal[a] >= 0 /\ del[a] >= 0 /\ unb[a] >= 0
FailedTxChangesNothing == [][last'.res = "err" => UNCHANGED stateVars]_vars
OnlySystemContractEvents == [][(last'.act = "Tx" /\ last'.path \in {"delegatecall", "lookalike", "fwdrevert"}) => UNCHANGED stateVars]_vars
ForCallerOnly == [][(last'.act = "Tx") => \A a \in Accts \ {Actor(last'.path)} : bal'[a] = bal[a] /\ del'[a] = del[a] /\ unb'[a] = unb[a] /\ voted'[a] = voted[a]]_vars
=============================================================================
