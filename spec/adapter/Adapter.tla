------------------------------ MODULE Adapter ------------------------------
(***************************************************************************)
(* Staking / governance through the system contracts (adapter/staking,     *)
(* adapter/gov, adapter/common/execute.go, adapter/bank/keeper.go).  The    *)
(* contracts only emit an event naming msg.sender; the EVM post-tx hook    *)
(* turns every such event EMITTED BY THE SYSTEM CONTRACT ADDRESS into the  *)
(* native message signed by that sender; a failing native message fails    *)
(* the hook and thereby reverts the whole EVM transaction.                 *)
(* Call paths: direct (EOA -> contract), forward (EOA -> forwarding        *)
(* contract -> contract: the forwarder is the actor), delegatecall (the    *)
(* event is emitted by the calling contract: ignored), lookalike (another  *)
(* contract emits a log with the same topic and data: ignored), fwdrevert  *)
(* (forwarder calls the contract and then reverts: nothing happens).       *)
(***************************************************************************)
EXTENDS Integers, TLC
CONSTANTS Accts,      \* {"eoa","fwd"}: accounts that can be actors
          Paths, Ops, Amts, Vals, Options, Start, Deposit
V == {"v1", "v2"}                 \* the two bonded validators
Target(v) == CASE v = "valid" -> "v1" [] v = "second" -> "v2" [] OTHER -> "none"
Other(x) == IF x = "v1" THEN "v2" ELSE "v1"
VARIABLES bal, del, unb, voted, active, burned,
          slashed, \* validator v2 was slashed for a double sign (BeginBlock evidence); the behaviour ends there: shares no longer equal tokens
          redel,   \* redel[a] = set of <<src, dst>> redelegations of a still maturing (a validator that received one cannot be redelegated from)
          last
stateVars == <<bal, del, unb, voted, active, burned, redel, slashed>>
vars == <<stateVars, last>>
Init == /\ bal = [a \in Accts |-> Start] /\ del = [a \in Accts |-> [x \in V |-> 0]] /\ unb = [a \in Accts |-> 0] /\ redel = [a \in Accts |-> {}]
        /\ voted = [a \in Accts |-> 0] /\ active = TRUE /\ burned = 0 /\ slashed = FALSE
        /\ last = [act |-> "Init", res |-> "ok"]
(* mixed: a contract makes the genuine call for itself (it is the actor) and then emits, from its own address, a look-alike *)
(* of the same event naming the externally owned account: one real event and one look-alike in the same receipt          *)
Actor(path) == CASE path = "direct" -> "eoa" [] path = "forward" -> "fwd" [] path = "mixed" -> "mix" [] OTHER -> "none"
NativeOK(a, op, v, n, o) ==
  CASE op = "delegate"   -> Target(v) \in V /\ n > 0 /\ bal[a] >= n
    [] op = "undelegate" -> Target(v) \in V /\ n > 0 /\ del[a][Target(v)] >= n
    [] op = "withdraw"   -> Target(v) \in V /\ del[a][Target(v)] > 0
    (* redelegate from Target(v) to the other validator; the staking module refuses a source that is itself the *)
    (* destination of a maturing redelegation of the same delegator                                              *)
    [] op = "redelegate" -> /\ Target(v) \in V /\ n > 0 /\ del[a][Target(v)] >= n
                            /\ ~(\E r \in redel[a] : r[2] = Target(v))
    [] op = "vote"       -> active /\ o \in 1..4
    (* weighted vote: one option with the whole weight (o in 1..4) or options 1 and 2 with half each (o = 12); 31 and 32  *)
    (* stand for a single option with a weight of 30% resp. 250%: the weights do not add up to 1, the native vote fails    *)
    [] op = "votew"      -> active /\ o \in (1..4) \cup {12}
    [] OTHER -> FALSE
(* result of the EVM transaction *)
TxOK(path, op, v, n, o) ==
  CASE path \in {"delegatecall", "lookalike"} -> TRUE      \* no event from the system contract: nothing native happens
    [] path = "fwdrevert" -> FALSE
    [] OTHER -> NativeOK(Actor(path), op, v, n, o)
TxEff(path, op, v, n, o) ==
  IF ~(Actor(path) \in Accts /\ NativeOK(Actor(path), op, v, n, o)) THEN UNCHANGED stateVars
  ELSE LET a == Actor(path) IN
    CASE op = "delegate"   -> bal' = [bal EXCEPT ![a] = @ - n] /\ del' = [del EXCEPT ![a][Target(v)] = @ + n] /\ UNCHANGED <<unb, voted, active, burned, redel, slashed>>
      [] op = "undelegate" -> del' = [del EXCEPT ![a][Target(v)] = @ - n] /\ unb' = [unb EXCEPT ![a] = @ + n] /\ UNCHANGED <<bal, voted, active, burned, redel, slashed>>
      [] op = "withdraw"   -> UNCHANGED stateVars                         \* no rewards accrue in these behaviours
      [] op = "redelegate" -> /\ del' = [del EXCEPT ![a][Target(v)] = @ - n, ![a][Other(Target(v))] = @ + n]
                              /\ redel' = [redel EXCEPT ![a] = @ \cup {<<Target(v), Other(Target(v))>>}]
                              /\ UNCHANGED <<bal, unb, voted, active, burned, slashed>>
      [] op \in {"vote", "votew"} -> voted' = [voted EXCEPT ![a] = o] /\ UNCHANGED <<bal, del, unb, active, burned, redel, slashed>>
(* A contract that calls the gov contract twice in one transaction (two Voted events of the system contract with the  *)
(* same sender "dbl"): vote o1 on proposal 1 (v = "valid") or on a proposal that does not exist, then vote o2 on        *)
(* proposal 1.  Every event is executed; if any native message fails the whole transaction is reverted.              *)
Tx2OK(v, o1, o2) == active /\ v = "valid" /\ o1 \in 1..4 /\ o2 \in 1..4
Tx2Eff(v, o1, o2) == IF "dbl" \in Accts /\ Tx2OK(v, o1, o2) THEN voted' = [voted EXCEPT !["dbl"] = o2] /\ UNCHANGED <<bal, del, unb, active, burned, redel, slashed>>
                     ELSE UNCHANGED stateVars
(* the voting period ends without quorum: the deposit is "burned", i.e. moved to the fee collector *)
ExpireEff == IF active THEN active' = FALSE /\ burned' = burned + Deposit /\ voted' = [a \in Accts |-> 0] /\ UNCHANGED <<bal, del, unb, redel, slashed>>
             ELSE UNCHANGED stateVars
(* Double-sign evidence against validator v2 arrives in BeginBlock: a fraction of what is staked with it - bonded, and    *)
(* unbonding or redelegated since the infraction - is "burned" by the staking module, i.e. (adapter/bank) moved to the  *)
(* fee collector.  How much (rounding of shares) is left open; the behaviour ends here.                                *)
SlashEff == /\ ~slashed /\ slashed' = TRUE /\ \E x \in 0..(2 * Start * 3) : burned' = burned + x
            /\ UNCHANGED <<bal, del, unb, voted, active, redel>>
Res(ok) == IF ok THEN "ok" ELSE "err"
Next0 ==
  \/ \E p \in Paths, op \in Ops, v \in Vals, n \in Amts, o \in Options :
       TxEff(p, op, v, n, o) /\ last' = [act |-> "Tx", res |-> Res(TxOK(p, op, v, n, o)), path |-> p, op |-> op, val |-> v, amt |-> n, opt |-> o]
  \/ \E v \in {"valid", "unknown"}, o1 \in Options, o2 \in Options, k2 \in {"plain", "weighted"} :     \* k2: the second vote is a plain or a weighted one (two kinds of event in one receipt)
       Tx2Eff(v, o1, o2) /\ last' = [act |-> "Tx2", res |-> Res(Tx2OK(v, o1, o2)), val |-> v, opt |-> o1, opt2 |-> o2, kind2 |-> k2]
  \/ ExpireEff /\ last' = [act |-> "Expire", res |-> "ok"]
  \/ SlashEff /\ last' = [act |-> "Slash", res |-> "ok"]
Next == ~slashed /\ Next0
Spec == Init /\ [][Next]_vars
(* C17 *)
Conserved == \A a \in Accts : bal[a] + del[a]["v1"] + del[a]["v2"] + unb[a] = Start
NonNegative == \A a \in Accts : bal[a] >= 0 /\ unb[a] >= 0 /\ \A x \in V : del[a][x] >= 0
FailedTxChangesNothing == [][last'.res = "err" => UNCHANGED stateVars]_vars
OnlySystemContractEvents == [][(last'.act = "Tx" /\ last'.path \in {"delegatecall", "lookalike", "fwdrevert"}) => UNCHANGED stateVars]_vars
OncePerEvent == [][(last'.act = "Tx2" /\ last'.res = "ok") => voted'["dbl"] = last'.opt2]_vars
ForCallerOnly == [][(last'.act = "Tx") => \A a \in Accts \ {Actor(last'.path)} : bal'[a] = bal[a] /\ del'[a] = del[a] /\ unb'[a] = unb[a] /\ voted'[a] = voted[a]]_vars
=============================================================================
