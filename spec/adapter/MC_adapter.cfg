SPECIFICATION Spec
CONSTANTS
  Accts = {"eoa", "fwd"}
  Paths = {"direct", "forward", "delegatecall", "lookalike", "fwdrevert"}
  Ops = {"delegate", "undelegate", "withdraw", "vote"}
  Amts = {0, 1, 2, 9}
  Vals = {"valid", "unknown"}
  Options = {0, 1, 3, 7}
  Start = 3
  Deposit = 1
INVARIANTS Conserved NonNegative
PROPERTIES FailedTxChangesNothing OnlySystemContractEvents ForCallerOnly
VIEW stateVars
CHECK_DEADLOCK FALSE
