SPECIFICATION Spec
CONSTANTS
  Accts = {"eoa", "fwd", "dbl", "mix"}
  Paths = {"direct", "delegatecall", "lookalike", "fwdrevert", "mixed"}
  Ops = {"delegate", "undelegate", "withdraw", "vote", "redelegate", "votew"}
  Amts = {0, 1, 9}
  Vals = {"valid", "second", "unknown"}
  Options = {0, 1, 3, 12, 31}
  Start = 2
  Deposit = 1
INVARIANTS Conserved NonNegative
PROPERTIES FailedTxChangesNothing OnlySystemContractEvents ForCallerOnly
VIEW stateVars
CHECK_DEADLOCK FALSE
