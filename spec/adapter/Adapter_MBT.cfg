SPECIFICATION MSpec
CONSTANTS
  Accts = {"eoa", "fwd"}
  Paths = {"direct", "forward", "delegatecall", "lookalike", "fwdrevert"}
  Ops = {"delegate", "undelegate", "withdraw", "vote"}
  Amts = {0, 1, 2, 9}
  Vals = {"valid", "unknown"}
  Options = {0, 1, 3, 7}
  Start = 5
  Deposit = 1
  Depth = 12
INVARIANTS Emit
CHECK_DEADLOCK FALSE
