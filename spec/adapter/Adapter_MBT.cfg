SPECIFICATION MSpec
CONSTANTS
  Accts = {"eoa", "fwd", "dbl", "mix"}
  Paths = {"direct", "forward", "delegatecall", "lookalike", "fwdrevert", "mixed"}
  Ops = {"delegate", "undelegate", "withdraw", "vote", "redelegate", "votew"}
  Amts = {0, 1, 2, 9}
  Vals = {"valid", "second", "unknown"}
  Options = {0, 1, 3, 7, 12, 31, 32}
  Start = 5
  Deposit = 1
  Depth = 12
INVARIANTS Emit
CHECK_DEADLOCK FALSE
