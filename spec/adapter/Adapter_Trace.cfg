SPECIFICATION TSpec
CONSTANTS
  Accts = {"eoa", "fwd", "dbl", "mix"}
  Start = 5
  Deposit = 1
CHECK_DEADLOCK FALSE
