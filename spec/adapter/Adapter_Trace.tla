--------------------------- MODULE Adapter_Trace ---------------------------
EXTENDS Integers, Sequences, TLC, Json, IOUtils
CONSTANTS Accts, Start, Deposit
Trace == ndJsonDeserialize(IOEnv.TRACE_FILE)
VARIABLES l, bal, del, unb, voted, active, burned, redel, slashed, last
Paths == {}
Ops == {}
Amts == {}
Vals == {}
Options == {}
INSTANCE Adapter
ln(k) == Trace[k]
A(k) == ln(k).args
TInit == l = 0 /\ bal = <<>> /\ del = <<>> /\ unb = <<>> /\ voted = <<>> /\ active = TRUE /\ burned = 0 /\ redel = <<>> /\ slashed = FALSE /\ last = [act |-> "None", res |-> "ok"]
Report(k, name, holds) == holds \/ PrintT(<<"VIOL", k, name>>)
IsStep(k) == ln(k).ev # "Reset"
(* a slash (double-sign evidence in BeginBlock): what the staking module "burns" - from the bonded AND from the not-bonded pool - *)
(* arrives at the fee collector and the total supply is unchanged; amounts are exact decimal strings of base units              *)
JudgeSlash(k) ==
  /\ Report(k, "C17.SlashSupplyUnchanged", ln(k).slash.supply = "0")
  /\ Report(k, "C17.SlashBurnToCollector", ln(k).slash.sink = ln(k).slash.pools)
  /\ Report(k, "C17.SlashHappened", ln(k).slash.pools # "0")
JudgeStep(k) ==
  /\ Report(k, "C17.SupplyUnchanged", ln(k).st.supply = 0)
  /\ Report(k, "C17.Conserved", Conserved')
  /\ IsStep(k) =>
     /\ Report(k, "C17.FailedTxChangesNothing", ln(k).res # "ok" => (ln(k).dg.pre = ln(k).dg.post /\ UNCHANGED stateVars))
     /\ Report(k, "C17.OnlySystemContractEvents", (ln(k).ev = "Tx" /\ A(k).path \in {"delegatecall", "lookalike", "fwdrevert"}) => (ln(k).ndg.pre = ln(k).ndg.post /\ UNCHANGED stateVars))
     /\ Report(k, "C17.ForCallerOnly", ln(k).ev = "Tx" => \A a \in Accts \ {Actor(A(k).path)} : bal'[a] = bal[a] /\ del'[a] = del[a] /\ unb'[a] = unb[a] /\ voted'[a] = voted[a] /\ redel'[a] = redel[a])
     (* exactly the validator, amount and option passed, once *)
     /\ Report(k, "C17.ExactArgs", (ln(k).ev = "Tx" /\ ln(k).res = "ok" /\ Actor(A(k).path) \in Accts) =>
           LET a == Actor(A(k).path) IN
           LET x == Target(A(k).val) IN
           IF A(k).op \in {"delegate", "undelegate", "redelegate"} /\ x \notin V THEN FALSE ELSE   \* executed for a validator that is not bonded
           CASE A(k).op = "delegate"   -> del'[a][x] = del[a][x] + A(k).amt /\ bal'[a] = bal[a] - A(k).amt /\ del'[a][Other(x)] = del[a][Other(x)]
             [] A(k).op = "undelegate" -> del'[a][x] = del[a][x] - A(k).amt /\ unb'[a] = unb[a] + A(k).amt /\ del'[a][Other(x)] = del[a][Other(x)]
             [] A(k).op = "redelegate" -> del'[a][x] = del[a][x] - A(k).amt /\ del'[a][Other(x)] = del[a][Other(x)] + A(k).amt /\ bal'[a] = bal[a] /\ unb'[a] = unb[a]
             [] A(k).op \in {"vote", "votew"} -> voted'[a] = A(k).opt
             [] OTHER -> TRUE)
     (* two events in one transaction: each executed, all or nothing *)
     /\ Report(k, "C17.OncePerEvent", (ln(k).ev = "Tx2" /\ ln(k).res = "ok") => (Tx2OK(A(k).val, A(k).opt, A(k).opt2) /\ voted'["dbl"] = A(k).opt2))
     /\ Report(k, "C17.Tx2ForCallerOnly", ln(k).ev = "Tx2" => \A a \in Accts \ {"dbl"} : bal'[a] = bal[a] /\ del'[a] = del[a] /\ unb'[a] = unb[a] /\ voted'[a] = voted[a])
     (* "burned" coins go to the fee collector: total supply unchanged, the sink gains exactly the deposit *)
     /\ Report(k, "C17.BurnToCollector", ln(k).ev = "Expire" => (burned' - burned = ln(k).st.sink - Trace[k - 1].st.sink))
Judge(k) == IF ln(k).ev = "Slash" THEN JudgeSlash(k) ELSE JudgeStep(k)
C_Step(k) ==
  CASE ln(k).ev = "Tx" -> TxEff(A(k).path, A(k).op, A(k).val, A(k).amt, A(k).opt) /\ (ln(k).res = "ok") = TxOK(A(k).path, A(k).op, A(k).val, A(k).amt, A(k).opt)
    [] ln(k).ev = "Tx2" -> Tx2Eff(A(k).val, A(k).opt, A(k).opt2) /\ (ln(k).res = "ok") = Tx2OK(A(k).val, A(k).opt, A(k).opt2)
    [] ln(k).ev = "Expire" -> ExpireEff
    [] ln(k).ev = "Slash" -> TRUE
    [] OTHER -> FALSE
Conform(k) == IsStep(k) => (C_Step(k) \/ PrintT(<<"DRIFT", k, ln(k).ev>>))
F(k, f) == [a \in Accts |-> ln(k).st[a][f]]
SeqSet(s) == {s[i] : i \in DOMAIN s}
TNext == LET k == l + 1 IN
  /\ l < Len(Trace) /\ l' = k
  /\ bal' = F(k, "bal") /\ del' = [a \in Accts |-> [x \in V |-> ln(k).st[a].del[x]]] /\ unb' = F(k, "unb") /\ voted' = F(k, "voted")
  /\ redel' = [a \in Accts |-> {<<r[1], r[2]>> : r \in SeqSet(ln(k).st[a].redel)}]
  /\ active' = ln(k).st.active /\ burned' = ln(k).st.burned /\ slashed' = (ln(k).ev = "Slash")
  /\ last' = [act |-> ln(k).ev, res |-> ln(k).res]
  /\ Judge(k) /\ Conform(k)
TSpec == TInit /\ [][TNext]_<<l, vars>>
=============================================================================
