SPECIFICATION Spec
CONSTANTS
  ValSets <- MCValSets
  Roots <- MCRoots
  Heights = {2, 3}
  Times = {1, 3}
  MaxNow = 4
  TP = 3
  Drift = 1
  Delay = 1
  TLNum = 1
  TLDen = 3
INVARIANTS MetaForCons LatestHasCons
PROPERTIES AcceptedIsSound StoresExactly LatestMonotone RejectChangesNothing ExpiredAcceptsNothing
VIEW stateVars
CHECK_DEADLOCK FALSE
CONSTRAINT MCBound
