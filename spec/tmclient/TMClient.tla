------------------------------ MODULE TMClient ------------------------------
(***************************************************************************)
(* The tendermint light client of XIBC (light-clients/tendermint/types/    *)
(* update.go, client_state.go, store.go; ClientKeeper.UpdateClient) with   *)
(* tendermint's light.Verify transcribed (VerifyAdjacent /                 *)
(* VerifyNonAdjacent, HeaderExpired, verifyNewHeaderAndVals).              *)
(* A validator set is a function validator -> voting power; its hash is    *)
(* the set itself.  Times are small integers (one unit = one hour in the   *)
(* replay).                                                                *)
(***************************************************************************)
EXTENDS Integers, FiniteSets, TLC

CONSTANTS ValSets,      \* set of functions [subset of validators -> power]
          Heights,      \* header heights
          Times,        \* header times
          MaxNow,
          TP,           \* trusting period
          Drift,        \* max clock drift
          Delay,        \* delay period for proofs
          TLNum, TLDen  \* trust level

(* A height is a pair (revision, block number); it is written as the key rev * 100 + number, so that the numeric   *)
(* order of keys is the order of heights (revision first).                                                       *)
VARIABLES cons,    \* cons[k] = [time, root, next]  consensus states, k a height key
          meta,    \* meta[k] = processed time
          latest,  \* latest height (key) of the client state
          now,     \* block time of the host chain
          last
stateVars == <<cons, meta, latest, now>>
vars == <<stateVars, last>>

(* model-checking values *)
MCValSets == { [a |-> 1, b |-> 1, c |-> 1], [a |-> 2, b |-> 1], [c |-> 1] }
MCValSetsSmall == { [a |-> 1, b |-> 1, c |-> 1], [c |-> 1] }
MCRoots == {"r1"}
MCBound == Cardinality(DOMAIN cons) <= 3
Roots == {"r1", "r2"}
GenValSets == { [a |-> 1, b |-> 1, c |-> 1], [a |-> 2, b |-> 1], [c |-> 1], [a |-> 1, b |-> 2, c |-> 3], [b |-> 1, c |-> 1], [a |-> 3, c |-> 1] }

RECURSIVE Sum(_, _)
Sum(f, S) == IF S = {} THEN 0 ELSE LET x == CHOOSE y \in S : TRUE IN f[x] + Sum(f, S \ {x})
Total(vs) == Sum(vs, DOMAIN vs)
(* voting power of the signers that belong to validator set vs *)
Signed(vs, signers) == Sum(vs, signers \cap DOMAIN vs)
(* only validators of the header's own set have a signature in its commit *)
Eff(hd) == hd.signers \cap DOMAIN hd.vals

RevOf(k) == k \div 100
NumOf(k) == k % 100
Keys == {r * 100 + h : r \in {0, 1}, h \in Heights \cup {1}}
Header == [height : Heights, rev : {0, 1}, time : Times, vals : ValSets, next : ValSets, signers : SUBSET UNION {DOMAIN v : v \in ValSets},
           th : Keys \cup {199}, tvals : ValSets, root : Roots]     \* 199: a height the client never stored
Key(hd) == hd.rev * 100 + hd.height

Expired(t) == t + TP <= now                      \* IsExpired / HeaderExpired: !expiration.After(now)
Active == latest \in DOMAIN cons /\ ~Expired(cons[latest].time)

(* the code's acceptance condition *)
Accept(hd) ==
  /\ Active                                                          \* keeper: Status must be Active
  /\ hd.th \in DOMAIN cons                                           \* trusted consensus state exists
  /\ hd.tvals = cons[hd.th].next                                     \* checkTrustedHeader
  /\ hd.rev = RevOf(hd.th)                                          \* same revision as the trusted height
  /\ hd.height > NumOf(hd.th)
  /\ ~Expired(cons[hd.th].time)                                      \* HeaderExpired(trusted)
  /\ hd.time > cons[hd.th].time                                      \* verifyNewHeaderAndVals
  /\ hd.time < now + Drift
  /\ Signed(hd.vals, Eff(hd)) * 3 > Total(hd.vals) * 2                \* +2/3 of the header's own set
  /\ IF hd.height = NumOf(hd.th) + 1
     THEN hd.vals = cons[hd.th].next                                 \* VerifyAdjacent
     ELSE Signed(hd.tvals, Eff(hd)) * TLDen > Total(hd.tvals) * TLNum      \* VerifyNonAdjacent: trust level of the trusted set

(* the earliest consensus state is pruned when it is expired (only the earliest one is looked at) *)
Earliest == CHOOSE h \in DOMAIN cons : \A g \in DOMAIN cons : h <= g
PruneSet == IF DOMAIN cons # {} /\ Earliest \in DOMAIN meta /\ Expired(cons[Earliest].time) THEN {Earliest} ELSE {}

Restrict(f, S) == [x \in S |-> f[x]]
UpdateEff(hd) ==
  IF ~Accept(hd) THEN UNCHANGED stateVars
  ELSE LET keepC == (DOMAIN cons) \ PruneSet  keepM == (DOMAIN meta) \ PruneSet IN
       /\ cons' = (Key(hd) :> [time |-> hd.time, root |-> hd.root, next |-> hd.next]) @@ Restrict(cons, keepC)
       /\ meta' = (Key(hd) :> now) @@ Restrict(meta, keepM)
       /\ latest' = IF Key(hd) > latest THEN Key(hd) ELSE latest
       /\ UNCHANGED now

(* Governance installs a new client state and consensus state (UpgradeClientProposal), typically for the           *)
(* counterparty's next revision: a consensus state at block h of revision r with the current time.  The consensus   *)
(* states already stored stay; the latest height becomes (r, h) whatever it was (governance is trusted with that).  *)
UpgradeOK == TRUE
(* the consensus state a proposal carries is older than the block that executes it (voting takes time): by two units  *)
(* for even block numbers, not at all for odd ones.  The delay for proofs counts from the execution, not from that date. *)
UpgradeAge(h) == IF h % 2 = 0 /\ now >= 2 THEN 2 ELSE 0
UpgradeEff(r, h, nx, rt) ==
  /\ cons' = (r * 100 + h :> [time |-> now - UpgradeAge(h), root |-> rt, next |-> nx]) @@ cons
  /\ meta' = (r * 100 + h :> now) @@ meta
  /\ latest' = r * 100 + h /\ UNCHANGED now

TickEff(d) == now' = now + d /\ UNCHANGED <<cons, meta, latest>>

(* a proof at height h is honoured *)
VerifyOK(h) == h <= latest /\ h \in DOMAIN cons /\ h \in DOMAIN meta /\ now >= meta[h] + Delay

InitVals == CHOOSE v \in ValSets : TRUE
Init == /\ cons = (1 :> [time |-> 0, root |-> "r1", next |-> InitVals]) /\ meta = (1 :> 0) /\ latest = 1 /\ now = 0
        /\ last = [act |-> "Init", res |-> "ok"]
Res(ok) == IF ok THEN "ok" ELSE "err"
Next ==
  \/ \E hd \in Header : hd.th \in (DOMAIN cons) \cup {199} /\ UpdateEff(hd) /\ last' = [act |-> "Update", res |-> Res(Accept(hd)), hd |-> hd]
  \/ \E d \in 1..2 : now + d <= MaxNow /\ TickEff(d) /\ last' = [act |-> "Tick", res |-> "ok", d |-> d]
  \/ \E r \in {0, 1}, h \in Heights, nx \in ValSets, rt \in Roots : UpgradeEff(r, h, nx, rt) /\ last' = [act |-> "Upgrade", res |-> "ok", rev |-> r, h |-> h, next |-> nx, root |-> rt]
Spec == Init /\ [][Next]_vars

-----------------------------------------------------------------------------
(* C07 *)
(* what the statement demands of an accepted header (trust level clause for levels <= 2/3, see DESIGN.md) *)
Sound(hd) ==
  /\ hd.th \in DOMAIN cons /\ hd.tvals = cons[hd.th].next
  /\ Signed(hd.tvals, Eff(hd)) * TLDen > Total(hd.tvals) * TLNum
  /\ Signed(hd.vals, Eff(hd)) * 3 > Total(hd.vals) * 2
  /\ hd.height > NumOf(hd.th) /\ hd.rev = RevOf(hd.th)
  /\ cons[hd.th].time + TP > now /\ hd.time < now + Drift /\ hd.time > cons[hd.th].time
  /\ Active
AcceptedIsSound == [][(last'.act = "Update" /\ last'.res = "ok") => Sound(last'.hd)]_vars
StoresExactly == [][(last'.act = "Update" /\ last'.res = "ok") =>
                     LET hd == last'.hd IN cons'[Key(hd)] = [time |-> hd.time, root |-> hd.root, next |-> hd.next] /\ meta'[Key(hd)] = now]_vars
LatestMonotone == [][last'.act = "Update" => latest' >= latest]_vars
RejectChangesNothing == [][last'.res = "err" => UNCHANGED stateVars]_vars
ExpiredAcceptsNothing == [][(last'.act = "Update" /\ ~Active) => last'.res = "err"]_vars
MetaForCons == \A h \in DOMAIN cons : h \in DOMAIN meta
LatestHasCons == latest \in DOMAIN cons
=============================================================================
