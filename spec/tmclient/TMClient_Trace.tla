--------------------------- MODULE TMClient_Trace ---------------------------
(* Trace validation for TMClient.tla: cons/meta/latest are bound to the REAL client store after every step;      *)
(* `verify[h]` records whether a proof at height h passes the client's height/delay gate (probe in a cache ctx).  *)
EXTENDS Integers, Sequences, FiniteSets, TLC, Json, IOUtils
CONSTANTS TP, Drift, Delay, TLNum, TLDen
Trace == ndJsonDeserialize(IOEnv.TRACE_FILE)
VARIABLES l, cons, meta, latest, now, last,
          seenAt   \* ground truth kept by the trace itself: the block time at which each stored height (re)entered the store
ValSets == {}
Heights == {}
Times == {}
MaxNow == 0
INSTANCE TMClient
SetOf(s) == {s[i] : i \in DOMAIN s}
ln(k) == Trace[k]
FnOf(list) == LET S == SetOf(list) IN [x \in {e[1] : e \in S} |-> (CHOOSE e \in S : e[1] = x)[2]]
VSet(r) == [v \in DOMAIN r |-> r[v]]
B_cons(k) == LET f == FnOf(ln(k).st.cons) IN [h \in DOMAIN f |-> [time |-> f[h].time, root |-> f[h].root, next |-> VSet(f[h].next)]]
Hd(a) == [height |-> a.height, rev |-> a.rev, time |-> a.time, vals |-> VSet(a.vals), next |-> VSet(a.next), signers |-> SetOf(a.signers),
          th |-> a.th, tvals |-> VSet(a.tvals), root |-> a.root]
TInit == l = 0 /\ cons = <<>> /\ meta = <<>> /\ latest = 0 /\ now = 0 /\ last = [act |-> "None", res |-> "ok"] /\ seenAt = <<>>
Report(k, name, holds) == holds \/ PrintT(<<"VIOL", k, name>>)
IsStep(k) == ln(k).ev # "Reset"
Judge(k) ==
  /\ Report(k, "C07.MetaForCons", MetaForCons')
  /\ Report(k, "C07.LatestHasCons", LatestHasCons')
  (* proofs are honoured only against a stored height not above the latest and only after the delay *)
  /\ Report(k, "C07.ProofGate", \A e \in SetOf(ln(k).verify) : (e[2] = "pass") => VerifyOK(e[1])')
  (* ... the delay counted from the block in which the height was really stored (by an update or by a governance upgrade) *)
  /\ Report(k, "C07.DelaySinceStored", \A e \in SetOf(ln(k).verify) : (e[2] = "pass") => (e[1] \in DOMAIN seenAt' /\ now' >= seenAt'[e[1]] + Delay))
  /\ IsStep(k) =>
     /\ Report(k, "C07.AcceptedIsSound", (ln(k).ev = "Update" /\ ln(k).res = "ok") => Sound(Hd(ln(k).args.hd)))
     /\ Report(k, "C07.StoresExactly", (ln(k).ev = "Update" /\ ln(k).res = "ok") =>
            LET hd == Hd(ln(k).args.hd) IN Key(hd) \in DOMAIN cons' /\ cons'[Key(hd)] = [time |-> hd.time, root |-> hd.root, next |-> hd.next]
                                          /\ Key(hd) \in DOMAIN meta' /\ meta'[Key(hd)] = now)
     /\ Report(k, "C07.LatestMonotone", ln(k).ev = "Update" => latest' >= latest)
     /\ Report(k, "C07.RejectChangesNothing", ln(k).res # "ok" => (ln(k).dg.pre = ln(k).dg.post /\ UNCHANGED <<cons, meta, latest>>))
     /\ Report(k, "C07.ExpiredAcceptsNothing", (ln(k).ev = "Update" /\ ~Active) => ln(k).res # "ok")
C_Step(k) ==
  CASE ln(k).ev = "Update" -> UpdateEff(Hd(ln(k).args.hd)) /\ (ln(k).res = "ok") = Accept(Hd(ln(k).args.hd))
    [] ln(k).ev = "Tick" -> TickEff(ln(k).args.d)
    [] ln(k).ev = "Upgrade" -> UpgradeEff(ln(k).args.rev, ln(k).args.h, VSet(ln(k).args.next), ln(k).args.root) /\ ln(k).res = "ok"
    [] OTHER -> FALSE
C_Gate(k) == \A e \in SetOf(ln(k).verify) : (e[2] = "pass") = VerifyOK(e[1])'
Conform(k) == /\ IsStep(k) => (C_Step(k) \/ PrintT(<<"DRIFT", k, ln(k).ev>>))
              /\ (C_Gate(k) \/ PrintT(<<"DRIFT", k, "ProofGate">>))
TNext == LET k == l + 1 IN
  /\ l < Len(Trace) /\ l' = k
  /\ cons' = B_cons(k) /\ meta' = FnOf(ln(k).st.meta) /\ latest' = ln(k).st.latest /\ now' = ln(k).st.now
  /\ last' = [act |-> ln(k).ev, res |-> ln(k).res]
  /\ seenAt' = LET C == B_cons(k)  t == ln(k).st.now IN
                 [h \in DOMAIN C |-> IF ln(k).ev # "Reset" /\ h \in DOMAIN cons /\ h \in DOMAIN seenAt /\ cons[h] = C[h]
                                         /\ ~(ln(k).ev = "Upgrade" /\ ln(k).res = "ok" /\ h = ln(k).st.latest)
                                      THEN seenAt[h] ELSE t]
  /\ Judge(k) /\ Conform(k)
TSpec == TInit /\ [][TNext]_<<l, vars, seenAt>>
=============================================================================
