SPECIFICATION MSpec
CONSTANTS
  ValSets <- GenValSets
  Heights = {2, 3, 4, 5, 6}
  Times = {1, 2, 3, 4, 5, 6, 7, 8}
  MaxNow = 100
  TP = 3
  Drift = 1
  Delay = 1
  TLNum = 2
  TLDen = 3
  Depth = 10
INVARIANTS Emit
CHECK_DEADLOCK FALSE
