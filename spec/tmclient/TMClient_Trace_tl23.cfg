SPECIFICATION TSpec
CONSTANTS
  TP = 3
  Drift = 1
  Delay = 1
  TLNum = 2
  TLDen = 3
CHECK_DEADLOCK FALSE
