SPECIFICATION TSpec
CONSTANTS
  TP = 3
  Drift = 1
  Delay = 1
  TLNum = 1
  TLDen = 3
CHECK_DEADLOCK FALSE
