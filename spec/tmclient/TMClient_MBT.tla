---------------------------- MODULE TMClient_MBT ----------------------------
EXTENDS TMClient, Json, Sequences
CONSTANTS Depth
VARIABLE hist
Pick(S) == RandomElement(S)
AllVals == UNION {DOMAIN v : v \in ValSets}
MInit == Init /\ hist = << [act |-> "Init", res |-> "ok", vals |-> InitVals] >>
(* mostly well-formed headers with one aspect perturbed *)
GenHeader ==
  \E th \in {IF Pick(1..4) = 1 THEN Pick(Keys) ELSE Pick(DOMAIN cons)} :
  \E h \in {IF Pick(1..5) = 1 THEN Pick(Heights) ELSE Pick({x \in Heights : x > NumOf(th)} \cup {Pick(Heights)})} :
  \E tv \in {IF th \in DOMAIN cons /\ Pick(1..5) # 1 THEN cons[th].next ELSE Pick(ValSets)} :
  \E vs \in {IF h = NumOf(th) + 1 /\ th \in DOMAIN cons /\ Pick(1..5) # 1 THEN cons[th].next ELSE Pick(ValSets)} :
  \E sg \in {IF Pick(1..3) = 1 THEN Pick(SUBSET AllVals) ELSE (DOMAIN vs) \cup (IF Pick(1..2) = 1 THEN DOMAIN tv ELSE {})} :
  \E t \in {IF th \in DOMAIN cons /\ Pick(1..4) # 1 /\ {x \in Times : x > cons[th].time /\ x < now + Drift} # {}
             THEN Pick({x \in Times : x > cons[th].time /\ x < now + Drift}) ELSE Pick(Times)} : \E nx \in {Pick(ValSets)} : \E rv \in {IF Pick(1..8) = 1 THEN 1 - RevOf(th) ELSE RevOf(th)} : \E rt \in {Pick(Roots)} :
     LET hd == [height |-> h, rev |-> rv, time |-> t, vals |-> vs, next |-> nx, signers |-> sg, th |-> th, tvals |-> tv, root |-> rt] IN
     UpdateEff(hd) /\ last' = [act |-> "Update", res |-> Res(Accept(hd)), hd |-> hd]
(* a second header for a height the client already holds, equal to the stored one in time and next validators but with *)
(* another app hash (and a first header for a height a governance upgrade filled)                                     *)
Refillable == {k \in DOMAIN cons : \E th \in DOMAIN cons : RevOf(th) = RevOf(k) /\ NumOf(th) < NumOf(k) /\ cons[th].time < cons[k].time /\ NumOf(k) \in Heights}
GenSameHeight ==
  /\ Refillable # {}
  /\ \E k \in {Pick(Refillable)} :
     \E th \in {Pick({x \in DOMAIN cons : RevOf(x) = RevOf(k) /\ NumOf(x) < NumOf(k) /\ cons[x].time < cons[k].time})} :
     \E vs \in {IF NumOf(k) = NumOf(th) + 1 THEN cons[th].next ELSE Pick(ValSets)} :
     \E rt \in {Pick((Roots \ {cons[k].root}) \cup (IF Pick(1..4) = 1 THEN {cons[k].root} ELSE {}))} :
     LET hd == [height |-> NumOf(k), rev |-> RevOf(k), time |-> cons[k].time, vals |-> vs, next |-> cons[k].next,
                signers |-> (DOMAIN vs) \cup DOMAIN cons[th].next, th |-> th, tvals |-> cons[th].next, root |-> rt] IN
     UpdateEff(hd) /\ last' = [act |-> "Update", res |-> Res(Accept(hd)), hd |-> hd]
MNext ==
  /\ Len(hist) < Depth + 1
  /\ \E w \in {IF Refillable # {} /\ Pick(1..6) = 1 THEN 12 ELSE Pick(1..11)} :
       \/ w = 12 /\ GenSameHeight
       \/ w = 11 /\ \E r \in {IF Pick(1..4) = 1 THEN 0 ELSE 1}, h \in {Pick(Heights)}, nx \in {Pick(ValSets)}, rt \in {Pick(Roots)} :
              UpgradeEff(r, h, nx, rt) /\ last' = [act |-> "Upgrade", res |-> "ok", rev |-> r, h |-> h, next |-> nx, root |-> rt]
       \/ w <= 8 /\ GenHeader
       \/ w \in {9, 10} /\ \E d \in {IF Pick(1..4) = 1 THEN 2 ELSE 1} : TickEff(d) /\ last' = [act |-> "Tick", res |-> "ok", d |-> d]
  /\ hist' = Append(hist, last')
MSpec == MInit /\ [][MNext]_<<vars, hist>>
Emit == Len(hist) = Depth + 1 => PrintT(<<"MBT", ToJson(hist)>>)
=============================================================================
