----------------------------- MODULE TMTrustApa -----------------------------
(* The voting-power tests of the Tendermint client over unbounded integers (Apalache).  tendermint's light package   *)
(* computes  needed = total * numerator / denominator  (integer division) and accepts when  tallied > needed;       *)
(* TMClient.tla writes the same tests without division (Signed * den > Total * num).  For the two fractions the       *)
(* client uses - the trust level 1/3 of the trusted set and 2/3 of the header's own set - the two forms agree for    *)
(* EVERY tallied and total power, and both say exactly "more than that fraction of the total".                       *)
EXTENDS Integers

VARIABLES
  \* @type: Int;
  tallied,
  \* @type: Int;
  total

Init == tallied \in Nat /\ total \in Nat /\ tallied <= total
Next == UNCHANGED <<tallied, total>>

CodeOneThird  == tallied > (total * 1) \div 3
CodeTwoThirds == tallied > (total * 2) \div 3
SpecOneThird  == tallied * 3 > total * 1
SpecTwoThirds == tallied * 3 > total * 2

TrustLevelForms == (CodeOneThird <=> SpecOneThird) /\ (CodeTwoThirds <=> SpecTwoThirds)
(* a deliberately wrong variant ("at least" instead of "more than") is refuted *)
TrustLevelAtLeast == (tallied >= (total * 1) \div 3) <=> SpecOneThird
=============================================================================
