SPECIFICATION Spec
CONSTANTS
  Envs <- AllEnvs
  Hazards <- NoHazards
  MaxLen = 4
INVARIANTS SameState SameResults SameEvents SameEventOrder
CHECK_DEADLOCK FALSE
