------------------------------- MODULE MC_det -------------------------------
EXTENDS Det
AllEnvs == [seed : {0, 1}, tmp : BOOLEAN]
NoHazards == {}
CodeHazards == {"attrorder"}
=============================================================================
