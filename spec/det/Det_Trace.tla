----------------------------- MODULE Det_Trace -----------------------------
(* Pair traces: line k holds what replica A and replica B (independent processes, different environments) *)
(* returned for the k-th step of the same behaviour.  Each line must be a step of Det with no hazard.     *)
EXTENDS Integers, Sequences, TLC, Json, IOUtils
Trace == ndJsonDeserialize(IOEnv.TRACE_FILE)
VARIABLE l
ln(k) == Trace[k]
Report(k, name, holds) == holds \/ PrintT(<<"VIOL", k, name>>)
Judge(k) ==
  /\ Report(k, "C14.SameState", ln(k).A.st = ln(k).B.st)
  /\ Report(k, "C14.SameResults", ln(k).A.res = ln(k).B.res)
  /\ Report(k, "C14.SameEvents", ln(k).A.norm = ln(k).B.norm)
  /\ Report(k, "C14.SameEventOrder", ln(k).A.raw = ln(k).B.raw)
TInit == l = 0
TNext == l < Len(Trace) /\ l' = l + 1 /\ Judge(l + 1)
TSpec == TInit /\ [][TNext]_l
=============================================================================
