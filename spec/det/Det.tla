-------------------------------- MODULE Det --------------------------------
(***************************************************************************)
(* Determinism of the replicated state machine (C14) as a self-composition:*)
(* two replicas execute the same blocks, each in an environment of its own *)
(* (map seed, temp directory usable or not, scheduling).  What a step      *)
(* returns to consensus is its result code, its events and the new state   *)
(* hash.  The touch points named in the property's anchors are modelled as *)
(* transaction kinds whose outcome consults the environment only when the  *)
(* corresponding hazard is switched on:                                    *)
(*   tmpdir    eth/types/header.go VerifyCascadingFields created the ethash*)
(*             cache in a temp directory and failed differently without it *)
(*             (D14, repaired: cache generated in memory)                  *)
(*   attrorder cosmos-sdk TypedEventToEvent ranges over a Go map: the order*)
(*             of the attributes of a typed event differs per node (K2)    *)
(*   mapstate  a map ranged over while writing state (none found: the BSC  *)
(*             snapshot and the adapters use maps for membership only)     *)
(***************************************************************************)
EXTENDS Integers, Sequences, FiniteSets, TLC

CONSTANTS Envs,      \* set of environments [seed : 0..1, tmp : BOOLEAN]
          Hazards,   \* subset of {"tmpdir", "attrorder", "mapstate"}
          MaxLen

Kinds == {"plain", "ethseal", "typed", "mapwrite"}

VARIABLES env,     \* env[r]   environment of replica r
          hash,    \* hash[r]  application state hash (abstract: the sequence of state-changing effects)
          results, \* results[r] sequence of result codes
          events,  \* events[r]  sequence of events, each a sequence of attribute names
          history  \* the common block history (sequence of kinds)
vars == <<env, hash, results, events, history>>
R == {1, 2}

Init == /\ env \in [R -> Envs] /\ hash = [r \in R |-> <<>>] /\ results = [r \in R |-> <<>>]
        /\ events = [r \in R |-> <<>>] /\ history = <<>>

Order(e, attrs) == IF "attrorder" \in Hazards /\ e.seed = 1 THEN <<attrs[2], attrs[1]>> ELSE attrs
(* outcome of one transaction of kind k in environment e *)
Code(k, e) == CASE k = "ethseal" -> IF "tmpdir" \in Hazards /\ ~e.tmp THEN "undefined/1" ELSE "eth/9"
                [] OTHER -> "ok"
Event(k, e) == CASE k = "typed" -> Order(e, <<"chain_name", "client_type">>)
                 [] OTHER -> <<"action">>
Effect(k, e) == CASE k = "mapwrite" -> IF "mapstate" \in Hazards /\ e.seed = 1 THEN <<"w2", "w1">> ELSE <<"w1", "w2">>
                  [] k = "ethseal" -> <<>>                       \* rejected: no state change
                  [] OTHER -> <<k>>

Deliver(k) ==
  /\ Len(history) < MaxLen
  /\ history' = Append(history, k)
  /\ results' = [r \in R |-> Append(results[r], Code(k, env[r]))]
  /\ events' = [r \in R |-> Append(events[r], Event(k, env[r]))]
  /\ hash' = [r \in R |-> hash[r] \o Effect(k, env[r])]
  /\ UNCHANGED env
Next == \E k \in Kinds : Deliver(k)
Spec == Init /\ [][Next]_vars

-----------------------------------------------------------------------------
Sorted(s) == LET S == {s[i] : i \in DOMAIN s} IN S        \* attribute-order-insensitive view of an event
SameState == hash[1] = hash[2]
SameResults == results[1] = results[2]
SameEvents == /\ Len(events[1]) = Len(events[2])
              /\ \A i \in DOMAIN events[1] : Sorted(events[1][i]) = Sorted(events[2][i])
SameEventOrder == events[1] = events[2]
=============================================================================
