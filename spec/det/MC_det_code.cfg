\* the tree as it is (K2 open): the attribute order of typed events follows the map seed; SameEventOrder is violated
SPECIFICATION Spec
CONSTANTS
  Envs <- AllEnvs
  Hazards <- CodeHazards
  MaxLen = 4
INVARIANTS SameState SameResults SameEvents
CHECK_DEADLOCK FALSE
