-------------------------------- MODULE Halt --------------------------------
(***************************************************************************)
(* Inputs that reach code running OUTSIDE per-transaction panic recovery:  *)
(* the content of a passed governance proposal (executed by gov.EndBlocker *)
(* in a cache context, x/xibc/core/client/proposal_handler.go, x/aggregate/*)
(* proposal_handler.go, the params proposal handler with the subspace      *)
(* validators of x/rvesting and x/aggregate) and the begin/end block logic *)
(* that then runs under the accepted parameter values.                     *)
(* The specification partitions the validated input space by classes per   *)
(* field; TLC enumerates the product; every case is executed on the real   *)
(* application the way gov.EndBlocker does (no recover in the code under   *)
(* test).  Property (C15): an input accepted at submission is executed to  *)
(* success or to an ordinary error - never a panic.                        *)
(***************************************************************************)
EXTENDS TLC, Json, Sequences, FiniteSets
VARIABLE c

States == {"fresh", "sametype", "othertype"}
Kinds  == {"Create", "Upgrade", "Toggle"}

(* "expired": a client of the same type exists and the proposal's trusting period makes its earliest consensus state count *)
(* as expired when the proposal is executed (the pruning branch of UpgradeState / update)                                    *)
TmCases  == [fam : {"client"}, ty : {"tm"}, kind : Kinds, st : States \cup {"expired"}, f : {"valid", "wrongcons", "nilcons", "zeroheight", "notrust", "nospecs"}]
TssCases == [fam : {"client"}, ty : {"tss"}, kind : Kinds, st : States, f : {"valid", "wrongcons", "nilcons", "badaddr", "nopubkey"}]
BscCases == [fam : {"client"}, ty : {"bsc"}, kind : Kinds, st : {"fresh", "sametype", "expired"},
             epoch : {"0", "1", "4"}, height : {"zero", "epochmult", "other"}, extra : {"short", "sealonly", "novals", "vals", "odd"},
             sig : {"good", "garbage"}, shape : {"ok", "longbloom", "longnonce", "nodiff", "wrongcons", "novalidators", "hugechainid"}]
EthCases == [fam : {"client"}, ty : {"eth"}, kind : Kinds, st : {"fresh", "sametype", "expired"},
             f : {"valid", "nodiff", "gasover", "wrongcons", "nilcons", "longbloom", "bigextra", "nobasefee", "zeroheight"}]

(* "foreigncons": a client of the same type exists and an earlier, accepted upgrade proposal left it a consensus state of ANOTHER *)
(* light-client type at its latest height (proposal validation looks at the client state only): a small family per type          *)
ForeignCases == [fam : {"client"}, ty : {"bsc"}, kind : Kinds, st : {"foreigncons"}, epoch : {"4"}, height : {"epochmult"}, extra : {"vals"}, sig : {"good"}, shape : {"ok", "wrongcons"}]
           \cup [fam : {"client"}, ty : {"eth", "tm"}, kind : Kinds, st : {"foreigncons"}, f : {"valid", "wrongcons"}]

(* parameter-change proposals: the JSON value a proposal carries *)
RvCases == [fam : {"param"}, sub : {"rvesting"}, list : {"empty", "one", "two", "dup", "three"}, amount : {"present", "absent", "null", "negative", "nonnumeric", "zero", "huge"},
            denom : {"lower", "upper", "empty", "absent", "short", "badchar"}, enable : {"true", "false", "garbage"}, pool : {"empty", "small"}]
AggParamCases == [fam : {"param"}, sub : {"aggregate"}, key : {"EnableAggregate", "EnableEVMHook", "Unknown"}, val : {"true", "false", "garbage", "null"}]

AggCases == [fam : {"agg"}, p : {"RegisterCoin"}, f : {"valid", "evmdenom", "nosupply", "bigexponent", "nounits", "ibcnochannel", "again", "againfeweraliases", "againmorealiases"}]
       \cup [fam : {"agg"}, p : {"AddCoin"}, f : {"valid", "badaddr", "unknownpair", "nosupply"}]
       \cup [fam : {"agg"}, p : {"RegisterERC20"}, f : {"valid", "zeroaddr", "notcontract", "noviews", "registered"}]
       \cup [fam : {"agg"}, p : {"Toggle"}, f : {"address", "denom", "unknown", "garbage"}]
       \cup [fam : {"agg"}, p : {"UpdateERC20"}, f : {"valid", "unknownold", "notcontract", "same"}]
       \cup [fam : {"agg"}, p : {"Trace"}, f : {"valid", "notcontract", "blankorigin", "bigscale", "twice"}]
       \cup [fam : {"agg"}, p : {"EnableLimit"}, f : {"valid", "zero", "negative", "nonnumeric", "huge", "notbound"}]
       \cup [fam : {"agg"}, p : {"DisableLimit"}, f : {"valid", "notenabled", "notcontract"}]

(* genesis states of the three modules, by classes: what module genesis validation accepts must initialise without a panic *)
GenCases == [fam : {"genesis"}, sub : {"aggregate"}, f : {"default", "one", "two", "nodenoms", "emptydenom", "dupdenom", "dupsecond", "duperc20", "badaddr", "noowner", "paramsonly"}]
       \cup [fam : {"genesis"}, sub : {"rvesting"}, from : {"none", "funded", "poor", "unknown", "invalid"}, reward : {"none", "small", "big", "zero", "twodenoms", "unsorted"}]
       \cup [fam : {"genesis"}, sub : {"xibc"}, f : {"default", "tssclient", "clientnocons", "consnoclient", "metanoclient", "relayermismatch", "emptynative", "duprelayer"}]

Cases == TmCases \cup TssCases \cup BscCases \cup EthCases \cup ForeignCases \cup RvCases \cup AggParamCases \cup AggCases \cup GenCases
Init == c \in Cases
Next == UNCHANGED c
Spec == Init /\ [][Next]_c
Emit == PrintT(<<"MBT", ToJson(<< [act |-> "Exec"] @@ c >>)>>)
=============================================================================
