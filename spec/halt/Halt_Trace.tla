----------------------------- MODULE Halt_Trace -----------------------------
EXTENDS Integers, Sequences, TLC, Json, IOUtils
Trace == ndJsonDeserialize(IOEnv.TRACE_FILE)
VARIABLE l
ln(k) == Trace[k]
Report(k, name, holds) == holds \/ PrintT(<<"VIOL", k, name>>)
Judge(k) == ln(k).ev = "Exec" =>
  (* an input accepted at submission never panics where nothing recovers: in the handler, nor in the block after it *)
  /\ Report(k, "C15.NoPanicInHandler", ln(k).submit = "ok" => ln(k).res # "panic")
  (* genesis family: submit = the module's genesis validation accepted the state; res = InitChain of a fresh application *)
  /\ Report(k, "C15.NoPanicInGenesis", (ln(k).args.fam = "genesis" /\ ln(k).submit = "ok") => ln(k).res # "panic")
  /\ Report(k, "C15.NoPanicInBlock", ln(k).submit = "ok" => ln(k).block # "panic")
  /\ Report(k, "C15.FailedProposalChangesNothing", (ln(k).submit = "ok" /\ ln(k).res = "err") => ln(k).dg.pre = ln(k).dg.post)
TInit == l = 0
TNext == l < Len(Trace) /\ l' = l + 1 /\ Judge(l + 1)
TSpec == TInit /\ [][TNext]_l
=============================================================================
