package harness

import (
	"fmt"
	"github.com/teleport-network/teleport/syscontracts"
	"math/big"
	"os"
	"sort"
	"strings"
	"testing"

	packettypes "github.com/teleport-network/teleport/x/xibc/core/packet/types"
)

func init() { Drivers["xibc"] = driveXIBC }

func signerIdx(s string) int {
	switch s {
	case "relayer", "forger": // the forger is the registered relayer submitting a forged header
		return AcctRelayer
	case "outsider":
		return AcctOutside
	case "relayer2":
		return AcctRel2
	case "user":
		return AcctUser
	}
	return AcctOutside
}

func resOf(r TxResult) string {
	if r.Panic != "" {
		return "panic"
	}
	if r.OK() {
		return "ok"
	}
	return "err"
}

func (w *World) allStates() M {
	st := M{}
	for _, n := range w.Names {
		st[n] = w.Project(n)
	}
	return st
}

// pktInfo decodes an emitted packet into the specification's packet record.
func (w *World) pktInfo(k string, call string, fee int64) []interface{} {
	var p packettypes.Packet
	if bz, ok := w.Sent[k]; !ok || p.ABIDecode(bz) != nil {
		return nil
	}
	kind, amt := "none", int64(0)
	var td packettypes.TransferData
	if len(p.TransferData) > 0 && td.ABIDecode(p.TransferData) == nil {
		amt = new(big.Int).SetBytes(td.Amount).Int64()
		kind = "fwd"
		if td.OriToken != "" {
			kind = "back"
		}
	}
	cb := "none"
	if strings.EqualFold(p.CallbackAddress, syscontracts.AgentContractAddress) {
		cb = "agent" // a packet the agent contract sent (nested in a receive): the agent is sender and callback
	} else if p.CallbackAddress != "" && !strings.EqualFold(p.CallbackAddress, zeroAddr.String()) {
		cb = "bad" // the only other callback contract these behaviours use has no callback function
	}
	return []interface{}{w.absName(p.SrcChain), w.absName(p.DstChain), p.Sequence, kind, amt, call, fee, cb}
}

func driveXIBC(t *testing.T, in, out string, seed int64) {
	behaviours := ReadBehaviours(in)
	tw := NewTraceWriter(out)
	defer tw.Close()
	for bi, b := range behaviours {
		names := []string{"A", "B"}
		if os.Getenv("VERIF_XIBC_CHAINS") == "3" {
			names = []string{"A", "B", "C"}
		}
		for _, st := range b {
			for _, f := range []string{"chain", "dst", "counter", "src"} {
				if str(st[f]) == "C" {
					names = []string{"A", "B", "C"}
				}
			}
		}
		w := NewWorld(names)
		RoundTripAtEnd("xibc", bi, w.Chains)
		tw.Emit(M{"ev": "Reset", "b": bi, "i": 0, "res": "ok", "st": w.allStates(), "sig": "Reset", "args": M{}})
		for si, st := range b {
			act := str(st["act"])
			on := str(st["chain"])
			line := M{"ev": act, "b": bi, "i": si + 1, "args": st, "chain": on}
			pre, vpre := w.FullDigest(on), w.ValueDigest(on)
			switch act {
			case "Send":
				spec := SendSpec{Src: on, Dst: str(st["dst"]), Kind: str(st["kind"]), Amt: num(st["amt"]), Call: str(st["call"]), Fee: num(st["fee"]), Via: str(st["via"]), Callback: str(st["cb"]) == "bad"}
				nextSeq := w.Chains[on].App.XIBCKeeper.PacketKeeper.GetNextSequenceSend(w.Chains[on].Ctx(), w.ID[on], w.ID[spec.Dst])
				r := w.Send(spec)
				line["res"], line["msg"] = resOf(r), clip(r.Log+r.VMError)
				line["sig"] = fmt.Sprintf("Send/%s/%s", spec.Kind, spec.Call)
				if r.OK() {
					k := fmt.Sprintf("%s/%s/%d", on, spec.Dst, nextSeq)
					if info := w.pktInfo(k, spec.Call, spec.Fee); info != nil {
						line["pkt"] = info
					}
				}
			case "SendTwo":
				dst, dst2, call := str(st["dst"]), str(st["dst2"]), str(st["call"])
				pk0 := w.Chains[on].App.XIBCKeeper.PacketKeeper
				next1, next2 := pk0.GetNextSequenceSend(w.Chains[on].Ctx(), w.ID[on], w.ID[dst]), pk0.GetNextSequenceSend(w.Chains[on].Ctx(), w.ID[on], w.ID[dst2])
				r := w.SendTwo(on, dst, dst2, call)
				line["res"], line["msg"] = resOf(r), clip(r.VMError+" "+r.Log)
				line["sig"] = "SendTwo/" + call
				pk := []interface{}{}
				if r.OK() {
					for _, k := range []string{fmt.Sprintf("%s/%s/%d", on, dst, next1), fmt.Sprintf("%s/%s/%d", on, dst2, next2)} {
						if info := w.pktInfo(k, call, 0); info != nil {
							pk = append(pk, info)
						}
					}
				}
				line["pkts"] = pk
			case "Commit":
				w.Commit(on)
				line["res"], line["sig"] = "ok", "Commit"
			case "UpdateClient":
				if str(st["signer"]) == "forger" {
					w.ForgeNext = true
				}
				r := w.UpdateClient(on, str(st["counter"]), int(num(st["height"])), signerIdx(str(st["signer"])))
				w.ForgeNext = false
				line["res"], line["msg"] = resOf(r), clip(r.Log)
				line["sig"] = "UpdateClient/" + str(st["signer"])
				line["registered"] = w.Chains[on].App.XIBCKeeper.ClientKeeper.AuthRelayer(w.Chains[on].Ctx(), w.ID[str(st["counter"])], w.Chains[on].Accts[signerIdx(str(st["signer"]))].Acc.String())
			case "UpgradeRev":
				res, msg := w.UpgradeRev(on, str(st["counter"]))
				line["res"], line["msg"], line["sig"] = res, clip(msg), "UpgradeRev"
			case "Regenesis":
				res, msg := w.Regenesis(on)
				line["res"], line["msg"], line["sig"] = res, clip(msg), "Regenesis"
			case "EnableLimit":
				res, msg := w.EnableLimit(on, str(st["token"]), num(st["cap"]), num(st["max"]), num(st["min"]))
				if res != "ok" {
					res = "err"
				}
				line["res"], line["msg"], line["sig"] = res, clip(msg), "EnableLimit"
			case "DisableLimit":
				res, msg := w.DisableLimit(on, str(st["token"]))
				if res != "ok" {
					res = "err"
				}
				line["res"], line["msg"], line["sig"] = res, clip(msg), "DisableLimit"
			case "Elapse":
				w.Elapse(on)
				line["res"], line["sig"] = "ok", "Elapse"
			case "Rotate":
				res, msg := w.Rotate(on, str(st["counter"]))
				line["res"], line["msg"], line["sig"] = res, clip(msg), "Rotate"
			case "SendFake":
				r := w.SendFake(on, str(st["dst"]), num(st["amt"]))
				line["res"], line["msg"], line["sig"] = resOf(r), clip(r.Log+r.VMError), "SendFake"
			case "NewClient":
				res, msg := w.NewClient(on, str(st["counter"]), str(st["name"]))
				line["res"], line["msg"], line["sig"] = res, clip(msg), "NewClient/"+str(st["name"])
			case "Retoggle":
				res, msg := w.Retoggle(on, str(st["counter"]))
				line["res"], line["msg"], line["sig"] = res, clip(msg), "Retoggle"
			case "Recv":
				m := MsgSpec{On: on, Src: str(st["src"]), Dst: str(st["dst"]), Seq: uint64(num(st["seq"])), Alt: str(st["alt"]),
					PH: int(num(st["ph"])), Proof: str(st["proof"]), Signer: signerIdx(str(st["signer"]))}
				before := map[string]bool{}
				for k := range w.Sent {
					before[k] = true
				}
				r, triple, truth, p := w.Recv(m)
				line["res"], line["msg"] = resOf(r), clip(r.Log)
				// packets the chain emitted while executing this receive (a send nested in the callback)
				nested := []interface{}{}
				var newKeys []string
				for k := range w.Sent {
					if !before[k] {
						newKeys = append(newKeys, k)
					}
				}
				sort.Strings(newKeys)
				for _, k := range newKeys {
					if info := w.pktInfo(k, "none", 0); info != nil {
						nested = append(nested, info)
					}
				}
				line["nested"] = nested
				line["sig"] = fmt.Sprintf("Recv/%s/%s/%s", m.Alt, m.Proof, str(st["signer"]))
				line["t"] = []interface{}{w.absName(p.SrcChain), w.absName(p.DstChain), p.Sequence}
				_ = triple
				line["truth"] = M{"hv": truth.HeightVerified, "committed": truth.Committed, "intact": truth.ProofIntact, "held": false}
				signer := w.Chains[on].Accts[m.Signer].Acc.String()
				exp, reg := w.Chains[on].App.XIBCKeeper.ClientKeeper.GetRelayerAddressOnOtherChain(w.Chains[on].Ctx(), p.SrcChain, signer)
				line["registered"] = reg
				// the acknowledgement this step wrote (if any): code and relayer field
				wrote := M{"code": -1, "relayer_ok": true}
				if r.OK() {
					if bz, ok := w.AckBytes[w.key(p.SrcChain, p.DstChain, p.Sequence)]; ok {
						var a packettypes.Acknowledgement
						if a.ABIDecode(bz) == nil {
							wrote = M{"code": int64(a.Code), "relayer_ok": a.Relayer == exp}
						}
					}
				}
				line["wrote"] = wrote
			case "Ack":
				m := MsgSpec{On: on, Src: str(st["src"]), Dst: str(st["dst"]), Seq: uint64(num(st["seq"])), Alt: str(st["alt"]),
					PH: int(num(st["ph"])), Proof: str(st["proof"]), Signer: signerIdx(str(st["signer"]))}
				if a := str(st["aalt"]); a != "" && a != "none" {
					m.Alt = a
				}
				r, _, truth, ack := w.Ack(m)
				line["res"], line["msg"] = resOf(r), clip(r.Log)
				line["sig"] = fmt.Sprintf("Ack/%s/%s/%s", m.Alt, m.Proof, str(st["signer"]))
				line["truth"] = M{"hv": truth.HeightVerified, "committed": truth.Committed, "intact": truth.ProofIntact, "held": truth.Held}
				line["ackcode"] = int64(ack.Code)
				var p packettypes.Packet
				line["t"] = []interface{}{str(st["src"]), str(st["dst"]), num(st["seq"])}
				_ = p
			default:
				t.Fatalf("unknown action %q", act)
			}
			if _, ok := line["truth"]; !ok {
				line["truth"] = M{"hv": false, "committed": false, "intact": false, "held": false}
			}
			if _, ok := line["t"]; !ok {
				line["t"] = []interface{}{"", "", 0}
			}
			if _, ok := line["pkt"]; !ok {
				line["pkt"] = []interface{}{}
			}
			if _, ok := line["wrote"]; !ok {
				line["wrote"] = M{"code": -1, "relayer_ok": true}
			}
			if _, ok := line["registered"]; !ok {
				line["registered"] = false
			}
			if _, ok := line["ackcode"]; !ok {
				line["ackcode"] = -1
			}
			line["dg"] = M{"pre": pre, "post": w.FullDigest(on)}
			line["vdg"] = M{"pre": vpre, "post": w.ValueDigest(on)}
			line["st"] = w.allStates()
			tw.Emit(line)
		}
	}
}

func clip(s string) string {
	if len(s) > 200 {
		return s[:200]
	}
	return s
}
