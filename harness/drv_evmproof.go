package harness

import (
	"os"
	"strconv"

	"bytes"
	"crypto/sha256"
	"encoding/json"
	"fmt"
	"math/big"
	"testing"

	"github.com/ethereum/go-ethereum/common"
	"github.com/ethereum/go-ethereum/common/hexutil"
	"github.com/ethereum/go-ethereum/crypto"
	"github.com/ethereum/go-ethereum/ethdb/memorydb"
	"github.com/ethereum/go-ethereum/light"
	"github.com/ethereum/go-ethereum/rlp"
	"github.com/ethereum/go-ethereum/trie"

	bsctypes "github.com/teleport-network/teleport/x/xibc/clients/light-clients/bsc/types"
	ethtypes "github.com/teleport-network/teleport/x/xibc/clients/light-clients/eth/types"
	clienttypes "github.com/teleport-network/teleport/x/xibc/core/client/types"
	"github.com/teleport-network/teleport/x/xibc/core/host"
	"github.com/teleport-network/teleport/x/xibc/exported"
)

func init() { Drivers["evmproof"] = driveEVMProof }

const (
	evSrc = "eth-chain"
	evDst = "teleport_9000-10"
)

var (
	evContract = common.HexToAddress("0x00000000000000000000000000000000c0c0c0c0")
	evOther    = common.HexToAddress("0x00000000000000000000000000000000d0d0d0d0")
)

type evAccount struct {
	Nonce    *big.Int
	Balance  *big.Int
	Storage  common.Hash
	Codehash common.Hash
}

// evState is a small Ethereum world state: accounts with storage tries, built with go-ethereum's trie.
type evState struct {
	acct     *trie.Trie
	storage  map[common.Address]*trie.Trie
	accounts map[common.Address]evAccount
}

func newTrie() *trie.Trie {
	t, err := trie.New(common.Hash{}, trie.NewDatabase(memorydb.New()))
	must(err)
	return t
}

// independent slot derivation: keccak256(path || uint256(208))
func evSlot(path []byte) common.Hash {
	return crypto.Keccak256Hash(path, common.LeftPadBytes(big.NewInt(208).Bytes(), 32))
}

func evPath(kind, src, dst string, seq uint64) []byte {
	if kind == "ack" {
		return host.PacketAcknowledgementKey(src, dst, seq)
	}
	return host.PacketCommitmentKey(src, dst, seq)
}

// evValue returns the 32-byte hash stored for (kind, seq) with the requested number of leading zero bytes.
func evValue(tag string, kind string, seq uint64, valueCls string) []byte {
	h := sha256.Sum256([]byte(fmt.Sprintf("%s/%s/%d", tag, kind, seq)))
	v := h[:]
	if v[0] == 0 {
		v[0] = 7
	}
	switch valueCls {
	case "leadzero1":
		v[0] = 0
		v[1] = 9
	case "leadzero3":
		v[0], v[1], v[2] = 0, 0, 0
		v[3] = 9
	}
	return v
}

func buildState(tag, valueCls string, withContract bool, seed int64) *evState {
	s := &evState{acct: newTrie(), storage: map[common.Address]*trie.Trie{}, accounts: map[common.Address]evAccount{}}
	addrs := []common.Address{evOther}
	if withContract {
		addrs = append(addrs, evContract)
	}
	for i := int64(0); i < 8+seed%5; i++ {
		addrs = append(addrs, common.BytesToAddress(crypto.Keccak256([]byte(fmt.Sprintf("filler/%s/%d/%d", tag, seed, i)))[12:]))
	}
	for ai, a := range addrs {
		st := newTrie()
		otag := tag
		if a == evOther {
			otag = tag + "/other"
		}
		if a == evContract || a == evOther {
			for _, kind := range []string{"commit", "ack"} {
				for seq := uint64(1); seq <= 2; seq++ {
					slot := evSlot(evPath(kind, evSrc, evDst, seq))
					val, _ := rlp.EncodeToBytes(bytes.TrimLeft(evValue(otag, kind, seq, valueCls), "\x00"))
					st.Update(crypto.Keccak256(slot.Bytes()), val)
					// the same value also sits in the low-numbered slot whose number is the last byte of the derived slot
					// (storage class suffixkey: a proof of THAT slot offered under a shortened key)
					low := common.BytesToHash(slot.Bytes()[31:])
					st.Update(crypto.Keccak256(low.Bytes()), val)
				}
			}
		}
		for i := int64(0); i < 10+seed%7; i++ {
			k := crypto.Keccak256([]byte(fmt.Sprintf("slot/%s/%d/%d", tag, ai, i)))
			val, _ := rlp.EncodeToBytes(bytes.TrimLeft(crypto.Keccak256(k), "\x00"))
			st.Update(crypto.Keccak256(k), val)
		}
		acc := evAccount{Nonce: big.NewInt(int64(ai) + 1), Balance: big.NewInt(1000 + int64(ai)), Storage: st.Hash(), Codehash: crypto.Keccak256Hash([]byte("code"), a.Bytes())}
		if valueCls == "leadzero1" && (a == evContract || a == evOther) {
			// in this world the contract holds more than 2^64 wei (the packet contract collects fees) and has a large nonce
			acc.Balance = new(big.Int).Add(new(big.Int).Lsh(big.NewInt(1), 70), big.NewInt(int64(ai)))
			acc.Nonce = new(big.Int).SetUint64(1<<63 + uint64(ai))
		}
		bz, err := rlp.EncodeToBytes(&acc)
		must(err)
		s.acct.Update(crypto.Keccak256(a.Bytes()), bz)
		s.storage[a] = st
		s.accounts[a] = acc
	}
	return s
}

func (s *evState) root() common.Hash { return s.acct.Hash() }

func proveNodes(t *trie.Trie, key []byte) []string {
	var nl light.NodeList
	must(t.Prove(key, 0, &nl))
	out := []string{}
	for _, n := range nl {
		out = append(out, hexutil.Encode(n))
	}
	return out
}

// proofFor builds the eth_getProof-style proof of slot `slot` of account a in state s.
func (s *evState) proofFor(a common.Address, slot common.Hash) ethtypes.Proof {
	acc, ok := s.accounts[a]
	if !ok {
		acc = evAccount{Nonce: big.NewInt(0), Balance: big.NewInt(0)}
	}
	p := ethtypes.Proof{
		Address: hexutil.Encode(a.Bytes()), Balance: hexutil.EncodeBig(acc.Balance), CodeHash: acc.Codehash.Hex(), Nonce: hexutil.EncodeBig(acc.Nonce),
		StorageHash: acc.Storage.Hex(), AccountProof: proveNodes(s.acct, crypto.Keccak256(a.Bytes())),
	}
	sp := &ethtypes.StorageResult{Key: slot.Hex(), Value: "0x0", Proof: []string{}}
	if st, ok := s.storage[a]; ok {
		sp.Proof = proveNodes(st, crypto.Keccak256(slot.Bytes()))
	}
	p.StorageProof = []*ethtypes.StorageResult{sp}
	return p
}

func mutNode(nodes []string, how string) []string {
	out := append([]string{}, nodes...)
	if len(out) == 0 {
		return out
	}
	switch how {
	case "truncated":
		return out[:len(out)-1]
	case "padded":
		out[len(out)-1] = out[len(out)-1] + "00"
	}
	return out
}

// evClient is a created ETH or BSC client with consensus states for the roots of the worlds.
type evClient struct {
	C                                      *Chain
	Name                                   string
	CS                                     exported.ClientState
	HOK, HDelay, HAbove, HUnknown, HAbsent uint64
}

func (e *evClient) store() (exported.ClientState, error) {
	cs, ok := e.C.App.XIBCKeeper.ClientKeeper.GetClientState(e.C.Ctx(), e.Name)
	if !ok {
		return nil, fmt.Errorf("client missing")
	}
	return cs, nil
}

func setupEthProofClient(l *LC, rAbs, r1, r0 common.Hash) *evClient {
	return setupEthProofClientNamed(l, "cli-ethp", false, rAbs, r1, r0)
}

// reorg = true: the client follows 101..105 and is then moved to a sibling of 103; the consensus states of the
// abandoned blocks 104 (root r1) and 105 stay in its store, above the head
func setupEthProofClientNamed(l *LC, name string, reorg bool, rAbs, r1, r0 common.Hash) *evClient {
	c := l.C
	l.EnsureRelayer([]string{name})
	base := uint64(c.Header.Time.Unix()) - 1000
	mk := func(n uint64, parent *ethtypes.Header, root common.Hash) *ethtypes.Header {
		h := &ethtypes.Header{UncleHash: make([]byte, 32), Coinbase: make([]byte, 20), Root: root.Bytes(), TxHash: make([]byte, 32), ReceiptHash: make([]byte, 32),
			Bloom: make([]byte, 256), Difficulty: big.NewInt(1).Bytes(), Height: clienttypes.NewHeight(0, n), GasLimit: 30_000_000, GasUsed: 15_000_000,
			Time: base + 10*(n-100), Extra: []byte("p"), MixDigest: make([]byte, 32), BaseFee: big.NewInt(1000).Bytes(), ParentHash: make([]byte, 32)}
		if parent != nil {
			h.ParentHash = parent.Hash().Bytes()
		}
		return h
	}
	g := mk(100, nil, rAbs)
	cs := &ethtypes.ClientState{Header: *g, ChainId: 4, ContractAddress: evContract.Bytes(), TrustingPeriod: 1_000_000_000, TimeDelay: 0, BlockDelay: 2}
	prop, err := clienttypes.NewCreateClientProposal("t", "d", name, cs, &ethtypes.ConsensusState{Timestamp: g.Time, Height: g.Height, Root: g.Root})
	must(err)
	if res, msg := c.ExecProposal(prop); res != "ok" {
		panic("create eth proof client: " + msg)
	}
	prev := g
	roots := []common.Hash{r1, r1, r0}
	if reorg {
		roots = []common.Hash{r1, r1, r0, r1, r0}
	}
	var h102 *ethtypes.Header
	for i, root := range roots {
		h := mk(101+uint64(i), prev, root)
		msg, err := clienttypes.NewMsgUpdateClient(name, h, c.Accts[lcRelayer].Acc)
		must(err)
		if r := c.DeliverMsgs(c.Accts[lcRelayer], msg); !r.OK() {
			panic("eth update: " + r.Log)
		}
		prev = h
		if i == 1 {
			h102 = h
		}
	}
	if name == "cli-ethu" {
		panic("use setupEthProofClientUpgraded")
	}
	if reorg {
		s := mk(103, h102, r0)
		s.Extra = []byte("sibling")
		msg, err := clienttypes.NewMsgUpdateClient(name, s, c.Accts[lcRelayer].Acc)
		must(err)
		if r := c.DeliverMsgs(c.Accts[lcRelayer], msg); !r.OK() {
			panic("eth reorg update: " + r.Log)
		}
		return &evClient{C: c, Name: name, HOK: 101, HDelay: 102, HAbove: 104, HUnknown: 99, HAbsent: 100}
	}
	return &evClient{C: c, Name: name, HOK: 101, HDelay: 102, HAbove: 104, HUnknown: 99, HAbsent: 100}
}

// setupEthProofClientUpgraded: created at 100 (root rAbs), updated with 101 (root r1), then moved by a governance upgrade
// to a header 102 (root r1) whose consensus state carries no height of its own (the field is redundant: the state is
// stored under the header's height), then updated with 103 (root r0).  With a block delay of 2 the state at 101 may be
// used, the installed one at 102 not yet.
func setupEthProofClientUpgraded(l *LC, rAbs, r1, r0 common.Hash) *evClient {
	c := l.C
	name := "cli-ethu"
	l.EnsureRelayer([]string{name})
	base := uint64(c.Header.Time.Unix()) - 1000
	mk := func(n uint64, parent *ethtypes.Header, root common.Hash) *ethtypes.Header {
		h := &ethtypes.Header{UncleHash: make([]byte, 32), Coinbase: make([]byte, 20), Root: root.Bytes(), TxHash: make([]byte, 32), ReceiptHash: make([]byte, 32),
			Bloom: make([]byte, 256), Difficulty: big.NewInt(1).Bytes(), Height: clienttypes.NewHeight(0, n), GasLimit: 30_000_000, GasUsed: 15_000_000,
			Time: base + 10*(n-100), Extra: []byte("u"), MixDigest: make([]byte, 32), BaseFee: big.NewInt(1000).Bytes(), ParentHash: make([]byte, 32)}
		if parent != nil {
			h.ParentHash = parent.Hash().Bytes()
		}
		return h
	}
	update := func(h *ethtypes.Header) {
		msg, err := clienttypes.NewMsgUpdateClient(name, h, c.Accts[lcRelayer].Acc)
		must(err)
		if r := c.DeliverMsgs(c.Accts[lcRelayer], msg); !r.OK() {
			panic("eth update: " + r.Log)
		}
	}
	g := mk(100, nil, rAbs)
	cs := &ethtypes.ClientState{Header: *g, ChainId: 4, ContractAddress: evContract.Bytes(), TrustingPeriod: 1_000_000_000, TimeDelay: 0, BlockDelay: 2}
	prop, err := clienttypes.NewCreateClientProposal("t", "d", name, cs, &ethtypes.ConsensusState{Timestamp: g.Time, Height: g.Height, Root: g.Root})
	must(err)
	if res, msg := c.ExecProposal(prop); res != "ok" {
		panic("create eth proof client: " + msg)
	}
	h101 := mk(101, g, r1)
	update(h101)
	h102 := mk(102, h101, r1)
	cs2 := &ethtypes.ClientState{Header: *h102, ChainId: 4, ContractAddress: evContract.Bytes(), TrustingPeriod: 1_000_000_000, TimeDelay: 0, BlockDelay: 2}
	up, err := clienttypes.NewUpgradeClientProposal("t", "d", name, cs2, &ethtypes.ConsensusState{Timestamp: h102.Time, Root: h102.Root})
	must(err)
	if res, msg := c.ExecProposal(up); res != "ok" {
		panic("upgrade eth proof client: " + msg)
	}
	update(mk(103, h102, r0))
	return &evClient{C: c, Name: name, HOK: 101, HDelay: 102, HAbove: 104, HUnknown: 99, HAbsent: 100}
}

func setupBscProofClient(l *LC, keys *bscKeys, rAbs, r1, r0 common.Hash) *evClient {
	c := l.C
	name := "cli-bscp"
	l.EnsureRelayer([]string{name})
	set := []int{1, 2, 3}
	g := keys.headerRoot(4, common.Hash{}, 2, true, 2, set, true, rAbs.Bytes())
	var valBytes [][]byte
	for _, v := range set {
		valBytes = append(valBytes, keys.Addrs[v-1].Bytes())
	}
	cs := &bsctypes.ClientState{Header: *g, ChainId: bscChainID, Epoch: 4, BlockInteval: 3, Validators: valBytes, ContractAddress: evContract.Bytes(), TrustingPeriod: 1_000_000_000}
	prop, err := clienttypes.NewCreateClientProposal("t", "d", name, cs, &bsctypes.ConsensusState{Timestamp: g.Time, Height: g.Height, Root: g.Root})
	must(err)
	if res, msg := c.ExecProposal(prop); res != "ok" {
		panic("create bsc proof client: " + msg)
	}
	prev := g
	// validators {1,2,3}: block n is in turn for sorted[n % 3]; signer 2 sealed block 4
	signers := []int{3, 1, 2}
	for i, root := range []common.Hash{r1, r1, r0} {
		n := uint64(5 + i)
		sg := signers[i]
		diff := int64(1)
		if int(n%3)+1 == sg {
			diff = 2
		}
		h := keys.headerRoot(n, prev.Hash(), sg, true, diff, nil, true, root.Bytes())
		msg, err := clienttypes.NewMsgUpdateClient(name, h, c.Accts[lcRelayer].Acc)
		must(err)
		if r := c.DeliverMsgs(c.Accts[lcRelayer], msg); !r.OK() {
			panic("bsc update: " + r.Log)
		}
		prev = h
	}
	return &evClient{C: c, Name: name, HOK: 5, HDelay: 6, HAbove: 8, HUnknown: 3, HAbsent: 4}
}

func driveEVMProof(t *testing.T, in, out string, seed int64) {
	cases := ReadBehaviours(in)
	tw := NewTraceWriter(out)
	defer tw.Close()
	keys := newBSCKeys()
	type world struct {
		w1, w0, wabs *evState
		eth, bsc     *evClient
		ethr         *evClient // the reorganised ETH client (a consensus state stored above its head)
		ethu         *evClient // the ETH client moved on by a governance upgrade (an installed consensus state without a height of its own)
	}
	worlds := map[string]*world{}
	getWorld := func(valueCls string) *world {
		if w, ok := worlds[valueCls]; ok {
			return w
		}
		w := &world{w1: buildState("w1", valueCls, true, seed), w0: buildState("w0", valueCls, true, seed+1), wabs: buildState("wabs", valueCls, false, seed+2)}
		l := NewLC()
		w.eth = setupEthProofClient(l, w.wabs.root(), w.w1.root(), w.w0.root())
		w.bsc = setupBscProofClient(l, keys, w.wabs.root(), w.w1.root(), w.w0.root())
		w.ethr = setupEthProofClientNamed(l, "cli-ethr", true, w.wabs.root(), w.w1.root(), w.w0.root())
		w.ethu = setupEthProofClientUpgraded(l, w.wabs.root(), w.w1.root(), w.w0.root())
		worlds[valueCls] = w
		return w
	}
	reps := 1
	if n, err := strconv.Atoi(os.Getenv("VERIF_REPS")); err == nil && n > 0 {
		reps = n
	}
	nc := len(cases)
	for rep := 1; rep < reps; rep++ {
		cases = append(cases, cases[:nc]...)
	}
	for bi, b := range cases {
		cs := b[0]
		valueCls := str(cs["value"])
		if bi > 0 && bi%nc == 0 {
			// a new round: other trie shapes (number of accounts and slots, filler content)
			worlds = map[string]*world{}
			seed += 7
		}
		w := getWorld(valueCls)
		cl := w.eth
		if str(cs["client"]) == "bsc" {
			cl = w.bsc
		}
		kind := str(cs["kind"])
		// what the message claims
		src, dst, seq, askKind := evSrc, evDst, uint64(1), kind
		// what the proof is about
		pSeq, pKind := uint64(1), kind
		state := w.w1
		height := cl.HOK
		commitment := evValue("w1", kind, 1, valueCls)
		switch str(cs["path"]) {
		case "otherseq":
			seq = 2
			commitment = evValue("w1", kind, 1, valueCls) // the value the proof proves, under another sequence's path
		case "otherkind":
			if kind == "commit" {
				askKind = "ack"
			} else {
				askKind = "commit"
			}
		case "otherchain":
			src = "bsc-chain"
		}
		switch str(cs["storage"]) {
		case "absentkey":
			pSeq, seq = 3, 3
			if str(cs["path"]) == "otherseq" {
				seq = 2
			}
			commitment = evValue("w1", kind, 3, valueCls)
		case "othervalue":
			commitment = evValue("forged", kind, 1, valueCls)
		}
		account := evContract
		switch str(cs["account"]) {
		case "otherroot":
			state = w.w0
		case "absent":
			state = w.wabs
			height = cl.HAbsent
		case "otheraddr", "otheraccount", "wrongstorage", "forgedstorage":
		}
		slot := evSlot(evPath(pKind, evSrc, evDst, pSeq))
		proof := state.proofFor(account, slot)
		switch str(cs["account"]) {
		case "otheraddr":
			proof = state.proofFor(evOther, slot)
		case "otheraccount":
			o := state.proofFor(evOther, slot)
			o.Address = proof.Address
			proof = o
		case "truncated", "padded":
			proof.AccountProof = mutNode(proof.AccountProof, str(cs["account"]))
		case "empty":
			proof.AccountProof = []string{}
		case "wrongnonce":
			proof.Nonce = "0x63"
		case "wrongbalance":
			proof.Balance = "0x63"
		case "wrongcode":
			proof.CodeHash = crypto.Keccak256Hash([]byte("x")).Hex()
		case "wrongstorage":
			o := state.proofFor(evOther, slot)
			proof.StorageHash = o.StorageHash
			proof.StorageProof = o.StorageProof
		case "forgedstorage":
			// a self-consistent forgery: the claimed storage root and the storage proof are those of another storage trie
			// in which the slot really holds the claimed value; only the (genuine) account proof contradicts it
			o := state.proofFor(evOther, slot)
			proof.StorageHash = o.StorageHash
			proof.StorageProof = o.StorageProof
			otag := map[*evState]string{w.w1: "w1", w.w0: "w0", w.wabs: "wabs"}[state] + "/other"
			commitment = evValue(otag, kind, pSeq, valueCls)
		}
		switch str(cs["storage"]) {
		case "otherslot":
			other := evSlot(evPath(pKind, evSrc, evDst, 2))
			proof.StorageProof = state.proofFor(account, other).StorageProof
			if str(cs["account"]) == "otheraddr" {
				proof.StorageProof = state.proofFor(evOther, other).StorageProof
			}
		case "suffixkey":
			// the key is only the last byte of the derived slot; the storage proof is a genuine proof of the slot that
			// byte left-pads to, which holds the claimed value: a proof for another slot
			low := common.BytesToHash(slot.Bytes()[31:])
			sp := state.proofFor(account, low).StorageProof
			sp[0].Key = hexutil.Encode(slot.Bytes()[31:])
			proof.StorageProof = sp
		case "keymismatch":
			other := evSlot(evPath(pKind, evSrc, evDst, 2))
			sp := state.proofFor(account, other).StorageProof
			sp[0].Key = slot.Hex()
			proof.StorageProof = sp
		case "truncated", "padded":
			if len(proof.StorageProof) > 0 {
				proof.StorageProof[0].Proof = mutNode(proof.StorageProof[0].Proof, str(cs["storage"]))
			}
		case "zeroproofs":
			proof.StorageProof = []*ethtypes.StorageResult{}
		case "twoproofs":
			proof.StorageProof = append(proof.StorageProof, proof.StorageProof[0])
		}
		switch str(cs["height"]) {
		case "unknown":
			height = cl.HUnknown
		case "abovehead":
			height = cl.HAbove
		case "abovestored":
			// above the head, but a consensus state with the right root is stored there (ETH: left behind by a reorganisation)
			height = cl.HAbove
			if str(cs["client"]) == "eth" {
				cl = w.ethr
			}
		case "withindelay":
			height = cl.HDelay
		case "delayinstalled":
			// within the delay, at a height whose consensus state was installed by a governance upgrade (ETH)
			height = cl.HDelay
			if str(cs["client"]) == "eth" {
				cl = w.ethu
			}
		}
		proofBz, err := json.Marshal(proof)
		must(err)
		cstate, err := cl.store()
		must(err)
		ctx, _ := cl.C.Ctx().CacheContext()
		store := cl.C.App.XIBCKeeper.ClientKeeper.ClientStore(ctx, cl.Name)
		res, msg := "ok", ""
		func() {
			defer func() {
				if r := recover(); r != nil {
					res, msg = "panic", fmt.Sprint(r)
				}
			}()
			var verr error
			h := clienttypes.NewHeight(0, height)
			if askKind == "ack" {
				verr = cstate.VerifyPacketAcknowledgement(ctx, store, cl.C.App.AppCodec(), h, proofBz, src, dst, seq, commitment)
			} else {
				verr = cstate.VerifyPacketCommitment(ctx, store, cl.C.App.AppCodec(), h, proofBz, src, dst, seq, commitment)
			}
			if verr != nil {
				res, msg = "err", verr.Error()
			}
		}()
		// the slot derivation of the code agrees with the independent one
		var codeKey []byte
		if kind == "ack" {
			codeKey = ethtypes.NewProofKeyConstructor(evSrc, evDst, 1).GetAckProofKey()
		} else {
			codeKey = ethtypes.NewProofKeyConstructor(evSrc, evDst, 1).GetPacketCommitmentProofKey()
		}
		tw.Emit(M{"ev": "Verify", "b": bi, "i": 0, "args": cs, "res": res, "msg": clip(msg), "slotok": bytes.Equal(codeKey, evSlot(evPath(kind, evSrc, evDst, 1)).Bytes()),
			"sig": fmt.Sprintf("%s/%s/%s/%s/%s/%s", str(cs["client"]), kind, str(cs["account"]), str(cs["storage"]), str(cs["height"]), str(cs["path"]))})
	}
}
