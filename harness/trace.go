package harness

import (
	"bufio"
	"encoding/json"
	"os"
)

// M is a JSON object.
type M = map[string]interface{}

// TraceWriter appends one JSON object per line.
type TraceWriter struct {
	f *os.File
	w *bufio.Writer
	N int
}

func NewTraceWriter(path string) *TraceWriter {
	f, err := os.Create(path)
	must(err)
	return &TraceWriter{f: f, w: bufio.NewWriterSize(f, 1<<20)}
}

func (t *TraceWriter) Emit(line M) {
	if detOn {
		line["det"] = DetSnapshot()
	}
	bz, err := json.Marshal(line)
	must(err)
	t.w.Write(bz)
	t.w.WriteByte('\n')
	t.N++
}

func (t *TraceWriter) Close() {
	t.w.Flush()
	t.f.Close()
}

// ReadBehaviours reads an ndjson file whose lines are JSON arrays of steps.
func ReadBehaviours(path string) [][]M {
	f, err := os.Open(path)
	must(err)
	defer f.Close()
	var out [][]M
	sc := bufio.NewScanner(f)
	sc.Buffer(make([]byte, 1<<20), 1<<28)
	for sc.Scan() {
		if len(sc.Bytes()) == 0 {
			continue
		}
		var b []M
		must(json.Unmarshal(sc.Bytes(), &b))
		out = append(out, b)
	}
	must(sc.Err())
	return out
}

func num(v interface{}) int64 {
	switch x := v.(type) {
	case float64:
		return int64(x)
	case int:
		return int64(x)
	case int64:
		return x
	case json.Number:
		n, _ := x.Int64()
		return n
	}
	return 0
}

func str(v interface{}) string {
	s, _ := v.(string)
	return s
}
