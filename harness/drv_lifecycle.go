package harness

import (
	"encoding/binary"
	"encoding/hex"
	"fmt"
	"sort"
	"testing"
	"time"

	sdk "github.com/cosmos/cosmos-sdk/types"
	govtypes "github.com/cosmos/cosmos-sdk/x/gov/types"

	xibctmtypes "github.com/teleport-network/teleport/x/xibc/clients/light-clients/tendermint/types"
	tsstypes "github.com/teleport-network/teleport/x/xibc/clients/tss-client/types"
	clienttypes "github.com/teleport-network/teleport/x/xibc/core/client/types"
	commitmenttypes "github.com/teleport-network/teleport/x/xibc/core/commitment/types"
	"github.com/teleport-network/teleport/x/xibc/core/host"
	packettypes "github.com/teleport-network/teleport/x/xibc/core/packet/types"
	"github.com/teleport-network/teleport/x/xibc/exported"
)

func init() { Drivers["lifecycle"] = driveLifecycle }

// LW is a world (host A, real counterparty B) for client lifecycle behaviours.
type LW struct {
	*World
	names []string
}

const lwTSS = AcctRel2 // the account configured as TSS address

func newLW(names []string) *LW {
	w := NewWorld([]string{"A", "B"})
	l := &LW{World: w, names: names}
	// the counterparty commits to a packet, so that proofs against its state can be probed
	r := w.Send(SendSpec{Src: "B", Dst: "A", Kind: "fwd", Amt: 1, Call: "none"})
	if !r.OK() {
		panic("setup send failed: " + r.Log)
	}
	w.Commit("B") // abstract height 1
	w.Commit("B") // always one block ahead of the model's peerH (for the update probe)
	a := w.Chains["A"]
	chains := []string{w.ID["B"]}
	for _, n := range names {
		chains = append(chains, RealName(n))
	}
	for _, idx := range []int{AcctRelayer, lwTSS} {
		addr := a.Accts[idx].Acc.String()
		addrs := make([]string, len(chains))
		for i := range chains {
			addrs[i] = addr
		}
		if res, msg := a.ExecProposal(clienttypes.NewRegisterRelayerProposal("t", "d", addr, chains, addrs)); res != "ok" {
			panic("register relayer: " + msg)
		}
	}
	return l
}

func (l *LW) host() *Chain { return l.Chains["A"] }
func (l *LW) peer() *Chain { return l.Chains["B"] }

func (l *LW) tmStates(h int) (exported.ClientState, exported.ConsensusState) {
	p := l.peer()
	real := l.RealHeight("B", h)
	hd := p.Hdrs[real]
	cs := xibctmtypes.NewClientState(p.ChainID, xibctmtypes.DefaultTrustLevel, 14*24*time.Hour, 21*24*time.Hour, time.Hour,
		clienttypes.NewHeight(p.Revision(), uint64(real)), commitmenttypes.GetSDKSpecs(), commitmenttypes.MerklePrefix{KeyPrefix: []byte("xibc")}, 0)
	return cs, hd.ConsensusState()
}

func (l *LW) tssStates() (exported.ClientState, exported.ConsensusState) {
	return &tsstypes.ClientState{TssAddress: l.host().Accts[lwTSS].Acc.String(), Pubkey: []byte{1, 2, 3}, PartPubkeys: [][]byte{{4}, {5}}, Threshold: 2},
		&tsstypes.ConsensusState{}
}

func (l *LW) proposal(kind, n, ty string, h int, content string) (govtypes.Content, exported.ClientState, exported.ConsensusState) {
	var cs exported.ClientState
	var cons exported.ConsensusState
	if ty == "tm" {
		cs, cons = l.tmStates(h)
	} else {
		cs, cons = l.tssStates()
	}
	if content == "altroot" {
		if tc, ok := cons.(*xibctmtypes.ConsensusState); ok {
			c2 := *tc
			c2.Root = []byte("another state root, 32 bytes long")[:32]
			cons = &c2
		}
	}
	if content == "wrongcons" {
		if ty == "tm" {
			_, cons = l.tssStates()
		} else {
			_, cons = l.tmStates(h)
		}
	}
	name := RealName(n)
	if content == "badname" {
		name = "cli/" + n
	}
	var c govtypes.Content
	var err error
	switch kind {
	case "Create":
		c, err = clienttypes.NewCreateClientProposal("t", "d", name, cs, cons)
	case "Upgrade":
		c, err = clienttypes.NewUpgradeClientProposal("t", "d", name, cs, cons)
	case "Toggle":
		c, err = clienttypes.NewToggleClientProposal("t", "d", name, cs, cons)
	}
	must(err)
	return c, cs, cons
}

func (l *LW) update(n string, h int, signer int) TxResult {
	a := l.host()
	name := RealName(n)
	cs, ok := a.App.XIBCKeeper.ClientKeeper.GetClientState(a.Ctx(), name)
	if ok && cs.ClientType() == exported.TSS {
		hd := &tsstypes.Header{TssAddress: a.Accts[lwTSS].Acc.String(), Pubkey: []byte{9, 9}, PartPubkeys: [][]byte{{7}}, Threshold: 1}
		msg, err := clienttypes.NewMsgUpdateClient(name, hd, a.Accts[signer].Acc)
		must(err)
		return a.DeliverMsgs(a.Accts[signer], msg)
	}
	msg := l.tmUpdateMsg(name, h, signer)
	if msg == nil {
		return TxResult{Code: 999, Log: "no such header"}
	}
	return a.DeliverMsgs(a.Accts[signer], msg)
}

func (l *LW) tmUpdateMsg(name string, h int, signer int) *clienttypes.MsgUpdateClient {
	a, p := l.host(), l.peer()
	hd, ok := p.Hdrs[l.RealHeight("B", h)]
	if !ok {
		return nil
	}
	cp := *hd
	hh := cp.GetHeight().(clienttypes.Height)
	best := clienttypes.Height{}
	for _, x := range consHeightsRaw(a, name) {
		if x.RevisionNumber == hh.RevisionNumber && x.LT(hh) && best.LT(x) {
			best = x
		}
	}
	if best.IsZero() {
		if cs, ok := a.App.XIBCKeeper.ClientKeeper.GetClientState(a.Ctx(), name); ok {
			if lh, ok := cs.GetLatestHeight().(clienttypes.Height); ok {
				best = lh
			}
		}
	}
	cp.TrustedHeight = best
	tv, err := p.Vals.ToProto()
	must(err)
	cp.TrustedValidators = tv
	msg, err := clienttypes.NewMsgUpdateClient(name, &cp, a.Accts[signer].Acc)
	must(err)
	return msg
}

func consHeightsRaw(c *Chain, name string) []clienttypes.Height {
	var out []clienttypes.Height
	pre := []byte("clients/" + name + "/" + host.KeyConsensusStatePrefix + "/")
	for k := range c.DumpStore("xibc", pre) {
		kb, _ := hex.DecodeString(k)
		rest := kb[len(pre):]
		if len(rest) == 16 {
			out = append(out, clienttypes.NewHeight(binary.BigEndian.Uint64(rest[:8]), binary.BigEndian.Uint64(rest[8:])))
		}
	}
	sort.Slice(out, func(i, j int) bool { return out[i].LT(out[j]) })
	return out
}

// project returns Lifecycle.tla's state of client n from the raw client store.
func (l *LW) project(n string) M {
	a := l.host()
	name := RealName(n)
	cs, ok := a.App.XIBCKeeper.ClientKeeper.GetClientState(a.Ctx(), name)
	if !ok {
		return M{"type": "none"}
	}
	abs := func(real uint64) int { return l.absHeightOf("B", real) }
	cons, proc, iter := []int{}, map[int]bool{}, map[int]bool{}
	for _, h := range consHeightsRaw(a, name) {
		cons = append(cons, abs(h.RevisionHeight))
	}
	pre := "clients/" + name + "/"
	other := 0
	for k := range a.DumpStore("xibc", []byte(pre)) {
		kb, _ := hex.DecodeString(k)
		sub := kb[len(pre):]
		cp := host.KeyConsensusStatePrefix + "/"
		switch {
		case string(sub) == host.KeyClientState:
		case len(sub) == len(cp)+16 && string(sub[:len(cp)]) == cp:
		case len(sub) == len(cp)+16+len("/processedTime") && string(sub[:len(cp)]) == cp:
			proc[abs(binary.BigEndian.Uint64(sub[len(cp)+8:len(cp)+16]))] = true
		case len(sub) == len(xibctmtypes.KeyIterateConsensusStatePrefix)+16 && string(sub[:len(xibctmtypes.KeyIterateConsensusStatePrefix)]) == xibctmtypes.KeyIterateConsensusStatePrefix:
			iter[abs(binary.BigEndian.Uint64(sub[len(sub)-8:]))] = true
		default:
			other++
		}
	}
	meta, partial := []int{}, 0
	for h := range proc {
		if iter[h] {
			meta = append(meta, h)
		} else {
			partial++
		}
	}
	for h := range iter {
		if !proc[h] {
			partial++
		}
	}
	sort.Ints(cons)
	sort.Ints(meta)
	latest := 0
	if cs.ClientType() != exported.TSS {
		latest = abs(cs.GetLatestHeight().GetRevisionHeight())
	}
	return M{"type": shortType(cs.ClientType()), "latest": latest, "cons": cons, "meta": meta, "partial": partial, "other": other}
}

// probe checks, in discarded cache contexts, that the installed client is usable.
func (l *LW) probe(n string) M {
	a, p := l.host(), l.peer()
	name := RealName(n)
	out := M{"status": "none", "verify": "none", "update": "none"}
	cs, ok := a.App.XIBCKeeper.ClientKeeper.GetClientState(a.Ctx(), name)
	if !ok {
		return out
	}
	cdc := a.App.AppCodec()
	ctx, _ := a.Ctx().CacheContext()
	store := a.App.XIBCKeeper.ClientKeeper.ClientStore(ctx, name)
	out["status"] = string(cs.Status(ctx, store, cdc))
	guard := func(f func() error) (res string) {
		defer func() {
			if r := recover(); r != nil {
				res = "panic: " + clip(fmt.Sprint(r))
			}
		}()
		if err := f(); err != nil {
			return "err: " + clip(err.Error())
		}
		return "ok"
	}
	var pkt packettypes.Packet
	must(pkt.ABIDecode(l.Sent["B/A/1"]))
	commitment, _ := packettypes.CommitPacket(&pkt)
	if cs.ClientType() == exported.TSS {
		out["verify"] = guard(func() error {
			return cs.VerifyPacketCommitment(ctx, store, cdc, clienttypes.Height{}, []byte(a.Accts[lwTSS].Acc.String()), p.ChainID, a.ChainID, 1, commitment)
		})
		out["update"] = guard(func() error {
			c2, _ := a.Ctx().CacheContext()
			hd := &tsstypes.Header{TssAddress: a.Accts[lwTSS].Acc.String(), Pubkey: []byte{8}, PartPubkeys: [][]byte{{6}}, Threshold: 1}
			msg, err := clienttypes.NewMsgUpdateClient(name, hd, a.Accts[lwTSS].Acc)
			must(err)
			_, err = a.App.XIBCKeeper.UpdateClient(sdk.WrapSDKContext(c2), msg)
			return err
		})
		return out
	}
	latest := cs.GetLatestHeight().(clienttypes.Height)
	out["verify"] = guard(func() error {
		proof, _, err := p.QueryProofAt(host.PacketCommitmentKey(p.ChainID, a.ChainID, 1), int64(latest.RevisionHeight))
		if err != nil {
			return err
		}
		return cs.VerifyPacketCommitment(ctx, store, cdc, latest, proof, p.ChainID, a.ChainID, 1, commitment)
	})
	out["update"] = guard(func() error {
		c2, _ := a.Ctx().CacheContext()
		next := l.absHeightOf("B", latest.RevisionHeight) + 1
		msg := l.tmUpdateMsg(name, next, AcctRelayer)
		if msg == nil {
			return fmt.Errorf("harness: no header for abstract height %d", next)
		}
		_, err := a.App.XIBCKeeper.UpdateClient(sdk.WrapSDKContext(c2), msg)
		return err
	})
	return out
}

func driveLifecycle(t *testing.T, in, out string, seed int64) {
	behaviours := ReadBehaviours(in)
	tw := NewTraceWriter(out)
	defer tw.Close()
	for bi, b := range behaviours {
		nameSet := map[string]bool{"na": true, "nb": true}
		for _, st := range b {
			if n := str(st["n"]); n != "" {
				nameSet[n] = true
			}
		}
		var names []string
		for n := range nameSet {
			names = append(names, n)
		}
		sort.Strings(names)
		l := newLW(names)
		emit := func(line M) {
			st, pr := M{}, M{}
			for _, n := range names {
				st[n] = l.project(n)
				pr[n] = l.probe(n)
			}
			line["st"], line["probe"] = st, pr
			line["peerH"] = len(l.AbsH["B"]) - 2
			tw.Emit(line)
		}
		emit(M{"ev": "Reset", "b": bi, "i": 0, "res": "ok", "args": M{}, "sig": "Reset", "dg": M{"pre": "", "post": ""}, "installed": true})
		for si, st := range b {
			act := str(st["act"])
			line := M{"ev": act, "b": bi, "i": si + 1, "args": st, "installed": true}
			a := l.host()
			pre := a.Digest("xibc")
			switch act {
			case "PeerCommit":
				l.Commit("B")
				line["res"], line["sig"] = "ok", "PeerCommit"
			case "Lapse":
				// the host's next block is dated 15 days later: past the trusting period of every client
				a.CommitAdvance(15 * 24 * time.Hour)
				pre = a.Digest("xibc")
				line["res"], line["sig"] = "ok", "Lapse"
			case "Create", "Upgrade", "Toggle":
				n, ty, h, ct := str(st["n"]), str(st["ty"]), int(num(st["h"])), str(st["ct"])
				content, cs, cons := l.proposal(act, n, ty, h, ct)
				res, msg := a.ExecProposal(content)
				line["res"], line["msg"] = res, clip(msg)
				line["sig"] = fmt.Sprintf("%s/%s/%s", act, ty, ct)
				if res == "ok" {
					// the stored client and consensus state are exactly those of the proposal
					name := RealName(n)
					got, ok := a.App.XIBCKeeper.ClientKeeper.GetClientState(a.Ctx(), name)
					inst := ok && string(clienttypes.MustMarshalClientState(a.App.AppCodec(), got)) == string(clienttypes.MustMarshalClientState(a.App.AppCodec(), cs))
					if ty != "tss" {
						gc, ok := a.App.XIBCKeeper.ClientKeeper.GetClientConsensusState(a.Ctx(), name, cs.GetLatestHeight())
						inst = inst && ok && string(clienttypes.MustMarshalConsensusState(a.App.AppCodec(), gc)) == string(clienttypes.MustMarshalConsensusState(a.App.AppCodec(), cons))
					}
					line["installed"] = inst
				}
			case "Update":
				n, h, s := str(st["n"]), int(num(st["h"])), str(st["signer"])
				idx := signerIdx(s)
				if s == "tss" {
					idx = lwTSS
				}
				r := l.update(n, h, idx)
				line["res"], line["msg"] = resOf(r), clip(r.Log+r.Panic)
				line["sig"] = "Update/" + s
			default:
				t.Fatalf("unknown action %q", act)
			}
			line["dg"] = M{"pre": pre, "post": a.Digest("xibc")}
			emit(line)
		}
	}
}
