package harness

import "testing"

// Drivers maps VERIF_DRIVER names to replay drivers.
var Drivers = map[string]func(t *testing.T, in, out string, seed int64){}
