package harness

import (
	"fmt"
	"math/big"
	"sort"
	"strconv"
	"strings"
	"testing"

	"github.com/ethereum/go-ethereum/common"
	"github.com/ethereum/go-ethereum/crypto"

	tsstypes "github.com/teleport-network/teleport/x/xibc/clients/tss-client/types"
	clienttypes "github.com/teleport-network/teleport/x/xibc/core/client/types"
	packettypes "github.com/teleport-network/teleport/x/xibc/core/packet/types"
	"github.com/teleport-network/teleport/x/xibc/exported"
)

func init() { Drivers["auth"] = driveAuth }

// The authorisation world (C06): one host chain with two Tendermint clients of synthetic counterparties
// ("one", "two") and one TSS client ("tss"); accounts r1, r2 (relayers), tss (the TSS account), out (never
// registered) and the user.  The registry is changed through the routed RegisterRelayer proposal.
const (
	auUser = 0
	auR1   = 1
	auOut  = 2
	auTSS  = 3 // = lcTSS: LC.tssState / UpdateTSS take the TSS account from this index
	auR2   = 4
)

var auAcct = map[string]int{"user": auUser, "r1": auR1, "out": auOut, "tss": auTSS, "r2": auR2}
var auChains = []string{"one", "two", "tss"}

type authWorld struct {
	W      *World
	C      *Chain
	L      map[string]*LC // per synthetic counterparty
	Next   map[string]uint64
	RecvN  map[string]uint64 // highest sequence received per chain
	Sent   uint64            // packets sent to the TSS chain
	Fwd    map[string]common.Address
	HostID string
	curTss int // index of the account governance configured as TSS account (creation: auTSS)
}

// auName: the real chain name of an abstract counterparty.  The names are valid ones of different lengths: "one" is short,
// "tss" has 51 characters and "two" the maximum of 64, so that stores, genesis validation and queries see long names too.
// (The destination of this world's sends, "tss", avoids lengths of 31, 32, 63 and 64: the endpoint system contract
// reverts with Panic(0x11) for those - DESIGN.md 9.7.)
func auName(c string) string {
	n := "cli-" + c
	switch c {
	case "two":
		n += strings.Repeat("w", 64-len(n))
	case "tss":
		// every character class a chain name may contain: letters, digits and . _ + - # [ ] < >
		n += ".a_b+c-d#e[f]g<h>9"
		n += strings.Repeat("s", 51-len(n))
	}
	return n
}

// auAbs: the abstract name of a real chain name
func auAbs(real string) string {
	for _, c := range []string{"one", "two", "tss"} {
		if auName(c) == real {
			return c
		}
	}
	return strings.TrimPrefix(real, "cli-")
}

func newAuthWorld() *authWorld {
	w := NewWorldAccts([]string{"A"}, func(n string) []Acct {
		return []Acct{NewAcct(n + "/user"), NewAcct("relayer"), NewAcct("outsider"), NewAcct("tss"), NewAcct("relayer2")}
	})
	c := w.Chains["A"]
	a := &authWorld{W: w, C: c, L: map[string]*LC{}, Next: map[string]uint64{}, RecvN: map[string]uint64{}, Fwd: map[string]common.Address{}, HostID: w.ID["A"], curTss: auTSS}
	for _, n := range []string{"one", "two"} {
		l := &LC{C: c, Synth: NewSynthTM("syn" + n), W: 2}
		a.L[n] = l
		cs, cons := l.states("tm", 1, 2)
		must(c.App.XIBCKeeper.ClientKeeper.CreateClient(c.Ctx(), auName(n), cs, cons))
		a.Next[n] = 3
	}
	lt := &LC{C: c, Synth: NewSynthTM("unused"), W: 2}
	a.L["tss"] = lt
	cs, cons := lt.tssState()
	must(c.App.XIBCKeeper.ClientKeeper.CreateClient(c.Ctx(), auName("tss"), cs, cons))
	// forwarding contracts (the caller the system contract sees is the forwarder)
	for _, t := range []struct {
		n string
		a common.Address
	}{{"packet", packetAddr}, {"endpoint", endpAddr}, {"execute", execAddr}} {
		nonce := c.App.EvmKeeper.GetNonce(c.Ctx(), c.Accts[auUser].Eth)
		addr := crypto.CreateAddress(c.Accts[auUser].Eth, nonce)
		if r := c.DeliverEth(c.Accts[auUser], nil, nil, proxyCode("forward", t.a)); !r.OK() {
			panic("deploy forwarder: " + r.Log + r.VMError)
		}
		a.Fwd[t.n] = addr
	}
	w.Commit("A")
	return a
}

func (a *authWorld) counter(r, chain string, v int64) string {
	if v == 3 {
		return fmt.Sprintf("cp-any-%s-v3", chain) // an address several relayers share on that chain
	}
	return fmt.Sprintf("cp-%s-%s-v%d", r, chain, v)
}

// what the sender puts into the proof field: junk, or the TSS account's address (what a TSS client compares its
// "proof" with - the keeper must have replaced the field by the signer before that)
func (a *authWorld) proof(kind string) []byte {
	if kind == "tssaddr" {
		return []byte(a.C.Accts[auTSS].Acc.String())
	}
	return []byte("no-proof")
}

// privileged call data: contract name, address and packed call
func (a *authWorld) privCall(method string) (string, common.Address, []byte) {
	tok := a.W.Origin["A"]
	pkt := packettypes.Packet{SrcChain: auName("tss"), DstChain: a.HostID, Sequence: 900, Sender: "0xabc", TransferData: []byte{}, CallData: []byte{1}, CallbackAddress: "", FeeOption: 0}
	out := packettypes.Packet{SrcChain: a.HostID, DstChain: auName("tss"), Sequence: 1, Sender: strings.ToLower(a.C.Accts[auUser].Eth.String()), TransferData: []byte{}, CallData: []byte{1}, CallbackAddress: "", FeeOption: 0}
	if bz, ok := a.W.Sent[fmt.Sprintf("A/%s/1", auName("tss"))]; ok {
		var p packettypes.Packet
		if p.ABIDecode(bz) == nil {
			out = p
		}
	}
	ack := packettypes.NewAcknowledgement(1, []byte{}, "forged", a.counter("r1", "tss", 1), 0)
	user := a.C.Accts[auUser].Eth
	switch method {
	case "setSequence":
		return "packet", packetAddr, mustPack(packetABI, "setSequence", auName("tss"), uint64(77))
	case "setAckStatus":
		return "packet", packetAddr, mustPack(packetABI, "setAckStatus", auName("tss"), uint64(1), uint8(2))
	case "setChainName":
		return "packet", packetAddr, mustPack(packetABI, "setChainName", "evil-chain")
	case "sendPacketFeeToRelayer":
		return "packet", packetAddr, mustPack(packetABI, "sendPacketFeeToRelayer", auName("tss"), uint64(1), user)
	case "packet.onRecvPacket":
		return "packet", packetAddr, mustPack(packetABI, "onRecvPacket", pkt)
	case "OnAcknowledgePacket":
		return "packet", packetAddr, mustPack(packetABI, "OnAcknowledgePacket", out, ack)
	case "bindToken":
		return "endpoint", endpAddr, mustPack(endpointABI, "bindToken", tok, "0xforeign", auName("tss"), uint8(0))
	case "enableLimit":
		return "endpoint", endpAddr, mustPack(endpointABI, "enableTimeBasedSupplyLimit", tok, big.NewInt(10), big.NewInt(1), big.NewInt(1), big.NewInt(5))
	case "disableLimit":
		return "endpoint", endpAddr, mustPack(endpointABI, "disableTimeBasedSupplyLimit", tok)
	case "endpoint.onRecvPacket":
		return "endpoint", endpAddr, mustPack(endpointABI, "onRecvPacket", pkt)
	case "onAcknowledgementPacket":
		return "endpoint", endpAddr, mustPack(endpointABI, "onAcknowledgementPacket", out, uint64(1), []byte{}, "forged")
	}
	panic("unknown privileged method " + method)
}

func (a *authWorld) registry() M {
	out := M{}
	for n := range auAcct {
		out[n] = []interface{}{}
	}
	byAddr := map[string]string{}
	for n, i := range auAcct {
		byAddr[a.C.Accts[i].Acc.String()] = n
	}
	for _, ir := range a.C.App.XIBCKeeper.ClientKeeper.GetAllRelayers(a.C.Ctx()) {
		n, ok := byAddr[ir.Address]
		if !ok {
			continue
		}
		var ent []interface{}
		for i, ch := range ir.Chains {
			ent = append(ent, M{"c": auAbs(ch), "a": ir.Addresses[i]})
		}
		sort.Slice(ent, func(i, j int) bool { return ent[i].(M)["c"].(string) < ent[j].(M)["c"].(string) })
		if ent == nil {
			ent = []interface{}{}
		}
		out[n] = ent
	}
	return out
}

func (a *authWorld) project() M {
	c := a.C
	ctx := c.Ctx()
	reg := a.registry()
	st := M{"reg": reg}
	// the version each account's registration carries, read back from the registered addresses
	ver := M{}
	for n, e := range reg {
		v := int64(1)
		for _, x := range e.([]interface{}) {
			addr := x.(M)["a"].(string)
			if i := strings.LastIndex(addr, "-v"); i >= 0 {
				if p, err := strconv.ParseInt(addr[i+2:], 10, 64); err == nil {
					v = p
				}
			}
		}
		ver[n] = v
	}
	st["ver"] = ver
	lat := M{}
	for _, n := range []string{"one", "two"} {
		cs, _ := c.App.XIBCKeeper.ClientKeeper.GetClientState(ctx, auName(n))
		lat[n] = int64(cs.GetLatestHeight().GetRevisionHeight())
	}
	tcs, _ := c.App.XIBCKeeper.ClientKeeper.GetClientState(ctx, auName("tss"))
	lat["tss"] = fp(tcs.String())
	st["lat"] = lat
	// receipts by direct look-up of every sequence that was ever tried (not through the module's own iterator)
	rc := []interface{}{}
	for _, ch := range auChains {
		for seq := uint64(1); seq <= a.RecvN[ch]+2; seq++ {
			if c.App.XIBCKeeper.PacketKeeper.HasPacketReceipt(ctx, auName(ch), a.HostID, seq) {
				rc = append(rc, M{"c": ch, "s": int64(seq)})
			}
		}
	}
	st["rcpt"] = rc
	cm := []interface{}{}
	commitok := true
	for _, r := range c.App.XIBCKeeper.PacketKeeper.GetAllPacketCommitments(ctx) {
		cm = append(cm, int64(r.Sequence))
		// the stored commitment is the hash of the packet bytes the chain emitted for that sequence
		if a.W.SentHash[fmt.Sprintf("%x", r.Data)] != a.W.key(r.SrcChain, r.DstChain, r.Sequence) { // SentHash: sha256 of the emitted bytes -> path
			commitok = false
		}
	}
	st["commits"] = cm
	st["commitok"] = commitok
	ar := []interface{}{}
	for _, pa := range c.App.XIBCKeeper.PacketKeeper.GetAllPacketAcks(ctx) {
		k := fmt.Sprintf("%s/A/%d", pa.SrcChain, pa.Sequence)
		e := M{"c": auAbs(pa.SrcChain), "s": int64(pa.Sequence), "rel": "?", "code": int64(-1)}
		var ack packettypes.Acknowledgement
		if bz, ok := a.W.AckBytes[k]; ok && ack.ABIDecode(bz) == nil {
			// the bytes harvested from the event are the committed ones
			if h := packettypes.CommitAcknowledgement(bz); fmt.Sprintf("%x", h) == fmt.Sprintf("%x", pa.Data) {
				e["rel"], e["code"] = ack.Relayer, int64(ack.Code)
			}
		}
		ar = append(ar, e)
	}
	st["acks"] = ar
	fee := M{}
	for n, i := range auAcct {
		fee[n] = a.W.viewBig(c, erc20ABI, a.W.Origin["A"], "balanceOf", c.Accts[i].Eth)
	}
	st["fee"] = fee
	st["sent"] = a.W.viewBig(c, packetABI, packetAddr, "getNextSequenceSend", auName("tss")) - 1
	hs := M{}
	for _, n := range []string{"one", "two"} {
		cs, _ := c.App.XIBCKeeper.ClientKeeper.GetClientState(ctx, auName(n))
		hs[n] = int64(cs.GetLatestHeight().GetRevisionHeight()) - 2
	}
	hs["tss"] = int64(a.tssVersion())
	st["upd"] = hs
	st["tssacct"] = "none"
	if cs, ok := c.App.XIBCKeeper.ClientKeeper.GetClientState(ctx, auName("tss")); ok {
		if t, ok := cs.(*tsstypes.ClientState); ok {
			for name, i := range auAcct {
				if c.Accts[i].Acc.String() == t.TssAddress {
					st["tssacct"] = name
				}
			}
		}
	}
	tok := a.W.Origin["A"]
	priv := M{
		"chainName": fmt.Sprint(viewAny(c, packetABI, packetAddr, "chainName")),
		"seqTss":    a.W.viewBig(c, packetABI, packetAddr, "getNextSequenceSend", auName("tss")),
		"seqOne":    a.W.viewBig(c, packetABI, packetAddr, "getNextSequenceSend", auName("one")),
		"ack1":      a.W.viewBig(c, packetABI, packetAddr, "getAckStatus", auName("tss"), uint64(1)),
		"ack2":      a.W.viewBig(c, packetABI, packetAddr, "getAckStatus", auName("tss"), uint64(2)),
		"feeBal":    a.W.viewBig(c, erc20ABI, tok, "balanceOf", packetAddr),
		"escrow":    a.W.viewBig(c, erc20ABI, tok, "balanceOf", endpAddr),
		"userBal":   a.W.viewBig(c, erc20ABI, tok, "balanceOf", c.Accts[auUser].Eth),
		"bind":      fmt.Sprint(viewAny(c, endpointABI, endpAddr, "getBindings", strings.ToLower(tok.String())+"/"+auName("tss"))),
		"limit":     fmt.Sprint(viewAny(c, endpointABI, endpAddr, "limits", tok)),
		"latest":    fp(fmt.Sprint(viewAny(c, packetABI, packetAddr, "getLatestPacket"))),
	}
	st["priv"] = priv
	st["privfp"] = fp(fmt.Sprint(priv["chainName"], priv["seqTss"], priv["seqOne"], priv["ack1"], priv["ack2"], priv["feeBal"], priv["escrow"], priv["userBal"], priv["bind"], priv["limit"]))
	return st
}

func proofHeightOf(cs interface{ GetLatestHeight() exported.Height }) clienttypes.Height {
	h := cs.GetLatestHeight().(clienttypes.Height)
	if h.IsZero() {
		return clienttypes.NewHeight(0, 1) // TSS clients have no heights; the message must carry a non-zero one
	}
	return h
}

// tssVersion: the number of accepted TSS updates, read back from the stored client state (the updates carry the
// counter in the second byte of the public key)
func (a *authWorld) tssVersion() int {
	cs, _ := a.C.App.XIBCKeeper.ClientKeeper.GetClientState(a.C.Ctx(), auName("tss"))
	if t, ok := cs.(*tsstypes.ClientState); ok && len(t.Pubkey) == 2 && t.Pubkey[0] == 9 {
		return int(t.Pubkey[1])
	}
	return 0
}

func viewAny(c *Chain, a abiT, addr common.Address, method string, args ...interface{}) interface{} {
	out, err := c.View(a, addr, method, args...)
	if err != nil {
		return "err:" + err.Error()
	}
	return out
}

func driveAuth(t *testing.T, in, out string, seed int64) {
	behaviours := ReadBehaviours(in)
	tw := NewTraceWriter(out)
	defer tw.Close()
	for bi, b := range behaviours {
		a := newAuthWorld()
		c := a.C
		RoundTripAtEnd("auth", bi, map[string]*Chain{"host": c})
		emit := func(line M) {
			line["st"] = a.project()
			line["dg"] = c.Digest("evm", "xibc", "aggregate")
			tw.Emit(line)
		}
		emit(M{"ev": "Init", "b": bi, "i": 0, "res": "ok", "args": M{}, "sig": "Init"})
		for si, st := range b {
			act := str(st["act"])
			line := M{"ev": act, "b": bi, "i": si + 1, "args": st, "res": "ok"}
			switch act {
			case "Register":
				r := str(st["r"])
				var names, addrs []string
				for _, x := range st["chains"].([]interface{}) {
					names = append(names, auName(x.(string)))
					addrs = append(addrs, a.counter(r, x.(string), num(st["v"])))
				}
				res, msg := c.ExecProposal(clienttypes.NewRegisterRelayerProposal("t", "d", c.Accts[auAcct[r]].Acc.String(), names, addrs))
				line["res"], line["msg"] = res, msg
				if res != "ok" {
					line["res"] = "err"
				}
			case "Regenesis":
				// the host chain is restarted from its own exported genesis
				res, msg := a.W.Regenesis("A")
				line["res"], line["msg"] = res, clip(msg)
			case "Rotate":
				// governance moves the TSS client to another TSS account: an UpgradeClientProposal with a new client state
				to := auAcct[str(st["to"])]
				ncs := &tsstypes.ClientState{TssAddress: c.Accts[to].Acc.String(), Pubkey: []byte{9, byte(a.tssVersion())}, PartPubkeys: [][]byte{{7}}, Threshold: 1}
				prop, err := clienttypes.NewUpgradeClientProposal("t", "d", auName("tss"), ncs, &tsstypes.ConsensusState{})
				must(err)
				res, msg := c.ExecProposal(prop)
				line["res"], line["msg"] = res, msg
				if res == "ok" {
					a.curTss = to
				} else {
					line["res"] = "err"
				}
			case "Update":
				ch, s := str(st["chain"]), auAcct[str(st["signer"])]
				var r TxResult
				if ch == "tss" {
					// the header keeps the account governance configured (a.curTss); it only counts the update
					hd := &tsstypes.Header{TssAddress: c.Accts[a.curTss].Acc.String(), Pubkey: []byte{9, byte(a.tssVersion() + 1)}, PartPubkeys: [][]byte{{7}}, Threshold: 1}
					msg, err := clienttypes.NewMsgUpdateClient(auName(ch), hd, c.Accts[s].Acc)
					must(err)
					r = c.DeliverMsgs(c.Accts[s], msg)
				} else {
					r = a.L[ch].UpdateTM(auName(ch), 1, a.Next[ch], s)
					if r.OK() {
						a.Next[ch]++
					}
				}
				line["res"], line["msg"] = resOf(r), clip(r.Log)
			case "Recv":
				ch, s := str(st["chain"]), auAcct[str(st["signer"])]
				seq := a.RecvN[ch] + 1
				if b, _ := st["dup"].(bool); b && a.RecvN[ch] > 0 {
					seq = a.RecvN[ch]
				}
				target, data := strings.ToLower(a.W.Marker.String()), []byte{0x01}
				if m := str(st["call"]); m != "" && m != "none" && m != "malformed" {
					_, addr, d := a.privCall(m)
					target, data = strings.ToLower(addr.String()), d
				}
				cdv := packettypes.CallData{ContractAddress: target, CallData: data}
				cd, err := cdv.ABIPack()
				must(err)
				if str(st["call"]) == "malformed" {
					cd = []byte{1, 2, 3} // not ABI-decodable: the callback itself reverts ("receive packet callback failed")
				}
				p := packettypes.Packet{SrcChain: auName(ch), DstChain: a.HostID, Sequence: seq, Sender: "0xsender", TransferData: []byte{}, CallData: cd, CallbackAddress: "", FeeOption: 0}
				bz, err := p.ABIPack()
				must(err)
				cs, _ := c.App.XIBCKeeper.ClientKeeper.GetClientState(c.Ctx(), auName(ch))
				msg := packettypes.NewMsgRecvPacket(bz, a.proof(str(st["proof"])), proofHeightOf(cs), c.Accts[s].Acc)
				r := c.DeliverMsgs(c.Accts[s], msg)
				a.W.harvest("A", r)
				if r.OK() && seq > a.RecvN[ch] {
					a.RecvN[ch] = seq
				}
				line["res"], line["msg"] = resOf(r), clip(r.Log)
				line["seq"] = int64(seq)
				line["key"] = fmt.Sprintf("%s/A/%d", auName(ch), seq)
			case "Send":
				r := a.W.Send(SendSpec{Src: "A", Dst: auName("tss"), Kind: "fwd", Amt: 1, Call: "none", Fee: 1})
				if r.OK() {
					a.Sent++
				}
				line["res"], line["msg"] = resOf(r), clip(r.Log+r.VMError)
			case "Ack":
				s := auAcct[str(st["signer"])]
				seq := uint64(num(st["seq"]))
				rel := str(st["rel"])
				bz, ok := a.W.Sent[fmt.Sprintf("A/%s/%d", auName("tss"), seq)]
				if !ok {
					p := packettypes.Packet{SrcChain: a.HostID, DstChain: auName("tss"), Sequence: seq, Sender: "0xsender", TransferData: []byte{}, CallData: []byte{1}, CallbackAddress: "", FeeOption: 0}
					bz, _ = p.ABIPack()
				}
				ackbz, err := packettypes.NewAcknowledgement(0, []byte{}, "", rel, 0).ABIPack()
				must(err)
				cs, _ := c.App.XIBCKeeper.ClientKeeper.GetClientState(c.Ctx(), auName("tss"))
				msg := packettypes.NewMsgAcknowledgement(bz, ackbz, a.proof(str(st["proof"])), proofHeightOf(cs), c.Accts[s].Acc)
				r := c.DeliverMsgs(c.Accts[s], msg)
				line["res"], line["msg"] = resOf(r), clip(r.Log)
			case "Priv":
				path, m := str(st["path"]), str(st["method"])
				cname, addr, data := a.privCall(m)
				user := c.Accts[auUser]
				var r TxResult
				switch path {
				case "eoa":
					r = c.DeliverEth(user, addrp(addr), nil, data)
				case "contract":
					r = c.DeliverEth(user, addrp(a.Fwd[cname]), nil, data)
				case "execute":
					r = c.DeliverEth(user, addrp(execAddr), nil, mustPack(executeABI, "execute", packettypes.CallData{ContractAddress: strings.ToLower(addr.String()), CallData: data}))
				case "execute-contract":
					r = c.DeliverEth(user, addrp(a.Fwd["execute"]), nil, mustPack(executeABI, "execute", packettypes.CallData{ContractAddress: strings.ToLower(addr.String()), CallData: data}))
				default:
					t.Fatalf("unknown path %q", path)
				}
				line["res"], line["msg"] = resOf(r), clip(r.Log+r.VMError)
			case "Commit":
				a.W.Commit("A")
			default:
				t.Fatalf("unknown action %q", act)
			}
			line["sig"] = fmt.Sprintf("%s/%s/%s/%s", act, str(st["path"]), str(st["method"]), str(st["chain"]))
			emit(line)
		}
	}
}
