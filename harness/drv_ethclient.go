package harness

import (
	"encoding/hex"
	"encoding/json"
	"fmt"
	ethgotypes "github.com/ethereum/go-ethereum/core/types"
	"github.com/ethereum/go-ethereum/crypto"
	"math/big"
	"os"
	"path/filepath"
	"strconv"
	"strings"
	"testing"
	"time"

	"github.com/ethereum/go-ethereum/common"

	ethtypes "github.com/teleport-network/teleport/x/xibc/clients/light-clients/eth/types"
	clienttypes "github.com/teleport-network/teleport/x/xibc/core/client/types"
	"github.com/teleport-network/teleport/x/xibc/core/host"
)

func init() { Drivers["ethclient"] = driveETHClient }

// ethTree is the header universe of ETHClient.tla (MC_eth.tla) instantiated as real Ethereum headers.
type ethTree struct {
	Parent map[string]string
	Height map[string]uint64
	Root   map[string]string
	Valid  map[string]bool
	Hdr    map[string]*ethtypes.Header
	ByHash map[common.Hash]string
	ByRoot map[string]string // hex root -> root name
}

// refBaseFee is EIP-1559 written down independently of the code under test.
func refBaseFee(parentBase, parentLimit, parentUsed uint64) uint64 {
	target := parentLimit / 2
	switch {
	case parentUsed == target:
		return parentBase
	case parentUsed > target:
		d := parentBase * (parentUsed - target) / target / 8
		if d < 1 {
			d = 1
		}
		return parentBase + d
	default:
		d := parentBase * (target - parentUsed) / target / 8
		if d > parentBase {
			return 0
		}
		return parentBase - d
	}
}

// refGasLimitOK: |limit - parentLimit| < parentLimit/1024 and limit >= 5000
func refGasLimitOK(parentLimit, limit uint64) bool {
	d := int64(parentLimit) - int64(limit)
	if d < 0 {
		d = -d
	}
	return uint64(d) < parentLimit/1024 && limit >= 5000
}

func newEthTree(baseTime uint64) *ethTree {
	t := &ethTree{
		Parent: map[string]string{"a1": "g", "a2": "a1", "a3": "a2", "b1": "g", "b2": "b1", "c2": "b1", "m1": "g", "a4": "a3", "b3": "b2", "c3": "c2", "d3": "c2",
			"n2": "a1", "p2": "b1", "k1": "g", "l1": "g"},
		Height: map[string]uint64{"g": 0, "a1": 1, "a2": 2, "a3": 3, "b1": 1, "b2": 2, "c2": 2, "m1": 1, "a4": 4, "b3": 3, "c3": 3, "d3": 3, "n2": 2, "p2": 2, "k1": 1, "l1": 1},
		Root: map[string]string{"g": "rg", "a1": "ra1", "a2": "ra2", "a3": "ra3", "b1": "rb1", "b2": "rb2", "c2": "rb2", "m1": "rm1", "a4": "ra4", "b3": "rb3", "c3": "rc3", "d3": "rc3",
			"n2": "rn2", "p2": "rp2", "k1": "rk1", "l1": "rl1"},
		Valid: map[string]bool{"a1": true, "a2": true, "a3": true, "b1": true, "b2": true, "c2": true, "m1": false, "a4": true, "b3": true, "c3": true, "d3": true,
			"n2": false, "p2": false, "k1": false, "l1": true},
		Hdr: map[string]*ethtypes.Header{}, ByHash: map[common.Hash]string{}, ByRoot: map[string]string{},
	}
	// gas used: a1 below the target (base fee of its children falls by a delta that rounds to zero), b1 above it
	// (base fee of its children rises by at least one); everything else exactly at the target
	used := map[string]uint64{"a1": 10_000_000, "b1": 20_000_000}
	// mutants: n2 = child of a1 with a base fee one too low, p2 = child of b1 that keeps the base fee,
	// k1 = gas limit raised by exactly parent/1024 (one too much), l1 = raised by parent/1024-1 (allowed), m1 = timestamp
	baseOff := map[string]int64{"n2": -1, "p2": -1}
	limitOf := map[string]uint64{"k1": 30_000_000 + 30_000_000/1024, "l1": 30_000_000 + 30_000_000/1024 - 1}
	order := []string{"g", "a1", "a2", "a3", "a4", "b1", "b2", "b3", "c2", "c3", "d3", "m1", "n2", "p2", "k1", "l1"}
	for _, id := range order {
		root := make([]byte, 32)
		copy(root, []byte(t.Root[id]))
		t.ByRoot[hex.EncodeToString(root)] = t.Root[id]
		gu := uint64(15_000_000)
		if u, ok := used[id]; ok {
			gu = u
		}
		h := &ethtypes.Header{
			UncleHash: make([]byte, 32), Coinbase: common.BytesToAddress([]byte(id)).Bytes(), Root: root, TxHash: make([]byte, 32), ReceiptHash: make([]byte, 32),
			Bloom: make([]byte, 256), Difficulty: big.NewInt(1).Bytes(), Height: clienttypes.NewHeight(0, 100+t.Height[id]),
			GasLimit: 30_000_000, GasUsed: gu, Time: baseTime + 10*t.Height[id] + ethBranchDelay(id), Extra: []byte(id), MixDigest: make([]byte, 32),
			BaseFee: big.NewInt(7).Bytes(), ParentHash: make([]byte, 32),
		}
		if id != "g" {
			par := t.Hdr[t.Parent[id]]
			ph := par.Hash()
			h.ParentHash = ph.Bytes()
			if l, ok := limitOf[id]; ok {
				h.GasLimit = l
				h.GasUsed = l / 2
			}
			want := refBaseFee(new(big.Int).SetBytes(par.BaseFee).Uint64(), par.GasLimit, par.GasUsed)
			h.BaseFee = big.NewInt(int64(want) + baseOff[id]).Bytes()
			if id == "m1" {
				h.Time = par.Time // not later than the parent: breaks the timestamp rule
			}
			// self-check of the universe: the flag the specification carries is what the reference rules say
			ok := h.Time > par.Time && baseOff[id] == 0 && refGasLimitOK(par.GasLimit, h.GasLimit)
			if ok != t.Valid[id] {
				panic("header universe inconsistent for " + id)
			}
		}
		t.Hdr[id] = h
		t.ByHash[h.Hash()] = id
	}
	return t
}

const ethName = "cli-eth"

// ethBranchDelay: in the expiry leg (VERIF_ETH_TP set) the headers of the competing branches b, c and d are dated 26 s
// later than the a branch's, so that a re-pointed low height can be younger than a height above it
func ethBranchDelay(id string) uint64 {
	if os.Getenv("VERIF_ETH_TP") != "" && id != "g" && (id[0] == 'b' || id[0] == 'c' || id[0] == 'd' || id[0] == 'p') {
		return 26
	}
	return 0
}

// refDifficulty: the Byzantium / EIP-100 difficulty formula written down independently of the code under test (block
// numbers far below the bomb delay): parent + parent/2048 * max((2 if parent has uncles else 1) - dt/9, -99), at least 131072
func refDifficulty(parentDiff *big.Int, parentHasUncles bool, dt uint64) *big.Int {
	y := int64(1)
	if parentHasUncles {
		y = 2
	}
	y -= int64(dt / 9)
	if y < -99 {
		y = -99
	}
	adj := new(big.Int).Div(parentDiff, big.NewInt(2048))
	adj.Mul(adj, big.NewInt(y))
	d := new(big.Int).Add(parentDiff, adj)
	if d.Cmp(big.NewInt(131072)) < 0 {
		d = big.NewInt(131072)
	}
	return d
}

func init() { Drivers["ethpow"] = driveETHPow }

// driveETHPow: one proof-of-work client (chain id 1) per case, created at a parent header of the case's class; the child
// header abides by every other rule and carries the case's difficulty.  Recorded: the stage at which it is refused.
func driveETHPow(t *testing.T, in, out string, seed int64) {
	cases := ReadBehaviours(in)
	tw := NewTraceWriter(out)
	defer tw.Close()
	l := NewLC()
	c := l.C
	noUncles := ethgotypes.EmptyUncleHash.Bytes()
	someUncles := crypto.Keccak256([]byte("two uncles"))
	var real []*ethtypes.EthHeader // the repository's genuinely sealed main-net headers
	if bz, err := os.ReadFile(filepath.Join(os.Getenv("VERIF_REPO_DIR"), "x/xibc/clients/light-clients/eth/types/testdata/update_headers.json")); err == nil {
		_ = json.Unmarshal(bz, &real)
	}
	for bi, b := range cases {
		cs := b[0]
		name := fmt.Sprintf("pow-%d", bi)
		l.EnsureRelayer([]string{name})
		if str(cs["fam"]) == "real" {
			if len(real) < 3 {
				t.Fatalf("main-net test headers not found (VERIF_REPO_DIR=%q)", os.Getenv("VERIF_REPO_DIR"))
			}
			// the chain's clock moves past the headers' dates (September 2021); DetRecord keeps what both replicas must agree on
			if c.Header.Time.Unix() < int64(real[2].Time)+3600 {
				c.SetTime(time.Unix(int64(real[2].Time)+3600, 0).UTC())
			}
			g := real[0].ToHeader()
			cst := &ethtypes.ClientState{Header: g, ChainId: powChainID(str(cs["chain"])), ContractAddress: common.HexToAddress("0x1234").Bytes(), TrustingPeriod: 1_000_000_000}
			cons := &ethtypes.ConsensusState{Timestamp: g.Time, Height: g.Height, Root: g.Root}
			prop, err := clienttypes.NewCreateClientProposal("t", "d", name, cst, cons)
			must(err)
			if res, msg := c.ExecProposal(prop); res != "ok" {
				t.Fatalf("create main-net client: %s %s", res, msg)
			}
			submit := func(h ethtypes.Header) TxResult {
				msg, err := clienttypes.NewMsgUpdateClient(name, &h, c.Accts[lcRelayer].Acc)
				must(err)
				return c.DeliverMsgs(c.Accts[lcRelayer], msg)
			}
			child := real[1].ToHeader()
			want := child
			switch str(cs["mut"]) {
			case "nonce":
				child.Nonce = real[2].ToHeader().Nonce
			case "mixdigest":
				child.MixDigest = real[2].ToHeader().MixDigest
			case "difficulty":
				child.Difficulty = new(big.Int).Add(new(big.Int).SetBytes(child.Difficulty), big.NewInt(1)).Bytes()
			case "second":
				if r := submit(child); !r.OK() {
					t.Logf("first main-net child refused: %s", r.Log)
				}
				child = real[2].ToHeader()
				want = child
			}
			pre := c.Digest("xibc")
			r := submit(child)
			cs2, _ := c.App.XIBCKeeper.ClientKeeper.GetClientState(c.Ctx(), name)
			headok := cs2 != nil && cs2.GetLatestHeight().GetRevisionHeight() == want.Height.RevisionHeight
			tw.Emit(M{"ev": "Pow", "b": bi, "i": 0, "args": cs, "res": resOf(r), "msg": clip(r.Log), "stage": "real", "same": false, "headok": headok,
				"sig": "Pow/real/" + str(cs["chain"]) + "/" + str(cs["mut"]), "dg": M{"pre": pre, "post": c.Digest("xibc")}})
			continue
		}
		pd := big.NewInt(131072)
		if str(cs["parentDiff"]) == "large" {
			pd = new(big.Int).Lsh(big.NewInt(1), 40)
		}
		base := uint64(c.Header.Time.Unix()) - 5000
		root := make([]byte, 32)
		copy(root, []byte(fmt.Sprintf("pow-root-%d", bi)))
		uh := func(has bool) []byte {
			if has {
				return someUncles
			}
			return noUncles
		}
		parent := &ethtypes.Header{UncleHash: uh(cs["parentUncles"].(bool)), Coinbase: common.BytesToAddress([]byte("p")).Bytes(), Root: root, TxHash: make([]byte, 32),
			ReceiptHash: make([]byte, 32), Bloom: make([]byte, 256), Difficulty: pd.Bytes(), Height: clienttypes.NewHeight(0, 100), GasLimit: 30_000_000, GasUsed: 15_000_000,
			Time: base, Extra: []byte("parent"), MixDigest: make([]byte, 32), BaseFee: big.NewInt(7).Bytes(), ParentHash: make([]byte, 32)}
		cst := &ethtypes.ClientState{Header: *parent, ChainId: powChainID(str(cs["chain"])), ContractAddress: common.HexToAddress("0x1234").Bytes(), TrustingPeriod: 1_000_000_000}
		cons := &ethtypes.ConsensusState{Timestamp: parent.Time, Height: parent.Height, Root: parent.Root}
		prop, err := clienttypes.NewCreateClientProposal("t", "d", name, cst, cons)
		must(err)
		if res, msg := c.ExecProposal(prop); res != "ok" {
			t.Fatalf("create pow client: %s %s", res, msg)
		}
		dt := map[string]uint64{"1s": 1, "9s": 9, "18s": 18, "1000s": 1000}[str(cs["dt"])]
		right := refDifficulty(pd, cs["parentUncles"].(bool), dt)
		claim := new(big.Int).Set(right)
		switch str(cs["claim"]) {
		case "otheruncle":
			claim = refDifficulty(pd, !cs["parentUncles"].(bool), dt)
		case "plus1":
			claim.Add(claim, big.NewInt(1))
		case "parent":
			claim.Set(pd)
		}
		ph := parent.Hash()
		child := &ethtypes.Header{UncleHash: uh(cs["childUncles"].(bool)), Coinbase: common.BytesToAddress([]byte("c")).Bytes(), Root: root, TxHash: make([]byte, 32),
			ReceiptHash: make([]byte, 32), Bloom: make([]byte, 256), Difficulty: claim.Bytes(), Height: clienttypes.NewHeight(0, 101), GasLimit: 30_000_000, GasUsed: 15_000_000,
			Time: base + dt, Extra: []byte("child"), MixDigest: make([]byte, 32), BaseFee: big.NewInt(7).Bytes(), ParentHash: ph.Bytes()}
		pre := c.Digest("xibc")
		msg, err := clienttypes.NewMsgUpdateClient(name, child, c.Accts[lcRelayer].Acc)
		must(err)
		r := c.DeliverMsgs(c.Accts[lcRelayer], msg)
		stage := "other"
		switch {
		case r.OK():
			stage = "accepted"
		case strings.Contains(r.Log, "invalid difficulty"):
			stage = "difficulty"
		case strings.Contains(r.Log, "header invalid") && !strings.Contains(r.Log, "SyncBlockHeader"):
			// the bare "header invalid" error: the timestamp rule (which these headers satisfy) or the seal verification
			stage = "seal"
		}
		tw.Emit(M{"ev": "Pow", "b": bi, "i": 0, "args": cs, "res": resOf(r), "msg": clip(r.Log), "stage": stage, "same": claim.Cmp(right) == 0,
			"sig": fmt.Sprintf("Pow/%s/%s", str(cs["claim"]), stage), "dg": M{"pre": pre, "post": c.Digest("xibc")}})
	}
}

func (t *ethTree) project(c *Chain) M {
	pre := "clients/" + ethName + "/"
	index, rootMain, cons := []string{}, [][]interface{}{}, [][]interface{}{}
	dump := c.DumpStore("xibc", []byte(pre))
	for _, k := range SortedKeys(dump) {
		kb, _ := hex.DecodeString(k)
		sub := string(kb[len(pre):])
		vb, _ := hex.DecodeString(dump[k])
		switch {
		case strings.HasPrefix(sub, ethtypes.KeyIndexEthHeaderPrefix+"/"):
			rest := strings.TrimPrefix(sub, ethtypes.KeyIndexEthHeaderPrefix+"/")
			hash := common.HexToHash(rest[:66])
			id, ok := t.ByHash[hash]
			if !ok {
				id = "?" + rest[:10]
			}
			hh, _ := strconv.ParseUint(rest[66:], 10, 64)
			if ok && hh != 100+t.Height[id] {
				id = id + "@" + rest[66:]
			}
			index = append(index, id)
		case strings.HasPrefix(sub, ethtypes.KeyMainRootPrefix+"/"):
			rest := strings.TrimPrefix(sub, ethtypes.KeyMainRootPrefix+"/")
			root := t.ByRoot[strings.TrimPrefix(rest[:66], "0x")]
			hh, _ := strconv.ParseUint(rest[66:], 10, 64)
			// the value is the header index key the entry points to
			val := strings.TrimPrefix(string(vb), ethtypes.KeyIndexEthHeaderPrefix+"/")
			id := "?"
			if len(val) >= 66 {
				if x, ok := t.ByHash[common.HexToHash(val[:66])]; ok {
					id = x
				}
			}
			rootMain = append(rootMain, []interface{}{[]interface{}{root, int64(hh) - 100}, id})
		case strings.HasPrefix(sub, host.KeyConsensusStatePrefix+"/") && len(sub) == len(host.KeyConsensusStatePrefix)+1+16:
			csI, err := clienttypes.UnmarshalConsensusState(c.App.AppCodec(), vb)
			if err != nil {
				continue
			}
			cs := csI.(*ethtypes.ConsensusState)
			cons = append(cons, []interface{}{int64(cs.Height.RevisionHeight) - 100, t.ByRoot[hex.EncodeToString(cs.Root)]})
		}
	}
	head := "none"
	if cs, ok := c.App.XIBCKeeper.ClientKeeper.GetClientState(c.Ctx(), ethName); ok {
		hd := cs.(*ethtypes.ClientState).Header
		if id, ok := t.ByHash[hd.Hash()]; ok {
			head = id
		}
	}
	return M{"index": index, "rootMain": rootMain, "cons": cons, "head": head}
}

func driveETHClient(t *testing.T, in, out string, seed int64) {
	behaviours := ReadBehaviours(in)
	tw := NewTraceWriter(out)
	defer tw.Close()
	for bi, b := range behaviours {
		l := NewLC()
		c := l.C
		RoundTripAtEnd("ethclient", bi, map[string]*Chain{"host": c})
		tree := newEthTree(uint64(c.Header.Time.Unix()) - 1000)
		l.EnsureRelayer([]string{ethName})
		g := tree.Hdr["g"]
		chainID := uint64(4)
		if v, err := strconv.ParseUint(os.Getenv("VERIF_ETH_CHAINID"), 10, 64); err == nil && v > 0 {
			chainID = v // not Rinkeby: difficulty and proof-of-work are checked (no valid seal can be produced here)
		}
		tp := uint64(1_000_000_000)
		expiry := false
		if v, err := strconv.ParseUint(os.Getenv("VERIF_ETH_TP"), 10, 64); err == nil && v > 0 {
			// expiry leg: the trusting period ends v seconds after the genesis header's date as seen from the first block
			tp, expiry = 1000+v, true
		}
		cs := &ethtypes.ClientState{Header: *g, ChainId: chainID, ContractAddress: common.HexToAddress("0x1234").Bytes(), TrustingPeriod: tp, TimeDelay: 0, BlockDelay: 0}
		cons := &ethtypes.ConsensusState{Timestamp: g.Time, Height: g.Height, Root: g.Root}
		prop, err := clienttypes.NewCreateClientProposal("t", "d", ethName, cs, cons)
		must(err)
		if res, msg := c.ExecProposal(prop); res != "ok" {
			t.Fatalf("create eth client: %s", msg)
		}
		z := M{"pre": "", "post": ""}
		tw.Emit(M{"ev": "Reset", "b": bi, "i": 0, "res": "ok", "args": M{}, "sig": "Reset", "st": tree.project(c), "dg": z})
		for si, st := range b {
			act := str(st["act"])
			line := M{"ev": act, "b": bi, "i": si + 1, "args": st, "sig": act}
			pre := c.Digest("xibc")
			switch act {
			case "Submit":
				x := str(st["x"])
				hd := *tree.Hdr[x]
				msg, err := clienttypes.NewMsgUpdateClient(ethName, &hd, c.Accts[lcRelayer].Acc)
				must(err)
				r := c.DeliverMsgs(c.Accts[lcRelayer], msg)
				if chainID != 4 && strings.Contains(r.Log, "invalid difficulty") {
					// give the header the difficulty the client expects, so that the seal verification is reached
					if i := strings.Index(r.Log, "want "); i >= 0 {
						want := strings.FieldsFunc(r.Log[i+5:], func(c rune) bool { return c < '0' || c > '9' })[0]
						if d, ok := new(big.Int).SetString(want, 10); ok {
							hd.Difficulty = d.Bytes()
							msg, err = clienttypes.NewMsgUpdateClient(ethName, &hd, c.Accts[lcRelayer].Acc)
							must(err)
							r = c.DeliverMsgs(c.Accts[lcRelayer], msg)
						}
					}
				}
				line["res"], line["msg"] = resOf(r), clip(r.Log)
				line["code"] = fmt.Sprintf("%s/%d", r.Codespace, r.Code)
				line["sig"] = "Submit/" + x
			default:
				t.Fatalf("unknown action %q", act)
			}
			line["dg"] = M{"pre": pre, "post": c.Digest("xibc")}
			line["st"] = tree.project(c)
			if expiry {
				// the clock at which the step ran (seconds since the genesis header's date), the trusting period, and the date of
				// every header of the universe; then 3 s pass
				line["clock"] = M{"now": int64(uint64(c.Header.Time.Unix()) - g.Time), "tp": int64(tp)}
				dates := M{}
				for id, h := range tree.Hdr {
					dates[id] = int64(h.Time - g.Time)
				}
				line["dates"] = dates
				c.CommitAdvance(3 * time.Second)
			}
			tw.Emit(line)
		}
		// determinism probe (C14): a child of the genesis header dated around the wall clock (the date is an input, the
		// same for every replica).  The code must judge it against the block time only: far in the future, refused.
		if wb, err := strconv.ParseUint(os.Getenv("VERIF_WALLBASE"), 10, 64); err == nil && wb > 0 {
			hd := *tree.Hdr["a1"]
			hd.Time = wb
			hd.Extra = []byte("wall")
			msg, err := clienttypes.NewMsgUpdateClient(ethName, &hd, c.Accts[lcRelayer].Acc)
			must(err)
			r := c.DeliverMsgs(c.Accts[lcRelayer], msg)
			tw.Emit(M{"ev": "Submit", "b": bi, "i": len(b) + 1, "args": M{"act": "Submit", "x": "wallclock"}, "sig": "Submit/wallclock",
				"res": resOf(r), "msg": clip(r.Log), "code": fmt.Sprintf("%s/%d", r.Codespace, r.Code), "dg": M{"pre": "", "post": c.Digest("xibc")}, "st": tree.project(c)})
		}
	}
}

// powChainID: the chain ids of the proof-of-work clients (every chain id but Rinkeby's 4 is one)
func powChainID(class string) uint64 {
	switch class {
	case "ropsten":
		return 3
	case "private":
		return 1337
	}
	return 1
}
