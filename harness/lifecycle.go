package harness

import (
	"bytes"
	"crypto/sha256"
	"encoding/binary"
	"encoding/hex"
	"encoding/json"
	"fmt"
	"sort"
	"strings"
	"time"

	abci "github.com/tendermint/tendermint/abci/types"
	"github.com/tendermint/tendermint/libs/log"
	tmtypes "github.com/tendermint/tendermint/types"
	dbm "github.com/tendermint/tm-db"

	"github.com/cosmos/cosmos-sdk/simapp"
	govtypes "github.com/cosmos/cosmos-sdk/x/gov/types"

	"github.com/tharsis/ethermint/encoding"

	"github.com/teleport-network/teleport/app"
	aggregatemodule "github.com/teleport-network/teleport/x/aggregate/module"
	rvestingmodule "github.com/teleport-network/teleport/x/rvesting/module"
	xibctmtypes "github.com/teleport-network/teleport/x/xibc/clients/light-clients/tendermint/types"
	tsstypes "github.com/teleport-network/teleport/x/xibc/clients/tss-client/types"
	clienttypes "github.com/teleport-network/teleport/x/xibc/core/client/types"
	commitmenttypes "github.com/teleport-network/teleport/x/xibc/core/commitment/types"
	"github.com/teleport-network/teleport/x/xibc/core/host"
	"github.com/teleport-network/teleport/x/xibc/exported"
	xibcmodule "github.com/teleport-network/teleport/x/xibc/module"
)

// SynthTM is a tendermint counterparty that exists only as a validator key:
// it signs headers of any height and revision (the light client checks
// signatures and validator sets, not application continuity).
type SynthTM struct {
	Prefix  string
	Vals    *tmtypes.ValidatorSet
	Signers []tmtypes.PrivValidator
}

func NewSynthTM(prefix string) *SynthTM {
	pv := seededPV("synth/" + prefix)
	pub, err := pv.GetPubKey()
	must(err)
	return &SynthTM{Prefix: prefix, Vals: tmtypes.NewValidatorSet([]*tmtypes.Validator{tmtypes.NewValidator(pub, 1)}),
		Signers: []tmtypes.PrivValidator{pv}}
}

func (s *SynthTM) ChainID(rev uint64) string { return fmt.Sprintf("%s-%d", s.Prefix, rev) }

// header time: strictly increasing in the height, in the past, inside the trusting period
func synthTime(height uint64) time.Time {
	return StartTime.Add(-10 * 24 * time.Hour).Add(time.Duration(height) * time.Second)
}

func (s *SynthTM) Header(rev, height uint64) *xibctmtypes.Header {
	ah := sha256.Sum256([]byte(fmt.Sprintf("apphash/%d/%d", rev, height)))
	return SignedHeader(s.ChainID(rev), int64(height), synthTime(height), ah[:], s.Vals, s.Vals, s.Signers)
}

func (s *SynthTM) ClientState(rev, height uint64) *xibctmtypes.ClientState {
	return xibctmtypes.NewClientState(s.ChainID(rev), xibctmtypes.DefaultTrustLevel, 14*24*time.Hour, 21*24*time.Hour, time.Hour,
		clienttypes.NewHeight(rev, height), commitmenttypes.GetSDKSpecs(), commitmenttypes.MerklePrefix{KeyPrefix: []byte("xibc")}, 0)
}

// abstract byte tokens <-> concrete numbers (Store.tla: W abstract bytes per uint64)
var absByte = map[string]byte{"x2f": 0x2f, "x61": 0x61, "x00": 0x01}

func concNum(toks []interface{}) uint64 {
	var n uint64
	for _, t := range toks {
		n = n<<8 | uint64(absByte[str(t)])
	}
	return n
}

func absNum(n uint64, w int) []string {
	out := make([]string, w)
	for i := w - 1; i >= 0; i-- {
		b := byte(n & 0xff)
		n >>= 8
		switch b {
		case 0x2f:
			out[i] = "x2f"
		case 0x61:
			out[i] = "x61"
		case 0x01:
			out[i] = "x00"
		default:
			out[i] = fmt.Sprintf("x?%02x", b)
		}
	}
	return out
}

// LC drives client lifecycle operations on one host chain.
type LC struct {
	C     *Chain
	Synth *SynthTM
	W     int
}

func NewLC() *LC {
	accts := []Acct{NewAcct("host/user"), NewAcct("relayer"), NewAcct("outsider"), NewAcct("tss")}
	c := NewChain(ChainOpts{ChainID: "teleport_9000-10", Accts: accts})
	return &LC{C: c, Synth: NewSynthTM("verif"), W: 2}
}

const (
	lcRelayer = 1
	lcOutside = 2
	lcTSS     = 3
)

func (l *LC) tssState() (*tsstypes.ClientState, *tsstypes.ConsensusState) {
	return &tsstypes.ClientState{TssAddress: l.C.Accts[lcTSS].Acc.String(), Pubkey: []byte{1, 2, 3}, PartPubkeys: [][]byte{{4}, {5}}, Threshold: 2},
		&tsstypes.ConsensusState{}
}

func (l *LC) states(ty string, rev, height uint64) (exported.ClientState, exported.ConsensusState) {
	switch ty {
	case "tm":
		return l.Synth.ClientState(rev, height), l.Synth.Header(rev, height).ConsensusState()
	case "tss":
		cs, cons := l.tssState()
		return cs, cons
	}
	panic("unknown client type " + ty)
}

// Proposal builds a create/upgrade/toggle proposal.
func (l *LC) Proposal(kind, name, ty string, rev, height uint64) govtypes.Content {
	cs, cons := l.states(ty, rev, height)
	var c govtypes.Content
	var err error
	switch kind {
	case "Create":
		c, err = clienttypes.NewCreateClientProposal("t", "d", name, cs, cons)
	case "Upgrade":
		c, err = clienttypes.NewUpgradeClientProposal("t", "d", name, cs, cons)
	case "Toggle":
		c, err = clienttypes.NewToggleClientProposal("t", "d", name, cs, cons)
	}
	must(err)
	return c
}

// EnsureRelayer registers the relayer account for the given chain names (set-up, through the proposal handler).
func (l *LC) EnsureRelayer(names []string) {
	addr := l.C.Accts[lcRelayer].Acc.String()
	addrs := make([]string, len(names))
	for i := range names {
		addrs[i] = addr
	}
	res, msg := l.C.ExecProposal(clienttypes.NewRegisterRelayerProposal("t", "d", addr, names, addrs))
	if res != "ok" {
		panic("register relayer: " + msg)
	}
	tss := l.C.Accts[lcTSS].Acc.String()
	res, msg = l.C.ExecProposal(clienttypes.NewRegisterRelayerProposal("t", "d", tss, names, addrs))
	if res != "ok" {
		panic("register relayer: " + msg)
	}
}

// UpdateTM submits a synthetic header through MsgUpdateClient.
func (l *LC) UpdateTM(name string, rev, height uint64, signer int) TxResult {
	c := l.C
	hd := l.Synth.Header(rev, height)
	// trusted height: highest stored height below the header in the same revision, else the latest
	trusted := clienttypes.Height{}
	if cs, ok := c.App.XIBCKeeper.ClientKeeper.GetClientState(c.Ctx(), name); ok {
		trusted, _ = cs.GetLatestHeight().(clienttypes.Height)
	}
	hh := clienttypes.NewHeight(rev, height)
	best := clienttypes.Height{}
	for _, h := range l.ConsHeights(name) {
		if h.RevisionNumber == rev && h.LT(hh) && best.LT(h) {
			best = h
		}
	}
	if !best.IsZero() {
		trusted = best
	}
	hd.TrustedHeight = trusted
	tv, err := l.Synth.Vals.ToProto()
	must(err)
	hd.TrustedValidators = tv
	msg, err := clienttypes.NewMsgUpdateClient(name, hd, c.Accts[signer].Acc)
	must(err)
	return c.DeliverMsgs(c.Accts[signer], msg)
}

// UpdateTSS submits a TSS header (new key material) from the given signer.
func (l *LC) UpdateTSS(name string, signer int) TxResult {
	c := l.C
	hd := &tsstypes.Header{TssAddress: c.Accts[lcTSS].Acc.String(), Pubkey: []byte{9, 9}, PartPubkeys: [][]byte{{7}}, Threshold: 1}
	msg, err := clienttypes.NewMsgUpdateClient(name, hd, c.Accts[signer].Acc)
	must(err)
	return c.DeliverMsgs(c.Accts[signer], msg)
}

// ConsHeights lists the consensus heights of a client by raw iteration of its store (not through the keeper's parser).
func (l *LC) ConsHeights(name string) []clienttypes.Height {
	var out []clienttypes.Height
	pre := []byte("clients/" + name + "/" + host.KeyConsensusStatePrefix + "/")
	for k := range l.C.DumpStore("xibc", pre) {
		kb, _ := hex.DecodeString(k)
		rest := kb[len(pre):]
		if len(rest) == 16 {
			out = append(out, clienttypes.NewHeight(binary.BigEndian.Uint64(rest[:8]), binary.BigEndian.Uint64(rest[8:])))
		}
	}
	sort.Slice(out, func(i, j int) bool { return out[i].LT(out[j]) })
	return out
}

// AbstractStore converts the client part of the real xibc store to Store.tla's token keys.
func (l *LC) AbstractStore(c *Chain) []interface{} {
	out := []interface{}{}
	dump := c.DumpStore("xibc", []byte("clients/"))
	for _, k := range SortedKeys(dump) {
		kb, _ := hex.DecodeString(k)
		out = append(out, l.absEntry(kb, dump[k], c))
	}
	return out
}

func (l *LC) absEntry(kb []byte, valhex string, c *Chain) M {
	rest := kb[len("clients/"):]
	i := bytes.IndexByte(rest, '/')
	name := string(rest[:i])
	sub := rest[i+1:]
	toks := []string{"clients", "/", AbsName(name), "/"}
	val := M{"kind": "other"}
	num16 := func(b []byte) []string {
		return append(absNum(binary.BigEndian.Uint64(b[:8]), l.W), absNum(binary.BigEndian.Uint64(b[8:16]), l.W)...)
	}
	cp := host.KeyConsensusStatePrefix + "/"
	switch {
	case string(sub) == host.KeyClientState:
		toks = append(toks, "clientState")
		ty := "?"
		if cs, ok := c.App.XIBCKeeper.ClientKeeper.GetClientState(c.Ctx(), name); ok {
			ty = shortType(cs.ClientType())
		}
		val = M{"kind": "state", "type": ty}
	case strings.HasPrefix(string(sub), cp) && len(sub) == len(cp)+16:
		toks = append(append(toks, "consensusStates", "/"), num16(sub[len(cp):])...)
		ty := "?"
		vb, _ := hex.DecodeString(valhex)
		if cons, err := clienttypes.UnmarshalConsensusState(c.App.AppCodec(), vb); err == nil {
			ty = shortType(cons.ClientType())
		}
		val = M{"kind": "cons", "type": ty}
	case strings.HasPrefix(string(sub), cp) && len(sub) == len(cp)+16+len("/processedTime") && strings.HasSuffix(string(sub), "/processedTime"):
		toks = append(append(append(toks, "consensusStates", "/"), num16(sub[len(cp):])...), "/", "processedTime")
		val = M{"kind": "proc"}
	case strings.HasPrefix(string(sub), xibctmtypes.KeyIterateConsensusStatePrefix) && len(sub) == len(xibctmtypes.KeyIterateConsensusStatePrefix)+16:
		toks = append(append(toks, "iterateConsensusStates"), num16(sub[len(xibctmtypes.KeyIterateConsensusStatePrefix):])...)
		val = M{"kind": "iter"}
	default:
		toks = append(toks, "raw:"+hex.EncodeToString(sub))
	}
	return M{"k": toks, "v": val}
}

// abstract chain names of the specifications are short; real ones must have 3..64 characters
// RealName: the real chain name of an abstract one.  "na" is a valid name equal to a constant element of the client store
// paths (clients/<name>/consensusStates/<height>), so that every key parser meets it.
func RealName(n string) string {
	if n == "na" {
		return host.KeyConsensusStatePrefix
	}
	return "cli-" + n
}
func AbsName(n string) string {
	if n == host.KeyConsensusStatePrefix {
		return "na"
	}
	return strings.TrimPrefix(n, "cli-")
}

func shortType(t string) string {
	switch t {
	case exported.Tendermint:
		return "tm"
	case exported.TSS:
		return "tss"
	case exported.BSC:
		return "bsc"
	case exported.ETH:
		return "eth"
	}
	return t
}

// RoundTripResult is what exporting, validating and re-importing the module state gave.
type RoundTripResult struct {
	Validate string
	Init     string
	Missing  []interface{} // abstract entries present before, absent (or different) after
	Extra    []interface{}
	Equal2   bool // second export equals the first
	RawDiff  []string
}

// moduleGenesis exports / validates the genesis of the three teleport modules the way the module manager does.
func moduleExport(c *Chain) (out map[string]json.RawMessage, panicked string) {
	defer func() {
		if r := recover(); r != nil {
			panicked = fmt.Sprint(r)
		}
	}()
	cdc := c.App.AppCodec()
	ctx := c.Ctx()
	out = map[string]json.RawMessage{}
	out["xibc"] = xibcmodule.NewAppModule(c.App.XIBCKeeper).ExportGenesis(ctx, cdc)
	out["aggregate"] = aggregatemodule.NewAppModule(*c.App.AggregateKeeper, c.App.AccountKeeper).ExportGenesis(ctx, cdc)
	out["rvesting"] = rvestingmodule.NewAppModule(c.App.RVestingKeeper).ExportGenesis(ctx, cdc)
	return out, ""
}

func moduleValidate(c *Chain, g map[string]json.RawMessage) (res string) {
	defer func() {
		if r := recover(); r != nil {
			res = fmt.Sprint("panic: ", r)
		}
	}()
	cdc := c.App.AppCodec()
	if err := (xibcmodule.AppModuleBasic{}).ValidateGenesis(cdc, c.TxConfig, g["xibc"]); err != nil {
		return "xibc: " + err.Error()
	}
	if err := (aggregatemodule.AppModuleBasic{}).ValidateGenesis(cdc, c.TxConfig, g["aggregate"]); err != nil {
		return "aggregate: " + err.Error()
	}
	if err := (rvestingmodule.AppModuleBasic{}).ValidateGenesis(cdc, c.TxConfig, g["rvesting"]); err != nil {
		return "rvesting: " + err.Error()
	}
	return "ok"
}

// rtStores are compared key by key between the exporting and the re-imported application.
var rtStores = []string{"xibc", "aggregate"}

func rtDump(c *Chain) map[string]string {
	out := map[string]string{}
	for _, s := range rtStores {
		for k, v := range c.DumpStore(s, nil) {
			out[s+":"+k] = v
		}
	}
	// the parameter subspaces of the three modules live in the params store
	for _, sub := range []string{"aggregate/", "rvesting/", "xibc/"} {
		for k, v := range c.DumpStore("params", []byte(sub)) {
			out["params:"+k] = v
		}
	}
	return out
}

// RoundTrip exports the state of the XIBC, aggregate and rvesting modules of chain c, validates it with the
// modules' own genesis validation, initialises a fresh application from it, compares the raw stores and exports again.
func (l *LC) RoundTrip(c *Chain) RoundTripResult {
	var res RoundTripResult
	exp, p := moduleExport(c)
	if p != "" {
		res.Validate = "export panic: " + p
		return res
	}
	res.Validate = moduleValidate(c, exp)
	before := rtDump(c)
	var fresh *Chain
	func() {
		defer func() {
			if r := recover(); r != nil {
				res.Init = fmt.Sprint("panic: ", r)
			}
		}()
		fresh = NewChain(ChainOpts{ChainID: c.ChainID, Accts: c.Accts, NoChainName: true, NoCommit: true,
			Mutate: func(a *app.Teleport, gs simapp.GenesisState) {
				for m, bz := range exp {
					gs[m] = bz
				}
			}})
		res.Init = "ok"
	}()
	if fresh == nil {
		return res
	}
	after := rtDump(fresh)
	for k, v := range before {
		if v2, ok := after[k]; !ok || v2 != v {
			res.Missing = append(res.Missing, l.describe(c, k, v))
			res.RawDiff = append(res.RawDiff, "-"+k)
		}
	}
	for k, v := range after {
		if _, ok := before[k]; !ok {
			res.Extra = append(res.Extra, l.describe(fresh, k, v))
			res.RawDiff = append(res.RawDiff, "+"+k)
		}
	}
	sort.Strings(res.RawDiff)
	exp2, p2 := moduleExport(fresh)
	res.Equal2 = p2 == ""
	for m := range exp {
		if !jsonEqual(exp[m], exp2[m]) {
			res.Equal2 = false
		}
	}
	return res
}

func jsonEqual(a, b json.RawMessage) bool {
	var x, y interface{}
	if json.Unmarshal(a, &x) != nil || json.Unmarshal(b, &y) != nil {
		return false
	}
	ab, _ := json.Marshal(x)
	bb, _ := json.Marshal(y)
	return bytes.Equal(ab, bb)
}

// describe maps a raw "store:hexkey" entry to Store.tla's abstract entry where it is a client key.
func (l *LC) describe(c *Chain, k string, v string) interface{} {
	parts := strings.SplitN(k, ":", 2)
	kb, _ := hex.DecodeString(parts[1])
	if parts[0] == "xibc" && bytes.HasPrefix(kb, []byte("clients/")) {
		return l.absEntry(kb, v, c)
	}
	return M{"k": []string{"raw:" + parts[0] + ":" + string(safeASCII(kb))}, "v": M{"kind": "other"}}
}

func safeASCII(b []byte) []byte {
	out := make([]byte, 0, len(b))
	for _, x := range b {
		if x >= 0x20 && x < 0x7f && x != '"' && x != '\\' {
			out = append(out, x)
		} else {
			out = append(out, []byte(fmt.Sprintf("%%%02x", x))...)
		}
	}
	return out
}

var _ = abci.RequestInitChain{}
var _ = log.NewNopLogger
var _ = dbm.NewMemDB
var _ = encoding.MakeConfig
