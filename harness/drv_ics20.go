package harness

import (
	"encoding/hex"
	"fmt"
	"github.com/tharsis/ethermint/x/evm/statedb"
	"math/big"
	"strings"
	"testing"

	abci "github.com/tendermint/tendermint/abci/types"

	sdk "github.com/cosmos/cosmos-sdk/types"
	authtypes "github.com/cosmos/cosmos-sdk/x/auth/types"
	banktypes "github.com/cosmos/cosmos-sdk/x/bank/types"
	paramproposal "github.com/cosmos/cosmos-sdk/x/params/types/proposal"

	"github.com/cosmos/cosmos-sdk/simapp/helpers"

	ibctransfer "github.com/cosmos/ibc-go/v3/modules/apps/transfer"
	transfertypes "github.com/cosmos/ibc-go/v3/modules/apps/transfer/types"
	clienttypes "github.com/cosmos/ibc-go/v3/modules/core/02-client/types"
	channeltypes "github.com/cosmos/ibc-go/v3/modules/core/04-channel/types"
	host "github.com/cosmos/ibc-go/v3/modules/core/24-host"
	ibctesting "github.com/cosmos/ibc-go/v3/testing"

	"github.com/ethereum/go-ethereum/common"
	"github.com/ethereum/go-ethereum/crypto"

	"github.com/teleport-network/teleport/app"
	erc20contracts "github.com/teleport-network/teleport/syscontracts/erc20"
	aggtypes "github.com/teleport-network/teleport/x/aggregate/types"
	evmtypes "github.com/tharsis/ethermint/x/evm/types"
)

func init() { Drivers["ics20"] = driveICS20 }

// ICSWorld: two teleport applications connected by ibc-go's own test bed over a real transfer channel.
// Chain B is under test (receives); chain A is the counterparty that sends.
type ICSWorld struct {
	Coord *ibctesting.Coordinator
	A, B  *ibctesting.TestChain
	Path  *ibctesting.Path
	seq   uint64
	C     *ibctesting.TestChain // a second counterparty: its channel to B is channel-0 on C and channel-1 on B
	PathC *ibctesting.Path      // EndpointA on C, EndpointB on B
	seqC  uint64
	X     common.Address // an externally-owned ERC-20 on B (deployed and mintable by XOwner)
	Y     common.Address // another one whose transfer takes a cut (ERC20DirectBalanceManipulation); its supply is with XOwner
	// the outbound direction: at most one packet outstanding per voucher (the model's bound, enforced here)
	Pend map[string]*icsPending
}

type icsPending struct {
	packet channeltypes.Packet
	amount int64
}

// the deployer and minter of X is the fee collector's address (an existing account whose nonce nobody else uses);
// the pair is registered as externally owned through RegisterERC20
func (w *ICSWorld) xOwner() common.Address {
	return common.BytesToAddress(authtypes.NewModuleAddress(authtypes.FeeCollectorName))
}

func newICSWorld(t *testing.T) *ICSWorld {
	ibctesting.DefaultTestingAppInit = app.SetupTestingApp
	ibctesting.ChainIDPrefix = "teleport_9000-"
	coord := ibctesting.NewCoordinator(t, 3)
	a, b := coord.GetChain(ibctesting.GetChainID(1)), coord.GetChain(ibctesting.GetChainID(2))
	cc := coord.GetChain(ibctesting.GetChainID(3))
	path := ibctesting.NewPath(a, b)
	path.EndpointA.ChannelConfig.PortID = ibctesting.TransferPort
	path.EndpointB.ChannelConfig.PortID = ibctesting.TransferPort
	path.EndpointA.ChannelConfig.Version = transfertypes.Version
	path.EndpointB.ChannelConfig.Version = transfertypes.Version
	coord.Setup(path)
	pathC := ibctesting.NewPath(cc, b)
	pathC.EndpointA.ChannelConfig.PortID = ibctesting.TransferPort
	pathC.EndpointB.ChannelConfig.PortID = ibctesting.TransferPort
	pathC.EndpointA.ChannelConfig.Version = transfertypes.Version
	pathC.EndpointB.ChannelConfig.Version = transfertypes.Version
	coord.Setup(pathC)
	w := &ICSWorld{Coord: coord, A: a, B: b, Path: path, C: cc, PathC: pathC, Pend: map[string]*icsPending{}}
	w.fixHeaders()
	// the external token X
	ctor, err := erc20ABI.Pack("", "ext", "EXT", uint8(18))
	must(err)
	k := w.appB().AggregateKeeper
	nonce := w.appB().EvmKeeper.GetNonce(w.B.GetContext(), w.xOwner())
	w.X = crypto.CreateAddress(w.xOwner(), nonce)
	res, err := k.CallEVMWithData(w.B.GetContext(), w.xOwner(), nil, append(append([]byte{}, erc20contracts.ERC20MinterBurnerDecimalsContract.Bin...), ctor...))
	must(err)
	if res.Failed() {
		panic("deploy X: " + res.VmError)
	}
	nonce = w.appB().EvmKeeper.GetNonce(w.B.GetContext(), w.xOwner())
	w.Y = crypto.CreateAddress(w.xOwner(), nonce)
	yctor, err := erc20contracts.ERC20DirectBalanceManipulationContract.ABI.Pack("", icsAmount(1000))
	must(err)
	res, err = k.CallEVMWithData(w.B.GetContext(), w.xOwner(), nil, append(append([]byte{}, erc20contracts.ERC20DirectBalanceManipulationContract.Bin...), yctor...))
	must(err)
	if res.Failed() {
		panic("deploy Y: " + res.VmError)
	}
	return w
}

// fixHeaders: the test bed's headers carry no proposer (NextBlock drops it after every transaction); the EVM
// needs one (coinbase) for every call, so it is restored before every step.
func (w *ICSWorld) fixHeaders() {
	for _, c := range []*ibctesting.TestChain{w.A, w.B, w.C} {
		c.CurrentHeader.ProposerAddress = c.Vals.GetProposer().Address
		c.App.BeginBlock(abci.RequestBeginBlock{Header: c.CurrentHeader})
	}
}

func (w *ICSWorld) appB() *app.Teleport { return w.B.App.(*app.Teleport) }

func (w *ICSWorld) userB() sdk.AccAddress { return w.B.SenderAccount.GetAddress() }

// denomTrace of a coin of A arriving on B through the channel
func (w *ICSWorld) voucher(base string) string {
	return transfertypes.ParseDenomTrace(transfertypes.GetPrefixedDenom(w.Path.EndpointB.ChannelConfig.PortID, w.Path.EndpointB.ChannelID, base)).IBCDenom()
}

// voucherC: the voucher of a coin of C arriving on B (B's end of that channel has another identifier than C's)
func (w *ICSWorld) voucherC(base string) string {
	return transfertypes.ParseDenomTrace(transfertypes.GetPrefixedDenom(w.PathC.EndpointB.ChannelConfig.PortID, w.PathC.EndpointB.ChannelID, base)).IBCDenom()
}

func (w *ICSWorld) erc20Of(denom string) (common.Address, bool) {
	k := w.appB().AggregateKeeper
	id := k.GetDenomMap(w.B.GetContext(), denom)
	p, ok := k.GetTokenPair(w.B.GetContext(), id)
	if !ok {
		return common.Address{}, false
	}
	return p.GetERC20Contract(), true
}

// natUnit: one model unit of this chain's own coin
const natUnit = 1000

// icsUnit: one model unit of a transferred amount is 2^64+2 base units (amounts beyond every machine-integer bound; even,
// so that the token that passes on only half of what it is given deals in half units)
var icsUnit = new(big.Int).Add(new(big.Int).Lsh(big.NewInt(1), 64), big.NewInt(2))

func icsAmount(n int64) *big.Int { return new(big.Int).Mul(big.NewInt(n), icsUnit) }

// icsUnits: base units -> model units (-999: not a multiple)
func icsUnits(x *big.Int) int64 {
	q, r := new(big.Int).QuoRem(x, icsUnit, new(big.Int))
	if r.Sign() != 0 || !q.IsInt64() {
		return -999
	}
	return q.Int64()
}

func (w *ICSWorld) viewBalBig(contract, who common.Address) *big.Int {
	ctx, _ := w.B.GetContext().CacheContext()
	res, err := w.appB().AggregateKeeper.CallEVM(ctx, erc20ABI, aggtypes.ModuleAddress, contract, "balanceOf", who)
	if err != nil {
		return big.NewInt(-1)
	}
	out, err := erc20ABI.Unpack("balanceOf", res.Ret)
	if err != nil || len(out) == 0 {
		return big.NewInt(-1)
	}
	return out[0].(*big.Int)
}

// viewBal: a token balance in model units
// dead: the contract has no code (it destroyed itself): its balances are gone with it
func (w *ICSWorld) dead(contract common.Address) bool {
	return len(w.appB().EvmKeeper.GetCode(w.B.GetContext(), common.BytesToHash(w.appB().EvmKeeper.GetAccountOrEmpty(w.B.GetContext(), contract).CodeHash))) == 0
}

func (w *ICSWorld) viewBal(contract, who common.Address) int64 {
	if w.dead(contract) {
		return 0
	}
	return icsUnits(w.viewBalBig(contract, who))
}

func (w *ICSWorld) project(denoms map[string]string) M {
	w.fixHeaders()
	ctx := w.B.GetContext()
	a := w.appB()
	mod := authtypes.NewModuleAddress(aggtypes.ModuleName)
	xbad := a.AggregateKeeper.IsERC20Registered(ctx, w.Y)
	xc := w.X
	if xbad {
		xc = w.Y
	}
	st := M{"enabled": a.AggregateKeeper.GetParams(ctx).EnableAggregate, "xreg": a.AggregateKeeper.IsERC20Registered(ctx, w.X) || xbad, "xbad": xbad,
		"mx": func() int64 {
			if w.dead(xc) {
				return 0
			}
			if xbad {
				// the misbehaving token halves what it is given: whole units, rounded down
				return new(big.Int).Quo(w.viewBalBig(xc, common.BytesToAddress(mod)), icsUnit).Int64()
			}
			return w.viewBal(xc, common.BytesToAddress(mod))
		}()}
	// this chain's own coin: what is escrowed on the channel to A, and the receiver's balance (units of natUnit)
	escAddr := transfertypes.GetEscrowAddress(w.Path.EndpointB.ChannelConfig.PortID, w.Path.EndpointB.ChannelID)
	st["nesc"] = a.BankKeeper.GetBalance(ctx, escAddr, sdk.DefaultBondDenom).Amount.Quo(sdk.NewInt(natUnit)).Int64()
	st["nbal"] = a.BankKeeper.GetBalance(ctx, w.userB(), sdk.DefaultBondDenom).Amount.Quo(sdk.NewInt(natUnit)).Int64()
	for abs, d := range denoms {
		e := M{"vbal": icsUnits(a.BankKeeper.GetBalance(ctx, w.userB(), d).Amount.BigInt()), "esc": icsUnits(a.BankKeeper.GetBalance(ctx, mod, d).Amount.BigInt()),
			"sup": icsUnits(a.BankKeeper.GetSupply(ctx, d).Amount.BigInt()), "registered": false, "pairon": false, "tok": 0, "ext": false, "out": 0, "committed": false}
		if pd := w.Pend[abs]; pd != nil {
			e["out"] = pd.amount
			e["committed"] = len(a.IBCKeeper.ChannelKeeper.GetPacketCommitment(ctx, pd.packet.SourcePort, pd.packet.SourceChannel, pd.packet.Sequence)) > 0
		}
		if c, ok := w.erc20Of(d); ok {
			id := a.AggregateKeeper.GetDenomMap(ctx, d)
			p, _ := a.AggregateKeeper.GetTokenPair(ctx, id)
			e["registered"], e["pairon"], e["tok"] = true, p.Enabled, w.viewBal(c, common.BytesToAddress(w.userB()))
			e["ext"] = c == w.X || c == w.Y
		}
		st[abs] = e
	}
	return st
}

func driveICS20(t *testing.T, in, out string, seed int64) {
	behaviours := ReadBehaviours(in)
	tw := NewTraceWriter(out)
	defer tw.Close()
	for bi, b := range behaviours {
		w := newICSWorld(t)
		// vc: the same base denomination as va, arriving from C over a channel whose two ends have different identifiers
		denoms := map[string]string{"va": w.voucher("acoin"), "vb": w.voucher("bcoin"), "vc": w.voucherC("acoin")}
		if w.PathC.EndpointA.ChannelID == w.PathC.EndpointB.ChannelID {
			t.Fatalf("the C-B channel has the same identifier on both ends")
		}
		tw.Emit(M{"ev": "Reset", "b": bi, "i": 0, "res": "ok", "args": M{}, "sig": "Reset", "st": w.project(denoms),
			"ack": M{"stored": "none", "wrapped": "none", "same": true}, "dg": M{"pre": "", "post": ""}})
		for si, st := range b {
			act := str(st["act"])
			line := M{"ev": act, "b": bi, "i": si + 1, "args": st, "sig": act, "ack": M{"stored": "none", "wrapped": "none", "same": true}}
			a := w.appB()
			w.fixHeaders()
			switch act {
			case "SendNat":
				w.sendNat(line, st)
			case "DestroyExt":
				// the registered external token contract destroys itself (the repository's tests reach this state the same way)
				target := w.X
				if a.AggregateKeeper.IsERC20Registered(w.B.GetContext(), w.Y) {
					target = w.Y
				}
				db := statedb.New(w.B.GetContext(), a.EvmKeeper, statedb.NewEmptyTxConfig(common.BytesToHash(w.B.GetContext().HeaderHash().Bytes())))
				db.Suicide(target)
				must(db.Commit())
				line["res"], line["sig"] = "ok", "DestroyExt"
			case "Recv", "RecvNat":
				if act == "RecvNat" {
					st["denom"] = "nat"
				}
				// nat: this chain's own coin coming back - the denomination carries the sender's port and channel
				base := map[string]string{"va": "acoin", "vb": "bcoin", "vc": "acoin",
					"nat": transfertypes.GetPrefixedDenom(w.Path.EndpointA.ChannelConfig.PortID, w.Path.EndpointA.ChannelID, sdk.DefaultBondDenom)}[str(st["denom"])]
				path, sender, seqp := w.Path, w.A, &w.seq
				if str(st["denom"]) == "vc" {
					path, sender, seqp = w.PathC, w.C, &w.seqC
				}
				amount := map[string]string{"1": icsAmount(1).String(), "2": icsAmount(2).String(), "zero": "0", "garbage": "1x", "neg": "-3"}[str(st["amt"])]
				if act == "RecvNat" {
					amount = map[string]string{"1": fmt.Sprint(natUnit), "2": fmt.Sprint(2 * natUnit), "zero": "0", "garbage": "1x", "neg": "-3"}[str(st["amt"])]
				}
				recv := w.userB().String()
				switch str(st["recv"]) {
				case "invalid":
					recv = "not-an-address"
				case "blocked":
					recv = authtypes.NewModuleAddress(authtypes.FeeCollectorName).String()
				}
				from := sender.SenderAccount.GetAddress().String()
				if str(st["recv"]) == "hexsender" {
					from = "0x" + hex.EncodeToString(sender.SenderAccount.GetAddress().Bytes()) // a counterparty whose addresses are not bech32
				}
				data := transfertypes.FungibleTokenPacketData{Denom: base, Amount: amount, Sender: from, Receiver: recv}
				*seqp++
				packet := channeltypes.NewPacket(data.GetBytes(), *seqp, path.EndpointA.ChannelConfig.PortID, path.EndpointA.ChannelID,
					path.EndpointB.ChannelConfig.PortID, path.EndpointB.ChannelID, clienttypes.NewHeight(clienttypes.ParseChainID(w.B.ChainID), 100000), 0)
				if err := path.EndpointA.SendPacket(packet); err != nil {
					t.Fatalf("send on counterparty failed: %v", err)
				}
				// what the wrapped transfer application returns for this packet, in a branched context
				wrapped := "none"
				func() {
					defer func() {
						if r := recover(); r != nil {
							wrapped = "panic"
						}
					}()
					cctx, _ := w.B.GetContext().CacheContext()
					ack := ibctransfer.NewIBCModule(a.IBCTransferKeeper).OnRecvPacket(cctx, packet, w.userB())
					if ack != nil {
						wrapped = hex.EncodeToString(channeltypes.CommitAcknowledgement(ack.Acknowledgement()))
						line["wrapped_success"] = ack.Success()
					}
				}()
				w.fixHeaders()
				// MsgRecvPacket with the real proof, delivered through the application (a failing or panicking delivery is
				// reported, not fatal)
				proof, proofHeight := path.EndpointA.QueryProof(host.PacketCommitmentKey(packet.GetSourcePort(), packet.GetSourceChannel(), packet.GetSequence()))
				_, err := w.deliverB(channeltypes.NewMsgRecvPacket(packet, proof, proofHeight, w.userB().String()))
				line["res"] = "ok"
				if err != nil {
					line["res"], line["msg"] = "err", clip(err.Error())
				}
				stored := "none"
				if bz, ok := a.IBCKeeper.ChannelKeeper.GetPacketAcknowledgement(w.B.GetContext(), packet.GetDestPort(), packet.GetDestChannel(), packet.GetSequence()); ok {
					stored = hex.EncodeToString(bz)
				}
				line["ack"] = M{"stored": stored, "wrapped": wrapped, "same": stored == wrapped}
				line["sig"] = fmt.Sprintf("%s/%s/%s/%s", act, str(st["denom"]), str(st["amt"]), str(st["recv"]))
			case "Register":
				d := denoms[str(st["denom"])]
				md := banktypes.Metadata{Description: "ibc voucher", Base: d, Display: d, Name: "channel-0 " + str(st["denom"]), Symbol: "ibc" + strings.ToUpper(str(st["denom"])),
					DenomUnits: []*banktypes.DenomUnit{{Denom: d, Exponent: 0}}}
				res, msg := execProposalOn(w, aggtypes.NewRegisterCoinProposal("t", "d", md))
				line["res"], line["msg"] = res, clip(msg)
			case "Toggle":
				res, msg := execProposalOn(w, aggtypes.NewToggleTokenRelayProposal("t", "d", denoms[str(st["denom"])]))
				line["res"], line["msg"] = res, clip(msg)
			case "RegisterExt":
				xc := w.X
				if b, _ := st["bad"].(bool); b {
					xc = w.Y
				}
				if a.AggregateKeeper.IsERC20Registered(w.B.GetContext(), w.X) || a.AggregateKeeper.IsERC20Registered(w.B.GetContext(), w.Y) {
					xc = w.X // one external token per behaviour: a second registration names the first again (refused)
					if a.AggregateKeeper.IsERC20Registered(w.B.GetContext(), w.Y) {
						xc = w.Y
					}
				}
				res, msg := execProposalOn(w, aggtypes.NewRegisterERC20Proposal("t", "d", xc.String()))
				line["res"], line["msg"] = res, clip(msg)
			case "AddExt":
				d := denoms[str(st["denom"])]
				md := banktypes.Metadata{Description: "ibc voucher", Base: d, Display: d, Name: "channel-0 " + str(st["denom"]), Symbol: "ibc" + strings.ToUpper(str(st["denom"])),
					DenomUnits: []*banktypes.DenomUnit{{Denom: d, Exponent: 0}}}
				xc := w.X
				if a.AggregateKeeper.IsERC20Registered(w.B.GetContext(), w.Y) {
					xc = w.Y
				}
				res, msg := execProposalOn(w, aggtypes.NewAddCoinProposal("t", "d", md, xc.String()))
				line["res"], line["msg"] = res, clip(msg)
			case "Fund":
				// the owner of X mints to the module account (what the module can pay out for conversions into X)
				mod := common.BytesToAddress(authtypes.NewModuleAddress(aggtypes.ModuleName))
				var res *evmtypes.MsgEthereumTxResponse
				var err error
				if a.AggregateKeeper.IsERC20Registered(w.B.GetContext(), w.Y) {
					// Y has no mint: its owner hands tokens over (a direct transfer to the module arrives in full only with the
					// contract's own rule; the balance the module ends up with is what the model reads back)
					res, err = a.AggregateKeeper.CallEVMWithData(w.B.GetContext(), w.xOwner(), &w.Y, mustPack(erc20ABI, "transfer", mod, icsAmount(num(st["n"]))))
				} else {
					res, err = a.AggregateKeeper.CallEVMWithData(w.B.GetContext(), w.xOwner(), &w.X, mustPack(erc20ABI, "mint", mod, icsAmount(num(st["n"]))))
				}
				line["res"] = "ok"
				if err != nil || res.Failed() {
					line["res"] = "err"
				}
			case "SendBack":
				w.sendBack(line, st, denoms)
			case "Settle":
				w.settle(line, st, denoms)
			case "Param":
				content := paramproposal.NewParameterChangeProposal("t", "d", []paramproposal.ParamChange{
					paramproposal.NewParamChange(aggtypes.ModuleName, string(aggtypes.ParamStoreKeyEnableAggregate), fmt.Sprint(st["on"].(bool)))})
				res, msg := execProposalOn(w, content)
				line["res"], line["msg"] = res, clip(msg)
			default:
				t.Fatalf("unknown action %q", act)
			}
			if _, ok := line["wrapped_success"]; !ok {
				line["wrapped_success"] = false
			}
			line["st"] = w.project(denoms)
			tw.Emit(line)
		}
	}
}

// deliverB delivers one transaction of the user on chain B through the application's own message path (ante handler,
// router, IBC core, the aggregate middleware, the transfer application) and commits the block, like the test bed's
// SendMsgs, but returns a failing delivery as an error instead of failing the test.
func (w *ICSWorld) deliverB(msgs ...sdk.Msg) (*sdk.Result, error) {
	chain := w.B
	chain.Coordinator.UpdateTimeForChain(chain)
	acc := w.appB().AccountKeeper.GetAccount(chain.GetContext(), w.userB())
	tx, err := helpers.GenTx(chain.TxConfig, msgs, sdk.Coins{sdk.NewInt64Coin(sdk.DefaultBondDenom, 0)}, helpers.DefaultGenTxGas, chain.ChainID,
		[]uint64{acc.GetAccountNumber()}, []uint64{acc.GetSequence()}, chain.SenderPrivKey)
	must(err)
	header := chain.GetContext().BlockHeader()
	chain.App.GetBaseApp().BeginBlock(abci.RequestBeginBlock{Header: header})
	_, res, derr := chain.App.GetBaseApp().Deliver(chain.TxConfig.TxEncoder(), tx)
	chain.App.GetBaseApp().EndBlock(abci.RequestEndBlock{})
	chain.App.GetBaseApp().Commit()
	chain.NextBlock()
	w.fixHeaders()
	chain.SenderAccount.SetSequence(w.appB().AccountKeeper.GetAccount(chain.GetContext(), w.userB()).GetSequence())
	chain.Coordinator.IncrementTime()
	return res, derr
}

// pathOf: the channel a voucher came over (B's end is EndpointB on both paths)
func (w *ICSWorld) pathOf(abs string) *ibctesting.Path {
	if abs == "vc" {
		return w.PathC
	}
	return w.Path
}

// sendNat: the holder sends some of this chain's own coin to chain A (escrowed here).  The packet is not relayed: what
// comes back later are packets the counterparty commits, whatever it holds (the transfer application on this chain
// only looks at its own escrow).
func (w *ICSWorld) sendNat(line, st M) {
	line["sig"] = "SendNat/" + str(st["amt"])
	n := map[string]int64{"1": 1, "2": 2}[str(st["amt"])]
	coin := sdk.NewCoin(sdk.DefaultBondDenom, sdk.NewInt(n*natUnit))
	switch str(st["amt"]) {
	case "neg":
		coin = sdk.Coin{Denom: sdk.DefaultBondDenom, Amount: sdk.NewInt(-3)}
	case "garbage":
		coin = sdk.Coin{Denom: "1x", Amount: sdk.NewInt(1)}
	}
	cp := w.Path.EndpointA.Chain
	msg := transfertypes.NewMsgTransfer(w.Path.EndpointB.ChannelConfig.PortID, w.Path.EndpointB.ChannelID, coin, w.userB().String(),
		cp.SenderAccount.GetAddress().String(), clienttypes.NewHeight(clienttypes.ParseChainID(cp.ChainID), 100000), 0)
	res, err := w.deliverB(msg)
	if err != nil {
		line["res"], line["msg"] = "err", clip(err.Error())
		return
	}
	_ = res
	line["res"] = "ok"
}

// sendBack: the holder sends vouchers back to where they came from with a MsgTransfer on chain B.
func (w *ICSWorld) sendBack(line, st M, denoms map[string]string) {
	abs := str(st["denom"])
	line["sig"] = fmt.Sprintf("SendBack/%s/%s", abs, str(st["amt"]))
	if w.Pend[abs] != nil {
		line["res"], line["msg"] = "err", "harness: one outstanding packet per voucher"
		return
	}
	path := w.pathOf(abs)
	coin := sdk.Coin{Denom: denoms[abs], Amount: sdk.NewInt(0)}
	switch str(st["amt"]) {
	case "1":
		coin.Amount = sdk.NewIntFromBigInt(icsAmount(1))
	case "2":
		coin.Amount = sdk.NewIntFromBigInt(icsAmount(2))
	case "neg":
		coin.Amount = sdk.NewInt(-3)
	case "garbage":
		coin = sdk.Coin{Denom: "1x", Amount: sdk.NewInt(1)}
	}
	cp := path.EndpointA.Chain
	timeout := clienttypes.NewHeight(clienttypes.ParseChainID(cp.ChainID), uint64(cp.GetContext().BlockHeight())+3)
	msg := transfertypes.NewMsgTransfer(path.EndpointB.ChannelConfig.PortID, path.EndpointB.ChannelID, coin, w.userB().String(),
		cp.SenderAccount.GetAddress().String(), timeout, 0)
	res, err := w.deliverB(msg)
	if err != nil {
		line["res"], line["msg"] = "err", clip(err.Error())
		return
	}
	packet, perr := ibctesting.ParsePacketFromEvents(res.GetEvents())
	if perr != nil {
		line["res"], line["msg"] = "ok", "no packet in the events: "+clip(perr.Error())
		return
	}
	line["res"] = "ok"
	w.Pend[abs] = &icsPending{packet: packet, amount: icsUnits(coin.Amount.BigInt())}
}

// settle: the outstanding packet of a voucher is settled by an acknowledgement the counterparty wrote (success or
// error) or by a timeout, delivered to chain B as MsgAcknowledgement / MsgTimeout with a real proof; then the same
// message is delivered again (line["again"]: did the second delivery move anything?).  Without an outstanding packet an
// acknowledgement for a packet that was never sent is delivered instead, and must move nothing.
func (w *ICSWorld) settle(line, st M, denoms map[string]string) {
	abs, outcome := str(st["denom"]), str(st["outcome"])
	line["sig"] = fmt.Sprintf("Settle/%s", outcome)
	line["again"] = false
	path := w.pathOf(abs)
	pd := w.Pend[abs]
	var packet channeltypes.Packet
	if pd != nil {
		packet = pd.packet
	} else {
		seq, _ := w.appB().IBCKeeper.ChannelKeeper.GetNextSequenceSend(w.B.GetContext(), path.EndpointB.ChannelConfig.PortID, path.EndpointB.ChannelID)
		base := map[string]string{"va": "acoin", "vb": "bcoin", "vc": "acoin"}[abs]
		data := transfertypes.FungibleTokenPacketData{Denom: transfertypes.GetPrefixedDenom(path.EndpointB.ChannelConfig.PortID, path.EndpointB.ChannelID, base), Amount: "1",
			Sender: w.userB().String(), Receiver: path.EndpointA.Chain.SenderAccount.GetAddress().String()}
		packet = channeltypes.NewPacket(data.GetBytes(), seq, path.EndpointB.ChannelConfig.PortID, path.EndpointB.ChannelID,
			path.EndpointA.ChannelConfig.PortID, path.EndpointA.ChannelID, clienttypes.NewHeight(clienttypes.ParseChainID(path.EndpointA.Chain.ChainID), 100000), 0)
		if outcome == "timeout" {
			outcome = "error"
		}
	}
	var msg sdk.Msg
	if outcome == "timeout" {
		cp := path.EndpointA.Chain
		for uint64(cp.GetContext().BlockHeight()) <= packet.TimeoutHeight.RevisionHeight {
			w.Coord.CommitBlock(cp)
		}
		w.fixHeaders()
		must(path.EndpointB.UpdateClient())
		w.fixHeaders()
		proof, proofHeight := path.EndpointA.QueryProof(host.PacketReceiptKey(packet.GetDestPort(), packet.GetDestChannel(), packet.GetSequence()))
		msg = channeltypes.NewMsgTimeout(packet, 1, proof, proofHeight, w.userB().String())
	} else {
		var ack channeltypes.Acknowledgement
		if outcome == "success" {
			ack = channeltypes.NewResultAcknowledgement([]byte{byte(1)})
		} else {
			ack = channeltypes.NewErrorAcknowledgement("forced by the counterparty")
		}
		if err := path.EndpointA.WriteAcknowledgement(ack, packet); err != nil { // the counterparty's store now holds this acknowledgement; B's client is updated
			line["cpmsg"] = clip(err.Error()) // (an earlier, refused settlement already wrote one: the proof below is then of that one)
			must(path.EndpointB.UpdateClient())
		}
		w.fixHeaders()
		proof, proofHeight := path.EndpointA.QueryProof(host.PacketAcknowledgementKey(packet.GetDestPort(), packet.GetDestChannel(), packet.GetSequence()))
		msg = channeltypes.NewMsgAcknowledgement(packet, ack.Acknowledgement(), proof, proofHeight, w.userB().String())
	}
	_, err := w.deliverB(msg)
	if pd == nil {
		line["res"], line["msg"] = "err", "harness: nothing outstanding; an acknowledgement of a packet never sent was delivered"
		if err != nil {
			line["msg"] = clip(err.Error())
		}
		return
	}
	if err != nil {
		line["res"], line["msg"] = "err", clip(err.Error())
		return
	}
	line["res"] = "ok"
	delete(w.Pend, abs)
	// the same message once more
	before := w.project(denoms)
	_, _ = w.deliverB(msg)
	after := w.project(denoms)
	line["again"] = fmt.Sprint(before) != fmt.Sprint(after)
}

// execProposalOn runs a proposal content on chain B the way gov.EndBlocker does.
func execProposalOn(w *ICSWorld, content interface {
	ProposalRoute() string
	ValidateBasic() error
}) (res, msg string) {
	c := &Chain{App: w.appB(), Header: w.B.CurrentHeader}
	type gc interface {
		GetTitle() string
		GetDescription() string
		ProposalRoute() string
		ProposalType() string
		ValidateBasic() error
		String() string
	}
	return c.ExecProposal(content.(gc))
}
