package harness

import (
	"bytes"
	"crypto/sha256"
	"fmt"
	"math"
	"reflect"
	"strings"
	"testing"
	"time"

	"github.com/ethereum/go-ethereum/accounts/abi"

	sdk "github.com/cosmos/cosmos-sdk/types"
	bsctypes "github.com/teleport-network/teleport/x/xibc/clients/light-clients/bsc/types"
	ethtypes "github.com/teleport-network/teleport/x/xibc/clients/light-clients/eth/types"
	xibctmtypes "github.com/teleport-network/teleport/x/xibc/clients/light-clients/tendermint/types"
	clienttypes "github.com/teleport-network/teleport/x/xibc/core/client/types"
	"github.com/teleport-network/teleport/x/xibc/core/host"
	packettypes "github.com/teleport-network/teleport/x/xibc/core/packet/types"
	"github.com/teleport-network/teleport/x/xibc/exported"
)

func init() { Drivers["codec"] = driveCodec }

func strOf(cls string, seed int64) string {
	switch cls {
	case "empty":
		return ""
	case "ascii":
		return fmt.Sprintf("chain-%d", seed)
	case "slash":
		return "a/b/" + fmt.Sprint(seed)
	case "html":
		return "<a href=\"x\">&amp;</a>"
	case "multibyte":
		return "héllo-漢字-🙂"
	case "hexaddr":
		return "0x5aAeb6053F3E94C9b9A09f33669435E7Ef1BeAed" // an account in mixed-case (EIP-55) spelling
	case "invalidutf8":
		return "ab\xff\xfecd"
	case "len64":
		return strings.Repeat("x", 64)
	case "long":
		return strings.Repeat("long-", 70)
	case "nul":
		return "a\x00b"
	case "quote":
		return "say \"hi\" \\ back"
	}
	return cls
}

func bytesOf(cls string, seed int64) []byte {
	switch cls {
	case "empty":
		return []byte{}
	case "short":
		return []byte{1, 2, byte(seed)}
	case "b32":
		h := sha256.Sum256([]byte{byte(seed)})
		return h[:]
	case "nonutf8":
		return []byte{0xff, 0xfe, 0x00, 0x80, 0xc3}
	case "long":
		return bytes.Repeat([]byte{0xab, 0x00, 0xff}, 120)
	}
	return nil
}

func numOf(cls string) uint64 {
	switch cls {
	case "0":
		return 0
	case "1":
		return 1
	case "2p53p1":
		return 1<<53 + 1
	case "2p63":
		return 1 << 63
	case "max":
		return math.MaxUint64
	}
	return 7
}

func nameOf(cls string) string {
	switch cls {
	case "plain":
		return "teleport"
	case "dots":
		return "bsc.test_net-1+x"
	case "brackets":
		return "a[b]<c>"
	case "hash":
		return "eth#main"
	case "len3":
		return "abc"
	case "len64":
		return strings.Repeat("n", 64)
	case "digits":
		return "12345"
	case "kwsequences":
		return host.KeySequencePrefix
	case "kwcommitments":
		return host.KeyPacketCommitmentPrefix
	case "kwreceipts":
		return host.KeyPacketReceiptPrefix
	case "kwacks":
		return host.KeyPacketAckPrefix
	case "kwnextseq":
		return host.KeyNextSeqSendPrefix
	}
	return cls
}

// independent ABI encodings (argument lists written here, not taken from the package under test)
func refArgs(spec []abi.ArgumentMarshaling) abi.Arguments {
	t, err := abi.NewType("tuple", "", spec)
	must(err)
	return abi.Arguments{{Type: t}}
}

var (
	refPacket = refArgs([]abi.ArgumentMarshaling{{Name: "src_chain", Type: "string"}, {Name: "dst_chain", Type: "string"}, {Name: "sequence", Type: "uint64"},
		{Name: "sender", Type: "string"}, {Name: "transfer_data", Type: "bytes"}, {Name: "call_data", Type: "bytes"}, {Name: "callback_address", Type: "string"}, {Name: "fee_option", Type: "uint64"}})
)

func guard(f func() bool) (ok bool, panicked bool) {
	defer func() {
		if r := recover(); r != nil {
			ok, panicked = false, true
		}
	}()
	return f(), false
}

func driveCodec(t *testing.T, in, out string, seed int64) {
	cases := ReadBehaviours(in)
	tw := NewTraceWriter(out)
	defer tw.Close()
	l := NewLC()
	c := l.C
	for bi, b := range cases {
		cs := b[0]
		line := M{"ev": "Codec", "b": bi, "i": 0, "args": cs, "res": "ok", "decenc": true, "encdec": true, "commitdiffer": true, "injective": true, "parseback": true}
		if str(cs["fam"]) == "obj" {
			s, bz, n := strOf(str(cs["s"]), seed), bytesOf(str(cs["b"]), seed), numOf(str(cs["n"]))
			pan := false
			switch str(cs["obj"]) {
			case "packet":
				p := packettypes.Packet{SrcChain: s, DstChain: "dst-" + s, Sequence: n, Sender: s, TransferData: bz, CallData: append([]byte{9}, bz...), CallbackAddress: s, FeeOption: n}
				var enc []byte
				ok, pn := guard(func() bool {
					var err error
					enc, err = p.ABIPack()
					if err != nil {
						return false
					}
					// the package's encoding equals the independent reference encoding
					ref, err := refPacket.Pack(p)
					if err != nil || !bytes.Equal(ref, enc) {
						return false
					}
					var q packettypes.Packet
					if err := q.ABIDecode(enc); err != nil {
						return false
					}
					return reflect.DeepEqual(normPacket(p), normPacket(q))
				})
				line["decenc"], pan = ok, pn
				ok, pn = guard(func() bool {
					var q packettypes.Packet
					if err := q.ABIDecode(enc); err != nil {
						return false
					}
					re, err := q.ABIPack()
					return err == nil && bytes.Equal(re, enc)
				})
				line["encdec"], pan = ok, pan || pn
				// commitments of packets differing in exactly one field differ
				ok, pn = guard(func() bool {
					base, err := packettypes.CommitPacket(&p)
					if err != nil {
						return false
					}
					variants := []packettypes.Packet{p, p, p, p, p, p, p, p}
					variants[0].SrcChain += "x"
					variants[1].DstChain += "x"
					variants[2].Sequence ^= 1
					variants[3].Sender += "x"
					variants[4].TransferData = append(append([]byte{}, p.TransferData...), 1)
					variants[5].CallData = append(append([]byte{}, p.CallData...), 1)
					variants[6].CallbackAddress += "x"
					variants[7].FeeOption ^= 1
					for _, v := range variants {
						v := v
						h, err := packettypes.CommitPacket(&v)
						if err != nil || bytes.Equal(h, base) {
							return false
						}
					}
					// moving bytes between adjacent fields does not collide either
					moved := p
					moved.SrcChain, moved.DstChain = p.SrcChain+"d", strings.TrimPrefix(p.DstChain, "d")
					if moved.SrcChain != p.SrcChain || moved.DstChain != p.DstChain {
						h, err := packettypes.CommitPacket(&moved)
						if err != nil || bytes.Equal(h, base) {
							return false
						}
					}
					return true
				})
				line["commitdiffer"], pan = ok, pan || pn
			case "ack":
				a := packettypes.NewAcknowledgement(n, bz, s, s, n)
				var enc []byte
				ok, pn := guard(func() bool {
					var err error
					enc, err = a.ABIPack()
					if err != nil {
						return false
					}
					var q packettypes.Acknowledgement
					if err := q.ABIDecode(enc); err != nil {
						return false
					}
					return q.Code == a.Code && bytes.Equal(q.Result, a.Result) && q.Message == a.Message && q.Relayer == a.Relayer && q.FeeOption == a.FeeOption
				})
				line["decenc"], pan = ok, pn
				ok, pn = guard(func() bool {
					var q packettypes.Acknowledgement
					if err := q.ABIDecode(enc); err != nil {
						return false
					}
					re, err := q.ABIPack()
					return err == nil && bytes.Equal(re, enc)
				})
				line["encdec"], pan = ok, pan || pn
				b2 := packettypes.NewAcknowledgement(n^1, bz, s, s, n)
				e2, _ := b2.ABIPack()
				line["commitdiffer"] = !bytes.Equal(packettypes.CommitAcknowledgement(enc), packettypes.CommitAcknowledgement(e2))
			case "transfer":
				td := packettypes.TransferData{Token: s, OriToken: "o" + s, Amount: bz, Receiver: s}
				var enc []byte
				ok, pn := guard(func() bool {
					var err error
					enc, err = td.ABIPack()
					if err != nil {
						return false
					}
					var q packettypes.TransferData
					if err := q.ABIDecode(enc); err != nil {
						return false
					}
					return q.Token == td.Token && q.OriToken == td.OriToken && bytes.Equal(q.Amount, td.Amount) && q.Receiver == td.Receiver
				})
				line["decenc"], pan = ok, pn
				ok, pn = guard(func() bool {
					var q packettypes.TransferData
					if err := q.ABIDecode(enc); err != nil {
						return false
					}
					re, err := q.ABIPack()
					return err == nil && bytes.Equal(re, enc)
				})
				line["encdec"], pan = ok, pan || pn
			case "calldata":
				cd := packettypes.CallData{ContractAddress: s, CallData: bz}
				var enc []byte
				ok, pn := guard(func() bool {
					var err error
					enc, err = cd.ABIPack()
					if err != nil {
						return false
					}
					var q packettypes.CallData
					if err := q.ABIDecode(enc); err != nil {
						return false
					}
					return q.ContractAddress == cd.ContractAddress && bytes.Equal(q.CallData, cd.CallData)
				})
				line["decenc"], pan = ok, pn
				ok, pn = guard(func() bool {
					var q packettypes.CallData
					if err := q.ABIDecode(enc); err != nil {
						return false
					}
					re, err := q.ABIPack()
					return err == nil && bytes.Equal(re, enc)
				})
				line["encdec"], pan = ok, pan || pn
			}
			if pan {
				line["res"] = "panic"
			}
		} else if str(cs["fam"]) == "cons" {
			// a consensus state stored by the client keeper under (revision, number), read back by the light client's own
			// ascending iterator and by the keeper's iterator over all clients
			h := clienttypes.NewHeight(numOf(str(cs["rev"])), numOf(str(cs["n"])))
			ok, pan := guard(func() bool {
				ctx, _ := c.Ctx().CacheContext()
				ck := c.App.XIBCKeeper.ClientKeeper
				name := "cons-" + str(cs["ty"])
				var cons exported.ConsensusState
				var iter func(sdk.KVStore, func(exported.Height) bool)
				switch str(cs["ty"]) {
				case "tm":
					cons = &xibctmtypes.ConsensusState{Timestamp: time.Unix(1, 0).UTC(), Root: []byte{1}, NextValidatorsHash: make([]byte, 32)}
					iter = xibctmtypes.IterateConsensusStateAscending
					xibctmtypes.SetIterationKey(ck.ClientStore(ctx, name), h) // what the tendermint client writes next to every consensus state
				case "bsc":
					cons = &bsctypes.ConsensusState{Timestamp: 1, Height: h, Root: []byte{1}}
					iter = bsctypes.IterateConsensusStateAscending
				default:
					cons = &ethtypes.ConsensusState{Timestamp: 1, Height: h, Root: []byte{1}}
					iter = ethtypes.IterateConsensusStateAscending
				}
				ck.SetClientConsensusState(ctx, name, h, cons)
				got := []string{}
				iter(ck.ClientStore(ctx, name), func(x exported.Height) bool {
					got = append(got, x.String())
					return false
				})
				all := []string{}
				ck.IterateConsensusStates(ctx, func(chainName string, cs clienttypes.ConsensusStateWithHeight) bool {
					if chainName == name {
						all = append(all, cs.Height.String())
					}
					return false
				})
				_, found := ck.GetClientConsensusState(ctx, name, h)
				return found && len(got) == 1 && got[0] == h.String() && len(all) == 1 && all[0] == h.String()
			})
			line["parseback"] = ok
			if pan {
				line["res"] = "panic"
			}
		} else {
			// store keys: distinct triples give distinct keys, and every iterator reads back what was written
			src, dst, seq := nameOf(str(cs["src"])), nameOf(str(cs["dst"])), numOf(str(cs["n"]))
			inj := true
			for _, o := range [][3]interface{}{{src + "x", dst, seq}, {src, dst + "x", seq}, {src, dst, seq ^ 1}, {dst, src, seq}} {
				if o[0].(string) == src && o[1].(string) == dst && o[2].(uint64) == seq {
					continue
				}
				if bytes.Equal(host.PacketCommitmentKey(src, dst, seq), host.PacketCommitmentKey(o[0].(string), o[1].(string), o[2].(uint64))) ||
					bytes.Equal(host.PacketReceiptKey(src, dst, seq), host.PacketReceiptKey(o[0].(string), o[1].(string), o[2].(uint64))) ||
					bytes.Equal(host.PacketAcknowledgementKey(src, dst, seq), host.PacketAcknowledgementKey(o[0].(string), o[1].(string), o[2].(uint64))) {
					inj = false
				}
			}
			line["injective"] = inj && host.ClientIdentifierValidator(src) == nil && host.ClientIdentifierValidator(dst) == nil
			ok, pan := guard(func() bool {
				ctx, _ := c.Ctx().CacheContext()
				k := c.App.XIBCKeeper.PacketKeeper
				k.SetPacketCommitment(ctx, src, dst, seq, []byte{1})
				k.SetPacketReceipt(ctx, src, dst, seq)
				k.SetPacketAcknowledgement(ctx, src, dst, seq, []byte{2})
				k.SetNextSequenceSend(ctx, src, dst, seq)
				cm, rc, ak, sq := k.GetAllPacketCommitments(ctx), k.GetAllPacketReceipts(ctx), k.GetAllPacketAcks(ctx), k.GetAllPacketSendSeqs(ctx)
				return len(cm) == 1 && cm[0].SrcChain == src && cm[0].DstChain == dst && cm[0].Sequence == seq &&
					len(rc) == 1 && rc[0].SrcChain == src && rc[0].DstChain == dst && rc[0].Sequence == seq &&
					len(ak) == 1 && ak[0].SrcChain == src && ak[0].DstChain == dst && ak[0].Sequence == seq &&
					len(sq) == 1 && sq[0].SrcChain == src && sq[0].DstChain == dst && sq[0].Sequence == seq
			})
			line["parseback"] = ok
			if pan {
				line["res"] = "panic"
			}
		}
		sig := str(cs["fam"])
		for _, k := range []string{"obj", "s", "b", "n", "src", "dst"} {
			if v, ok := cs[k]; ok {
				sig += "/" + k + "=" + str(v)
			}
		}
		line["sig"] = sig
		tw.Emit(line)
	}
}

func normPacket(p packettypes.Packet) packettypes.Packet {
	if p.TransferData == nil {
		p.TransferData = []byte{}
	}
	if p.CallData == nil {
		p.CallData = []byte{}
	}
	return p
}
