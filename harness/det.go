package harness

import (
	"crypto/sha256"
	"encoding/hex"
	"fmt"
	"os"
	"sort"
	"strings"

	abci "github.com/tendermint/tendermint/abci/types"
)

// What the application returned to "consensus" since the previous trace line (VERIF_DET=1 only): a fingerprint of
// the results (code, codespace, data, gas, commit hashes) and, per event in the order given, its type, a fingerprint
// of its attributes as emitted and one with the attributes sorted (so that a pure attribute-order difference can be
// told from a difference in content).
var (
	detOn   = os.Getenv("VERIF_DET") == "1"
	detRes  = sha256.New()
	detEvs  [][3]string
	detRecs []string // the result records of the window, fingerprinted one by one (tx records keep their gas figures readable)
)

func fp(s string) string { h := sha256.Sum256([]byte(s)); return hex.EncodeToString(h[:6]) }

func DetRecord(result string, events []abci.Event) {
	if !detOn {
		return
	}
	fmt.Fprintf(detRes, "%s\n", result)
	if strings.HasPrefix(result, "tx|") {
		// tx|code|codespace|data|gasWanted|gasUsed -> code, fingerprint of codespace and data, gasWanted, gasUsed
		f := strings.Split(result, "|")
		if len(f) == 6 {
			detRecs = append(detRecs, "tx|"+f[1]+"|"+fp(f[2]+"|"+f[3])+"|"+f[4]+"|"+f[5])
		} else {
			detRecs = append(detRecs, "tx?"+fp(result))
		}
	} else {
		detRecs = append(detRecs, fp(result))
	}
	if os.Getenv("VERIF_DET_DEBUG") != "" {
		fmt.Fprintf(os.Stderr, "DETRES %s\n", result)
	}
	for _, ev := range events {
		var attrs []string
		for _, a := range ev.Attributes {
			attrs = append(attrs, string(a.Key)+"="+string(a.Value))
		}
		raw := fp(strings.Join(attrs, "\x00"))
		sort.Strings(attrs)
		if os.Getenv("VERIF_DET_DEBUG") != "" {
			fmt.Fprintf(os.Stderr, "DET %s %s\n", ev.Type, strings.Join(attrs, " | "))
		}
		detEvs = append(detEvs, [3]string{ev.Type, raw, fp(strings.Join(attrs, "\x00"))})
	}
}

// DetSnapshot returns the records since the previous snapshot and starts a new window.
func DetSnapshot() M {
	evs := make([]interface{}, 0, len(detEvs))
	for _, e := range detEvs {
		evs = append(evs, []string{e[0], e[1], e[2]})
	}
	recs := make([]interface{}, 0, len(detRecs))
	for _, r := range detRecs {
		recs = append(recs, r)
	}
	m := M{"res": hex.EncodeToString(detRes.Sum(nil))[:16], "evs": evs, "recs": recs}
	detRes.Reset()
	detEvs = nil
	detRecs = nil
	return m
}
