package harness

import (
	"crypto/sha256"
	"encoding/hex"
	"fmt"
	"os"
	"sort"
	"strings"

	abci "github.com/tendermint/tendermint/abci/types"
)

// What the application returned to "consensus" since the previous trace line (VERIF_DET=1 only): a fingerprint of
// the results (code, codespace, data, gas, commit hashes) and, per event in the order given, its type, a fingerprint
// of its attributes as emitted and one with the attributes sorted (so that a pure attribute-order difference can be
// told from a difference in content).
var (
	detOn  = os.Getenv("VERIF_DET") == "1"
	detRes = sha256.New()
	detEvs [][3]string
)

func fp(s string) string { h := sha256.Sum256([]byte(s)); return hex.EncodeToString(h[:6]) }

func DetRecord(result string, events []abci.Event) {
	if !detOn {
		return
	}
	fmt.Fprintf(detRes, "%s\n", result)
	for _, ev := range events {
		var attrs []string
		for _, a := range ev.Attributes {
			attrs = append(attrs, string(a.Key)+"="+string(a.Value))
		}
		raw := fp(strings.Join(attrs, "\x00"))
		sort.Strings(attrs)
		if os.Getenv("VERIF_DET_DEBUG") != "" {
			fmt.Fprintf(os.Stderr, "DET %s %s\n", ev.Type, strings.Join(attrs, " | "))
		}
		detEvs = append(detEvs, [3]string{ev.Type, raw, fp(strings.Join(attrs, "\x00"))})
	}
}

// DetSnapshot returns the records since the previous snapshot and starts a new window.
func DetSnapshot() M {
	evs := make([]interface{}, 0, len(detEvs))
	for _, e := range detEvs {
		evs = append(evs, []string{e[0], e[1], e[2]})
	}
	m := M{"res": hex.EncodeToString(detRes.Sum(nil))[:16], "evs": evs}
	detRes.Reset()
	detEvs = nil
	return m
}
