package harness

import (
	"encoding/binary"

	"github.com/ethereum/go-ethereum/core/vm"
)

// asm is a tiny two-pass EVM assembler (there is no Solidity compiler in this environment): opcodes, pushes and labels
// whose addresses are resolved to PUSH2 operands.
type asm struct {
	code   []byte
	labels map[string]int
	fixups map[int]string
}

func newAsm() *asm { return &asm{labels: map[string]int{}, fixups: map[int]string{}} }

func (a *asm) op(ops ...vm.OpCode) *asm {
	for _, o := range ops {
		a.code = append(a.code, byte(o))
	}
	return a
}

func (a *asm) push(data ...byte) *asm {
	a.code = append(a.code, byte(vm.PUSH1)+byte(len(data)-1))
	a.code = append(a.code, data...)
	return a
}

func (a *asm) pushLabel(l string) *asm {
	a.code = append(a.code, byte(vm.PUSH2))
	a.fixups[len(a.code)] = l
	a.code = append(a.code, 0, 0)
	return a
}

func (a *asm) label(l string) *asm {
	a.labels[l] = len(a.code)
	return a.op(vm.JUMPDEST)
}

func (a *asm) bytes() []byte {
	for pos, l := range a.fixups {
		binary.BigEndian.PutUint16(a.code[pos:], uint16(a.labels[l]))
	}
	return a.code
}

// bonusTokenCode: creation code of a small ERC-20 whose transfer(to, amount) moves amount + amount/2 from the caller to
// the recipient (a "loyalty bonus"): exact for an amount of 1, more than requested from 2 on.  balances live at the slot
// of the holder's address, the total supply at slot 0; mint(to, amount) is open; name/symbol/decimals are those of the
// standard test tokens ("name", "symbol", 18).
func bonusTokenCode() []byte {
	retWord := func(a *asm) *asm { return a.push(0).op(vm.MSTORE).push(0x20).push(0).op(vm.RETURN) }
	retString := func(a *asm, s string) *asm {
		word := make([]byte, 32)
		copy(word, s)
		a.push(0x20).push(0).op(vm.MSTORE)
		a.push(byte(len(s))).push(0x20).op(vm.MSTORE)
		a.push(word...).push(0x40).op(vm.MSTORE)
		return a.push(0x60).push(0).op(vm.RETURN)
	}
	rt := newAsm()
	rt.push(0).op(vm.CALLDATALOAD).push(0xe0).op(vm.SHR)
	for _, d := range []struct {
		sel   []byte
		label string
	}{
		{[]byte{0x70, 0xa0, 0x82, 0x31}, "balanceOf"}, {[]byte{0xa9, 0x05, 0x9c, 0xbb}, "transfer"}, {[]byte{0x40, 0xc1, 0x0f, 0x19}, "mint"},
		{[]byte{0x18, 0x16, 0x0d, 0xdd}, "totalSupply"}, {[]byte{0x06, 0xfd, 0xde, 0x03}, "name"}, {[]byte{0x95, 0xd8, 0x9b, 0x41}, "symbol"},
		{[]byte{0x31, 0x3c, 0xe5, 0x67}, "decimals"},
	} {
		rt.op(vm.DUP1).push(d.sel...).op(vm.EQ).pushLabel(d.label).op(vm.JUMPI)
	}
	rt.label("revert").push(0).op(vm.DUP1, vm.REVERT)

	retWord(rt.label("balanceOf").push(4).op(vm.CALLDATALOAD, vm.SLOAD))
	retWord(rt.label("totalSupply").push(0).op(vm.SLOAD))

	// mint(address to, uint256 amount): balance[to] += amount; supply += amount
	rt.label("mint").push(0x24).op(vm.CALLDATALOAD) // amt
	rt.push(4).op(vm.CALLDATALOAD)                  // to amt
	rt.op(vm.DUP1, vm.SLOAD)                        // bal to amt
	rt.op(vm.DUP3, vm.ADD)                          // bal+amt to amt
	rt.op(vm.SWAP1, vm.SSTORE)                      // amt
	rt.push(0).op(vm.SLOAD, vm.ADD)                 // supply+amt
	rt.push(0).op(vm.SSTORE)                        //
	retWord(rt.push(1))

	// transfer(address to, uint256 amount): total = amount + amount/2
	rt.label("transfer").push(0x24).op(vm.CALLDATALOAD) // amt
	rt.op(vm.DUP1).push(2).op(vm.SWAP1, vm.DIV)         // amt/2 amt
	rt.op(vm.ADD)                                       // total
	rt.op(vm.CALLER, vm.SLOAD)                          // balFrom total
	rt.op(vm.DUP2, vm.DUP2, vm.LT)                      // balFrom<total balFrom total
	rt.pushLabel("revert").op(vm.JUMPI)                 // balFrom total
	rt.op(vm.DUP2, vm.SWAP1, vm.SUB)                    // balFrom-total total
	rt.op(vm.CALLER, vm.SSTORE)                         // total
	rt.push(4).op(vm.CALLDATALOAD)                      // to total
	rt.op(vm.DUP1, vm.SLOAD)                            // balTo to total
	rt.op(vm.DUP3, vm.ADD)                              // balTo+total to total
	rt.op(vm.SWAP1, vm.SSTORE, vm.POP)                  //
	retWord(rt.push(1))

	retString(rt.label("name"), "name")
	retString(rt.label("symbol"), "symbol")
	retWord(rt.label("decimals").push(18))

	runtime := rt.bytes()
	const initLen = 3 + 1 + 3 + 2 + 1 + 2 + 1
	init := newAsm()
	init.push(byte(len(runtime)>>8), byte(len(runtime))).op(vm.DUP1)
	init.push(0, initLen).push(0).op(vm.CODECOPY).push(0).op(vm.RETURN)
	if len(init.code) != initLen {
		panic("unexpected constructor length")
	}
	return append(init.bytes(), runtime...)
}
