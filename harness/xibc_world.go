package harness

import (
	"crypto/sha256"
	"encoding/hex"
	"encoding/json"
	"fmt"
	tmtypes "github.com/tendermint/tendermint/types"
	"math/big"
	"os"
	"sort"
	"strconv"
	"strings"
	"time"

	"github.com/ethereum/go-ethereum/common"
	"github.com/ethereum/go-ethereum/crypto"

	"github.com/teleport-network/teleport/syscontracts"
	erc20contracts "github.com/teleport-network/teleport/syscontracts/erc20"
	stakingcontract "github.com/teleport-network/teleport/syscontracts/staking"
	agentcontract "github.com/teleport-network/teleport/syscontracts/xibc_agent"
	endpointcontract "github.com/teleport-network/teleport/syscontracts/xibc_endpoint"
	packetcontract "github.com/teleport-network/teleport/syscontracts/xibc_packet"
	aggtypes "github.com/teleport-network/teleport/x/aggregate/types"
	"github.com/teleport-network/teleport/x/xibc"
	xibctmtypes "github.com/teleport-network/teleport/x/xibc/clients/light-clients/tendermint/types"
	tsstypes "github.com/teleport-network/teleport/x/xibc/clients/tss-client/types"
	clienttypes "github.com/teleport-network/teleport/x/xibc/core/client/types"
	commitmenttypes "github.com/teleport-network/teleport/x/xibc/core/commitment/types"
	"github.com/teleport-network/teleport/x/xibc/core/host"
	packettypes "github.com/teleport-network/teleport/x/xibc/core/packet/types"
	xibctypes "github.com/teleport-network/teleport/x/xibc/types"
)

// World is a set of teleport chains connected pairwise by tendermint light
// clients, with one origin ERC-20 per chain and a wrapped ERC-20 for every
// other chain's origin token (registered with the endpoint contract).
type World struct {
	ForgeNext  bool // the next UpdateClient submits a forged header (signer class "forger")
	forgeCount int
	Names      []string          // abstract names "A","B","C"
	Chains     map[string]*Chain // by abstract name
	ID         map[string]string // abstract name -> chain id
	Abs        map[string]string // chain id -> abstract name
	Origin     map[string]common.Address
	Wrap       map[string]map[string]common.Address // Wrap[c][d] = token on c wrapping d's origin token
	// abstract heights: AbsH[c][k] = real header height proving the state after the k-th Commit of c
	AbsH map[string][]int64
	// AbsT[c][k]: the time of the block being built while c is at abstract height k (what a client update executed then records
	// as its processing time)
	AbsT map[string][]int64
	// ground truth recorded at every commit: provable commitments/acks at AbsH[c][k]
	Snap map[string][]SnapT
	// every packet emitted by a PacketSent log, by "src/dst/seq" (abstract names)
	Sent     map[string][]byte
	SentHash map[string]string // sha256(bytes) hex -> "src/dst/seq"
	AckBytes map[string][]byte // ack bytes written on dst for triple (from EventWriteAck)
	Now      time.Time
	Marker   common.Address
	Fwd      map[string]common.Address // chain id -> the user's forwarding contract
	Skew     map[string]time.Duration  // how far a chain's block time runs ahead of the world clock (Elapse)
}

type SnapT struct {
	Commits map[string]string // "src/dst/seq" (chain ids) -> hex hash
	Acks    map[string]string
}

var ChainIDs = map[string]string{"A": "teleport_9000-10", "B": "teleport_9000-11", "C": "teleport_9000-12"}

var (
	erc20ABI    = erc20contracts.ERC20MinterBurnerDecimalsContract.ABI
	packetABI   = packetcontract.PacketContract.ABI
	endpointABI = endpointcontract.EndpointContract.ABI
	executeABI  = endpointcontract.ExecuteContract.ABI
	packetAddr  = packetcontract.PacketContractAddress
	endpAddr    = endpointcontract.EndpointContractAddress
	execAddr    = common.HexToAddress(syscontracts.ExecuteContractAddress)
	zeroAddr    = common.Address{}
)

const (
	UserFunds   = 1000
	AcctUser    = 0
	AcctRelayer = 1
	AcctOutside = 2
	AcctRel2    = 3
)

func worldAccts(name string) []Acct {
	// relayers use one key on every chain (the registry maps a relayer to its address on the other chain,
	// and the acknowledgement's relayer field is resolved by textual equality on the source chain)
	return []Acct{NewAcct(name + "/user"), NewAcct("relayer"), NewAcct("outsider"), NewAcct("relayer2")}
}

// NewWorld builds the chains, tokens, clients and relayer registry.
func NewWorld(names []string) *World { return NewWorldAccts(names, worldAccts) }

// NewWorldAccts is NewWorld with a caller-chosen account list per chain (index 0 = user, 1 = relayer, 2 = outsider).
func NewWorldAccts(names []string, acctsOf func(string) []Acct) *World {
	w := &World{Names: names, Chains: map[string]*Chain{}, ID: map[string]string{}, Abs: map[string]string{},
		Origin: map[string]common.Address{}, Wrap: map[string]map[string]common.Address{}, AbsH: map[string][]int64{}, AbsT: map[string][]int64{},
		Snap: map[string][]SnapT{}, Sent: map[string][]byte{}, SentHash: map[string]string{}, AckBytes: map[string][]byte{},
		Now: StartTime, Fwd: map[string]common.Address{}, Marker: common.HexToAddress("0x00000000000000000000000000000000000eeeee")}
	for _, n := range names {
		id := ChainIDs[n]
		w.ID[n], w.Abs[id] = id, n
		c := NewChain(ChainOpts{ChainID: id, Accts: acctsOf(n)})
		w.Chains[n] = c
		// the packet contract must know the chain's name (the repository's tests do the same)
		_, err := c.App.XIBCKeeper.PacketKeeper.CallEVM(c.Ctx(), packetABI, packettypes.ModuleAddress, packetAddr, "setChainName", id)
		must(err)
	}
	for _, n := range names {
		c := w.Chains[n]
		user := c.Accts[AcctUser]
		w.Origin[n] = w.deployERC20(c)
		w.grantMint(c, w.Origin[n], user.Eth)
		r := c.DeliverEth(user, addrp(w.Origin[n]), nil, mustPack(erc20ABI, "mint", user.Eth, big.NewInt(UserFunds)))
		if !r.OK() {
			panic("mint failed: " + r.Log + r.VMError)
		}
		r = c.DeliverEth(user, addrp(w.Origin[n]), nil, mustPack(erc20ABI, "approve", endpAddr, big.NewInt(1_000_000)))
		if !r.OK() {
			panic("approve failed")
		}
		w.Wrap[n] = map[string]common.Address{}
	}
	for _, n := range names {
		c := w.Chains[n]
		for _, d := range names {
			if d == n {
				continue
			}
			wr := w.deployERC20(c)
			w.Wrap[n][d] = wr
			must(c.App.AggregateKeeper.RegisterERC20Trace(c.Ctx(), wr, strings.ToLower(w.Origin[d].String()), w.ID[d], worldScale()))
			r := c.DeliverEth(c.Accts[AcctUser], addrp(wr), nil, mustPack(erc20ABI, "approve", endpAddr, big.NewInt(1_000_000)))
			if !r.OK() {
				panic("approve failed")
			}
		}
	}
	for _, n := range names {
		w.forwarder(w.Chains[n]) // the user's forwarding and batching contracts exist from the start
	}
	for _, n := range names {
		w.Commit(n) // abstract height 0: the state right after token set-up; clients are created at this height
	}
	// clients and relayers
	for _, n := range names {
		c := w.Chains[n]
		var chains, addrs []string
		for _, d := range names {
			if d == n {
				continue
			}
			dc := w.Chains[d]
			tc := dc // the chain whose headers the client named after d follows (d itself, except in the hub world)
			if worldTrack != nil {
				tc = w.Chains[worldTrack(n, d)]
			}
			h := tc.LastHdr
			must(c.App.XIBCKeeper.ClientKeeper.CreateClient(c.Ctx(), dc.ChainID, w.tmClientState(tc, h), h.ConsensusState()))
			chains = append(chains, dc.ChainID)
			addrs = append(addrs, dc.Accts[AcctRelayer].Acc.String())
		}
		c.App.XIBCKeeper.ClientKeeper.RegisterRelayers(c.Ctx(), c.Accts[AcctRelayer].Acc.String(), chains, addrs)
	}
	return w
}

// Rotate: governance on chain cn re-registers the relayer with another counterparty address for chain dn (the
// outsider's address), or with the original one again; the other chains' entries are kept as they are.
func (w *World) Rotate(cn, dn string) (string, string) {
	c := w.Chains[cn]
	rel := c.Accts[AcctRelayer].Acc.String()
	ir, _ := c.App.XIBCKeeper.ClientKeeper.GetRelayer(c.Ctx(), rel)
	chains, addrs := append([]string{}, ir.Chains...), append([]string{}, ir.Addresses...)
	for i, ch := range chains {
		if ch == w.ID[dn] {
			if addrs[i] == rel {
				addrs[i] = c.Accts[AcctOutside].Acc.String()
			} else {
				addrs[i] = rel
			}
		}
	}
	return c.ExecProposal(clienttypes.NewRegisterRelayerProposal("t", "d", rel, chains, addrs))
}

// worldTrack, when set, names the chain whose headers the client called `name` on chain `on` follows (hub world).
var worldTrack func(on, name string) string

func (w *World) tmClientState(tc *Chain, h *xibctmtypes.Header) *xibctmtypes.ClientState {
	return xibctmtypes.NewClientState(tc.ChainID, xibctmtypes.DefaultTrustLevel, 14*24*time.Hour, 21*24*time.Hour, time.Hour,
		h.GetHeight().(clienttypes.Height), commitmenttypes.GetSDKSpecs(), commitmenttypes.MerklePrefix{KeyPrefix: []byte("xibc")}, worldDelay())
}

// worldDelay: the time delay of the world's Tendermint clients in nanoseconds (VERIF_XIBC_DELAY, default 0).  A delay of 1 ns
// means: a proof at a height is honoured only in a later block than the one that stored the height.
func worldDelay() uint64 {
	n, _ := strconv.Atoi(os.Getenv("VERIF_XIBC_DELAY"))
	return uint64(n)
}

// Retoggle: governance replaces chain cn's client of dn by a TSS client and then by a fresh Tendermint client at dn's
// last committed header (two ToggleClient proposals through the routed handler).
func (w *World) Retoggle(cn, dn string) (string, string) {
	c, d := w.Chains[cn], w.Chains[dn]
	tss := &tsstypes.ClientState{TssAddress: c.Accts[AcctOutside].Acc.String(), Pubkey: []byte{1, 2, 3}, PartPubkeys: [][]byte{{4}, {5}}, Threshold: 2}
	p1, err := clienttypes.NewToggleClientProposal("t", "d", d.ChainID, tss, &tsstypes.ConsensusState{})
	must(err)
	if res, msg := c.ExecProposal(p1); res != "ok" {
		return "err", "toggle to tss: " + msg
	}
	h := d.LastHdr
	cs := xibctmtypes.NewClientState(d.ChainID, xibctmtypes.DefaultTrustLevel, 14*24*time.Hour, 21*24*time.Hour, time.Hour,
		h.GetHeight().(clienttypes.Height), commitmenttypes.GetSDKSpecs(), commitmenttypes.MerklePrefix{KeyPrefix: []byte("xibc")}, worldDelay())
	p2, err := clienttypes.NewToggleClientProposal("t", "d", d.ChainID, cs, h.ConsensusState())
	must(err)
	if res, msg := c.ExecProposal(p2); res != "ok" {
		return "err", "toggle to tendermint: " + msg
	}
	return "ok", ""
}

// NewClient: governance on chain cn creates a TSS client for a further chain whose name is a proper prefix of the
// name of cn's counterparty dn (mode "prefix": the name without its last 1, 2, ... characters) or extends it (mode
// "ext").  Each call uses the next free name of its kind.
func (w *World) NewClient(cn, dn, mode string) (string, string) {
	c, d := w.Chains[cn], w.Chains[dn]
	name := ""
	for i := 1; i < len(d.ChainID)-3 && name == ""; i++ {
		cand := d.ChainID[:len(d.ChainID)-i]
		if mode == "ext" {
			cand = d.ChainID + strings.Repeat("0", i)
		}
		taken := cand == c.ChainID
		for _, o := range w.Chains {
			if o.ChainID == cand {
				taken = true
			}
		}
		if _, ok := c.App.XIBCKeeper.ClientKeeper.GetClientState(c.Ctx(), cand); !ok && !taken {
			name = cand
		}
	}
	if name == "" {
		return "err", "no free name"
	}
	tss := &tsstypes.ClientState{TssAddress: c.Accts[AcctOutside].Acc.String(), Pubkey: []byte{1, 2, 3}, PartPubkeys: [][]byte{{4}, {5}}, Threshold: 2}
	p, err := clienttypes.NewCreateClientProposal("t", "d", name, tss, &tsstypes.ConsensusState{})
	must(err)
	return c.ExecProposal(p)
}

func addrp(a common.Address) *common.Address { return &a }

func mustPack(a interface {
	Pack(string, ...interface{}) ([]byte, error)
}, m string, args ...interface{}) []byte {
	bz, err := a.Pack(m, args...)
	must(err)
	return bz
}

func (w *World) deployERC20(c *Chain) common.Address {
	ctor, err := erc20ABI.Pack("", "name", "symbol", uint8(18))
	must(err)
	bin := erc20contracts.ERC20MinterBurnerDecimalsContract.Bin
	data := append(append([]byte{}, bin...), ctor...)
	nonce := c.App.EvmKeeper.GetNonce(c.Ctx(), endpAddr)
	addr := crypto.CreateAddress(endpAddr, nonce)
	res, err := c.App.AggregateKeeper.CallEVMWithData(c.Ctx(), endpAddr, nil, data)
	must(err)
	if res.Failed() {
		panic(res.VmError)
	}
	return addr
}

func (w *World) grantMint(c *Chain, token, to common.Address) {
	data := mustPack(erc20ABI, "grantRole", common.BytesToHash(crypto.Keccak256([]byte("MINTER_ROLE"))), to)
	_, err := c.App.AggregateKeeper.CallEVMWithData(c.Ctx(), endpAddr, &token, data)
	must(err)
}

// Commit closes the current block of chain n; the new open block's header proves the committed state.
func (w *World) Commit(n string) int {
	c := w.Chains[n]
	w.Now = w.Now.Add(BlockSeconds * time.Second)
	c.EndBlock()
	c.App.Commit()
	DetRecord(fmt.Sprintf("commit|%x", c.App.LastCommitID().Hash), nil)
	c.MaybeRestart()
	c.Now = w.Now.Add(w.Skew[n])
	c.Header.Height = c.App.LastBlockHeight() + 1
	c.Header.Time = c.Now
	c.Header.AppHash = c.App.LastCommitID().Hash
	c.beginBlock()
	c.LastHdr = SignedHeader(c.ChainID, c.Header.Height, c.Header.Time, c.Header.AppHash, c.Vals, c.Vals, c.Signers)
	c.Hdrs[c.Header.Height] = c.LastHdr
	w.AbsH[n] = append(w.AbsH[n], c.Header.Height)
	w.AbsT[n] = append(w.AbsT[n], c.Header.Time.UnixNano())
	snap := SnapT{Commits: map[string]string{}, Acks: map[string]string{}}
	ctx := c.Ctx()
	for _, pc := range c.App.XIBCKeeper.PacketKeeper.GetAllPacketCommitments(ctx) {
		snap.Commits[fmt.Sprintf("%s/%s/%d", pc.SrcChain, pc.DstChain, pc.Sequence)] = hex.EncodeToString(pc.Data)
	}
	for _, pa := range c.App.XIBCKeeper.PacketKeeper.GetAllPacketAcks(ctx) {
		snap.Acks[fmt.Sprintf("%s/%s/%d", pa.SrcChain, pa.DstChain, pa.Sequence)] = hex.EncodeToString(pa.Data)
	}
	w.Snap[n] = append(w.Snap[n], snap)
	return len(w.AbsH[n]) - 1
}

// UpgradeRev: governance upgrades chain cn's client of dn to the next revision of dn's chain id, at block 5 of that revision.
func (w *World) UpgradeRev(cn, dn string) (string, string) {
	c, d := w.Chains[cn], w.Chains[dn]
	rev := clienttypes.ParseChainID(d.ChainID)
	next := d.ChainID[:strings.LastIndex(d.ChainID, "-")+1] + strconv.FormatUint(rev+1, 10)
	cs := xibctmtypes.NewClientState(next, xibctmtypes.DefaultTrustLevel, 14*24*time.Hour, 21*24*time.Hour, time.Hour,
		clienttypes.NewHeight(rev+1, 5), commitmenttypes.GetSDKSpecs(), commitmenttypes.MerklePrefix{KeyPrefix: []byte("xibc")}, worldDelay())
	p, err := clienttypes.NewUpgradeClientProposal("t", "d", d.ChainID, cs, d.LastHdr.ConsensusState())
	must(err)
	return c.ExecProposal(p)
}

// Regenesis restarts chain n's xibc module from its own exported genesis: export, JSON round trip, validation, the
// module store emptied, InitGenesis (what a chain restarted from an exported genesis file runs).
func (w *World) Regenesis(n string) (res string, msg string) {
	c := w.Chains[n]
	defer func() {
		if r := recover(); r != nil {
			res, msg = "panic", fmt.Sprint(r)
		}
	}()
	gs := xibc.ExportGenesis(c.Ctx(), *c.App.XIBCKeeper)
	bz, err := c.App.AppCodec().MarshalJSON(gs)
	if err != nil {
		return "err", "marshal: " + err.Error()
	}
	var back xibctypes.GenesisState
	if err := c.App.AppCodec().UnmarshalJSON(bz, &back); err != nil {
		return "err", "unmarshal: " + err.Error()
	}
	if err := back.Validate(); err != nil {
		return "err", "validate: " + err.Error()
	}
	xibc.ResetStates(c.Ctx(), c.App.GetKey(host.StoreKey), *c.App.XIBCKeeper)
	xibc.InitGenesis(c.Ctx(), *c.App.XIBCKeeper, false, &back)
	return "ok", ""
}

// Supply limits of the endpoint contract (governance proposals of the aggregate module).
const (
	LimitPeriod = 300 // seconds
	LimitJump   = 400 // Elapse: the chain's next block lies this much later (MaxH such blocks stay within the clients' clock drift of one hour)
)

func (w *World) limToken(n, x string) common.Address {
	if x == "own" {
		return w.Origin[n]
	}
	return w.Wrap[n][x]
}

// EnableLimit / DisableLimit: the aggregate module's proposals, through the routed governance handler.
func (w *World) EnableLimit(n, x string, cp, mx, mn int64) (string, string) {
	p := aggtypes.NewEnableTimeBasedSupplyLimitProposal("t", "d", w.limToken(n, x).String(), strconv.Itoa(LimitPeriod),
		strconv.FormatInt(cp, 10), strconv.FormatInt(mx, 10), strconv.FormatInt(mn, 10))
	return w.Chains[n].ExecProposal(p)
}

func (w *World) DisableLimit(n, x string) (string, string) {
	return w.Chains[n].ExecProposal(aggtypes.NewDisableTimeBasedSupplyLimitProposal("t", "d", w.limToken(n, x).String()))
}

// Elapse: the next block of chain n lies more than a limit period after the previous one.
func (w *World) Elapse(n string) int {
	if w.Skew == nil {
		w.Skew = map[string]time.Duration{}
	}
	w.Skew[n] += LimitJump * time.Second
	return w.Commit(n)
}

// projectLimit reads endpoint.limits(token): (enabled, timePeriod, timeBasedLimit, maxAmount, minAmount, previousTime, currentSupply)
func (w *World) projectLimit(c *Chain, token common.Address) M {
	off := M{"on": false, "cap": 0, "max": 0, "min": 0, "used": 0, "stale": false}
	o, err := c.View(endpointABI, endpAddr, "limits", token)
	if err != nil || len(o) != 7 {
		return M{"on": false, "cap": -1, "max": -1, "min": -1, "used": -1, "stale": false}
	}
	if on, _ := o[0].(bool); !on {
		return off
	}
	bi := func(i int) int64 { return o[i].(*big.Int).Int64() }
	return M{"on": true, "cap": bi(2), "max": bi(3), "min": bi(4), "used": bi(6), "stale": c.Ctx().BlockTime().Unix()-bi(5) >= bi(1)}
}

// RealHeight maps an abstract height of chain n to the light-client height; unknown heights map past the tip.
func (w *World) RealHeight(n string, k int) int64 {
	hs := w.AbsH[n]
	if k >= 0 && k < len(hs) {
		return hs[k]
	}
	if k < 0 {
		return 1
	}
	return hs[len(hs)-1] + int64(k-len(hs)+1)
}

func (w *World) absHeightOf(n string, real uint64) int {
	for i, h := range w.AbsH[n] {
		if uint64(h) == real {
			return i
		}
	}
	return -1
}

// UpdateClient submits the header of abstract height k of chain d to chain c, signed by account idx.
func (w *World) UpdateClient(cn, dn string, k int, signer int) TxResult {
	return w.UpdateClientNamed(cn, w.Chains[dn].ChainID, dn, k, signer)
}

// UpdateClientNamed submits the header of abstract height k of chain dn to the client called `name` on chain cn.
func (w *World) UpdateClientNamed(cn, name, dn string, k int, signer int) TxResult {
	c, d := w.Chains[cn], w.Chains[dn]
	hd, ok := d.Hdrs[w.RealHeight(dn, k)]
	if !ok {
		return TxResult{Code: 999, Log: "no such header"}
	}
	cs, found := c.App.XIBCKeeper.ClientKeeper.GetClientState(c.Ctx(), name)
	if !found {
		return TxResult{Code: 998, Log: "no client"}
	}
	// trusted height: the highest verified height below the header (back-filling allowed), else the latest
	trusted := cs.GetLatestHeight().(clienttypes.Height)
	hh := hd.GetHeight().(clienttypes.Height)
	if !trusted.LT(hh) {
		best := clienttypes.Height{}
		c.App.XIBCKeeper.ClientKeeper.IterateConsensusStates(c.Ctx(), func(chainName string, cs clienttypes.ConsensusStateWithHeight) bool {
			if chainName == name && cs.Height.LT(hh) && best.LT(cs.Height) {
				best = cs.Height
			}
			return false
		})
		if !best.IsZero() {
			trusted = best
		}
	}
	cp := *hd
	cp.TrustedHeight = trusted
	tv, err := d.Vals.ToProto()
	must(err)
	cp.TrustedValidators = tv
	if w.ForgeNext {
		// a header for the same height and time that the counterparty's validators never signed: another application
		// hash, signed by the validator of a private chain (submitted by the registered relayer)
		w.ForgeNext = false
		pv := seededPV("forger/" + dn)
		pub, _ := pv.GetPubKey()
		fvals := tmtypes.NewValidatorSet([]*tmtypes.Validator{tmtypes.NewValidator(pub, 1)})
		fh := SignedHeader(d.ChainID, hd.Header.Height, hd.Header.Time, []byte("an application hash of a private chain"), fvals, fvals, []tmtypes.PrivValidator{pv})
		cp = *fh
		cp.TrustedHeight = trusted
		w.forgeCount++
		if w.forgeCount%2 == 0 {
			cp.TrustedValidators = tv // ... claiming the real trusted validators
		} else {
			ftv, err := fvals.ToProto()
			must(err)
			cp.TrustedValidators = ftv // ... or its own
		}
	}
	msg, err := clienttypes.NewMsgUpdateClient(name, &cp, c.Accts[signer].Acc)
	must(err)
	return c.DeliverMsgs(c.Accts[signer], msg)
}

// Transfer kinds of a cross-chain call.
type SendSpec struct {
	Src, Dst string
	Kind     string // "fwd" (origin token of Src), "back" (wrapped token of Dst's origin), "none" (call only)
	Amt      int64
	Call     string // none | ok | revert | hookfail
	Fee      int64
	Callback bool
	Via      string // "" / "direct": the user calls the endpoint; "contract": through a forwarding contract
}

func (w *World) callData(src, dst string, call string) (string, []byte) {
	switch call {
	case "", "none":
		return "", nil
	case "ok":
		// observable, countable effect on the destination: allowance[execute][marker] += 1 on dst's origin token
		return strings.ToLower(w.Origin[dst].String()), mustPack(erc20ABI, "increaseAllowance", w.Marker, big.NewInt(1))
	case "revert":
		// the execute contract holds no tokens: the inner call reverts
		return strings.ToLower(w.Origin[dst].String()), mustPack(erc20ABI, "transfer", w.Marker, big.NewInt(1_000_000_000))
	case "nestfail":
		// the agent contract forwards the received tokens to a chain for which dst has no light client:
		// the nested send fails in the post-transaction hook
		return strings.ToLower(syscontracts.AgentContractAddress), mustPack(agentcontract.AgentContract.ABI, "send",
			w.Wrap[dst][src], strings.ToLower(w.Marker.String()), "unknown-chain", big.NewInt(1))
	case "nestok":
		// the agent contract forwards what it received back to the chain the packet came from (a send nested in the
		// receive): receiver there is that chain's user, refunds go to this chain's user
		return strings.ToLower(syscontracts.AgentContractAddress), mustPack(agentcontract.AgentContract.ABI, "send",
			userOf(w, dst).Eth, strings.ToLower(userOf(w, src).Eth.String()), w.ID[src], big.NewInt(0))
	case "hookfail":
		// EVM execution succeeds and emits the staking event; the native action (unknown validator) fails in the post-tx hook
		return strings.ToLower(syscontracts.StakingContractAddress), mustPack(stakingcontract.StakingContract.ABI, "delegate", "invalid-validator", big.NewInt(1))
	}
	panic("unknown call kind " + call)
}

// Send delivers endpoint.crossChainCall from the user of chain Src.
func (w *World) Send(s SendSpec) TxResult {
	c := w.Chains[s.Src]
	user := c.Accts[AcctUser]
	dstID := w.ID[s.Dst]
	if dstID == "" {
		dstID = s.Dst // unknown destination: use the literal
	}
	token := zeroAddr
	switch s.Kind {
	case "fwd":
		token = w.Origin[s.Src]
	case "back":
		token = w.Wrap[s.Src][s.Dst]
	}
	contractAddr, cd := w.callData(s.Src, s.Dst, s.Call)
	recv := ""
	if s.Kind != "none" {
		recv = strings.ToLower(userOf(w, s.Dst).Eth.String())
		if s.Call == "nestfail" || s.Call == "nestok" {
			recv = strings.ToLower(syscontracts.AgentContractAddress) // the agent receives the tokens it is asked to forward
		}
	}
	data := packettypes.CrossChainData{DstChain: dstID, TokenAddress: token, Receiver: recv, Amount: big.NewInt(s.Amt),
		ContractAddress: contractAddr, CallData: cd, CallbackAddress: zeroAddr, FeeOption: feeOptionOf(s)}
	if s.Callback {
		data.CallbackAddress = w.Origin[s.Src] // a contract that does not implement the acknowledgement callback
	}
	if cd == nil {
		data.CallData = []byte{}
	}
	feeTok := w.Origin[s.Src]
	fee := packettypes.Fee{TokenAddress: feeTok, Amount: big.NewInt(s.Fee)}
	payload := mustPack(endpointABI, "crossChainCall", data, fee)
	before := len(w.Sent)
	_ = before
	to := endpAddr
	if s.Via == "contract" {
		to = w.forwarder(c)
	}
	r := c.DeliverEth(user, addrp(to), nil, payload)
	w.harvest(s.Src, r)
	return r
}

// SendTwo: one transaction of the user's batching contract that calls endpoint.crossChainCall twice with the same
// call-only request, for destination d1 and for destination d2.  The batching contract is deployed with the world
// (forwarder), so that a failing SendTwo changes nothing.
func (w *World) SendTwo(src, d1, d2, call string) TxResult {
	c := w.Chains[src]
	user := c.Accts[AcctUser]
	payload := func(dst string) []byte {
		dstID := w.ID[dst]
		if dstID == "" {
			dstID = dst
		}
		contractAddr, cd := w.callData(src, dst, call)
		data := packettypes.CrossChainData{DstChain: dstID, TokenAddress: zeroAddr, Receiver: "", Amount: big.NewInt(0),
			ContractAddress: contractAddr, CallData: cd, CallbackAddress: zeroAddr, FeeOption: 0}
		return mustPack(endpointABI, "crossChainCall", data, packettypes.Fee{TokenAddress: w.Origin[src], Amount: big.NewInt(0)})
	}
	w.forwarder(c)
	to := w.Fwd["double/"+c.ChainID]
	p1, p2 := payload(d1), payload(d2)
	if len(p1) != len(p2) {
		panic("SendTwo: the two requests differ in length")
	}
	r := c.DeliverEth(user, addrp(to), nil, append(append([]byte{}, p1...), p2...))
	w.harvest(src, r)
	return r
}

// forwarder: a contract of the user that relays its call data to the endpoint contract (deployed with the world)
func (w *World) forwarder(c *Chain) common.Address {
	if a, ok := w.Fwd[c.ChainID]; ok {
		return a
	}
	user := c.Accts[AcctUser]
	nonce := c.App.EvmKeeper.GetNonce(c.Ctx(), user.Eth)
	addr := crypto.CreateAddress(user.Eth, nonce)
	if r := c.DeliverEth(user, nil, nil, proxyCode("forward", endpAddr)); !r.OK() {
		panic("deploy forwarder: " + r.Log + r.VMError)
	}
	w.Fwd[c.ChainID] = addr
	nonce = c.App.EvmKeeper.GetNonce(c.Ctx(), user.Eth)
	if r := c.DeliverEth(user, nil, nil, proxyCode("double", endpAddr)); !r.OK() {
		panic("deploy batching contract: " + r.Log + r.VMError)
	}
	w.Fwd["double/"+c.ChainID] = crypto.CreateAddress(user.Eth, nonce)
	nonce = c.App.EvmKeeper.GetNonce(c.Ctx(), user.Eth)
	if r := c.DeliverEth(user, nil, nil, proxyCode("lookalike", endpAddr)); !r.OK() {
		panic("deploy look-alike emitter: " + r.Log + r.VMError)
	}
	w.Fwd["lookalike/"+c.ChainID] = crypto.CreateAddress(user.Eth, nonce)
	return addr
}

// SendFake: the user calls a contract of its own that emits, from its own address, a log with the topic and the data
// of the packet contract's PacketSent event: a transfer of `amt` to the user of dst, numbered with the next send
// sequence.  No token moves; the chain must not treat it as a send.
func (w *World) SendFake(src, dst string, amt int64) TxResult {
	c := w.Chains[src]
	user := c.Accts[AcctUser]
	w.forwarder(c)
	seq := c.App.XIBCKeeper.PacketKeeper.GetNextSequenceSend(c.Ctx(), w.ID[src], w.ID[dst])
	td, err := (&packettypes.TransferData{Token: strings.ToLower(w.Origin[src].String()), OriToken: "", Amount: big.NewInt(amt).Bytes(),
		Receiver: strings.ToLower(userOf(w, dst).Eth.String())}).ABIPack()
	must(err)
	p := packettypes.Packet{SrcChain: w.ID[src], DstChain: w.ID[dst], Sequence: seq, Sender: strings.ToLower(user.Eth.String()),
		TransferData: td, CallData: []byte{}, CallbackAddress: zeroAddr.String(), FeeOption: 0}
	bz, err := p.ABIPack()
	must(err)
	evt := packetABI.Events["PacketSent"]
	data, err := evt.Inputs.NonIndexed().Pack(bz)
	must(err)
	to := w.Fwd["lookalike/"+c.ChainID]
	r := c.DeliverEth(user, addrp(to), nil, append(evt.ID.Bytes(), data...))
	w.harvest(src, r)
	return r
}

func userOf(w *World, n string) Acct {
	if c, ok := w.Chains[n]; ok {
		return c.Accts[AcctUser]
	}
	return NewAcct("nobody")
}

// harvest records packets and acks from the typed events of a delivered transaction.
func (w *World) harvest(chain string, r TxResult) {
	for _, ev := range r.Events {
		switch ev.Type {
		case "teleport.xibc.core.packet.v1.EventSendPacket", "xibc.core.packet.v1.EventSendPacket":
			w.harvestPacket(ev.Attributes, false)
		case "teleport.xibc.core.packet.v1.EventWriteAck", "xibc.core.packet.v1.EventWriteAck":
			w.harvestPacket(ev.Attributes, true)
		}
	}
}

func attrBytes(v []byte) []byte {
	// typed events carry JSON values; bytes are base64 strings in quotes
	s := strings.Trim(string(v), "\"")
	bz, err := base64Decode(s)
	if err != nil {
		return nil
	}
	return bz
}

func (w *World) key(src, dst string, seq uint64) string {
	a, b := w.Abs[src], w.Abs[dst]
	if a == "" {
		a = src
	}
	if b == "" {
		b = dst
	}
	return fmt.Sprintf("%s/%s/%d", a, b, seq)
}

func (w *World) harvestPacket(attrs []abciAttr, ack bool) {
	var src, dst, seqs string
	var pkt, ackbz []byte
	for _, a := range attrs {
		switch string(a.Key) {
		case "src_chain":
			src = attrString(a.Value)
		case "dst_chain":
			dst = attrString(a.Value)
		case "sequence":
			seqs = strings.Trim(string(a.Value), "\"")
		case "packet":
			pkt = attrBytes(a.Value)
		case "ack":
			ackbz = attrBytes(a.Value)
		}
	}
	seq, _ := strconv.ParseUint(seqs, 10, 64)
	k := w.key(src, dst, seq)
	if ack {
		if _, ok := w.AckBytes[k]; !ok {
			w.AckBytes[k] = ackbz
		}
		return
	}
	if _, ok := w.Sent[k]; !ok && pkt != nil {
		w.Sent[k] = pkt
		h := sha256.Sum256(pkt)
		w.SentHash[hex.EncodeToString(h[:])] = k
	}
}

// attrString: the value of a typed-event attribute holding a string (JSON: <, > and & arrive as \u003c ...)
func attrString(v []byte) string {
	var s string
	if json.Unmarshal(v, &s) == nil {
		return s
	}
	return strings.Trim(string(v), "\"")
}

// RecvSpec / AckSpec describe a relayer message derived from a sent packet and an alteration.
type MsgSpec struct {
	On       string // chain receiving the message
	Src, Dst string
	Seq      uint64
	Alt      string // none|reenc|amt|seq|sender|src|dst|ackcode|ackrelayer|ackother
	PH       int    // abstract proof height of the counterparty
	Proof    string // ok|otherkey|otherheight|truncated|empty
	Signer   int
}

func (w *World) alterPacket(bz []byte, alt string) ([]byte, packettypes.Packet) {
	var p packettypes.Packet
	must(p.ABIDecode(bz))
	switch alt {
	case "amt":
		var td packettypes.TransferData
		if len(p.TransferData) > 0 && td.ABIDecode(p.TransferData) == nil {
			n := new(big.Int).SetBytes(td.Amount)
			n.Add(n, big.NewInt(1))
			td.Amount = common.LeftPadBytes(n.Bytes(), 32)
			p.TransferData, _ = td.ABIPack()
		} else {
			p.CallbackAddress = "0x0000000000000000000000000000000000000001"
		}
	case "seq":
		p.Sequence++
	case "sender":
		p.Sender = strings.ToLower(w.Marker.String())
	case "feeopt":
		p.FeeOption ^= 7 // the fee option the sender chose, rewritten
	case "src":
		p.SrcChain = p.SrcChain + "x"
	case "dst":
		p.DstChain = p.DstChain + "x"
	case "reenc":
		out, err := p.ABIPack()
		must(err)
		// a different but decodable encoding of the same value: trailing zero word
		return append(out, make([]byte, 32)...), p
	case "none", "":
		return bz, p
	}
	out, err := p.ABIPack()
	must(err)
	return out, p
}

func (w *World) proofFor(counter string, key []byte, otherKey []byte, ph int, mode string) ([]byte, clienttypes.Height) {
	d := w.Chains[counter]
	real := w.RealHeight(counter, ph)
	height := clienttypes.NewHeight(d.Revision(), uint64(real))
	q := real
	if q > d.App.LastBlockHeight()+1 {
		q = d.App.LastBlockHeight() + 1
	}
	switch mode {
	case "rev0":
		// the genuine proof, stated for the same block number in revision 0 (a height the client never verified)
		height = clienttypes.NewHeight(0, uint64(real))
	case "empty":
		return nil, height
	case "otherkey":
		key = otherKey
	case "otherheight":
		if q > 2 {
			q--
		} else {
			q++
		}
	}
	bz, _, err := d.QueryProofAt(key, q)
	if err != nil {
		return []byte{1}, height
	}
	if mode == "truncated" && len(bz) > 40 {
		bz = bz[:len(bz)-33]
	}
	return bz, height
}

// Truth is the ground truth about a relayer message, computed from the real counterparty state.
type Truth struct {
	HeightVerified bool // the client on the receiving chain holds a consensus state for the proof height
	Committed      bool // the counterparty's committed state at that height holds exactly hash(decoded packet / ack bytes) at the decoded path
	ProofIntact    bool // the proof sent is the unmodified proof of that key at that height
	Held           bool // (acks) this chain still holds the commitment of exactly this packet
}

func (w *World) heightVerified(on, counter string, ph int) bool {
	c := w.Chains[on]
	real := w.RealHeight(counter, ph)
	_, ok := c.App.XIBCKeeper.ClientKeeper.GetClientConsensusState(c.Ctx(), w.ID[counter], clienttypes.NewHeight(w.Chains[counter].Revision(), uint64(real)))
	return ok
}

// Recv builds and delivers MsgRecvPacket; returns result, the triple named by the (altered) packet and the ground truth.
func (w *World) Recv(m MsgSpec) (TxResult, string, Truth, packettypes.Packet) {
	c := w.Chains[m.On]
	base, ok := w.Sent[fmt.Sprintf("%s/%s/%d", m.Src, m.Dst, m.Seq)]
	if !ok {
		return TxResult{Code: 997, Log: "no such sent packet"}, "", Truth{}, packettypes.Packet{}
	}
	bz, p := w.alterPacket(base, m.Alt)
	key := host.PacketCommitmentKey(p.SrcChain, p.DstChain, p.Sequence)
	other := host.PacketAcknowledgementKey(p.SrcChain, p.DstChain, p.Sequence)
	counter := m.Src
	proof, height := w.proofFor(counter, key, other, m.PH, m.Proof)
	msg := packettypes.NewMsgRecvPacket(bz, proof, height, c.Accts[m.Signer].Acc)
	var tr Truth
	tr.HeightVerified = w.heightVerified(m.On, counter, m.PH)
	tr.ProofIntact = m.Proof == "ok" || m.Proof == ""
	if m.PH >= 0 && m.PH < len(w.Snap[counter]) {
		repack, _ := p.ABIPack()
		h := sha256.Sum256(repack)
		tr.Committed = w.Snap[counter][m.PH].Commits[fmt.Sprintf("%s/%s/%d", p.SrcChain, p.DstChain, p.Sequence)] == hex.EncodeToString(h[:])
	}
	r := c.DeliverMsgs(c.Accts[m.Signer], msg)
	w.harvest(m.On, r)
	return r, w.key(p.SrcChain, p.DstChain, p.Sequence), tr, p
}

// Ack builds and delivers MsgAcknowledgement for the ack the destination wrote (possibly altered).
func (w *World) Ack(m MsgSpec) (TxResult, string, Truth, packettypes.Acknowledgement) {
	c := w.Chains[m.On]
	k := fmt.Sprintf("%s/%s/%d", m.Src, m.Dst, m.Seq)
	base, ok := w.Sent[k]
	if !ok {
		return TxResult{Code: 997, Log: "no such sent packet"}, "", Truth{}, packettypes.Acknowledgement{}
	}
	ackbz, have := w.AckBytes[k]
	if !have {
		// no ack written yet: fabricate a success ack from the registered relayer
		a := packettypes.NewAcknowledgement(0, []byte{}, "", w.Chains[m.Dst].Accts[AcctRelayer].Acc.String(), 0)
		ackbz, _ = a.ABIPack()
	}
	palt := m.Alt
	if strings.HasPrefix(palt, "ack") {
		palt = "none"
	}
	bz, p := w.alterPacket(base, palt)
	var ack packettypes.Acknowledgement
	must(ack.ABIDecode(ackbz))
	switch m.Alt {
	case "ackcode":
		if ack.Code == 0 {
			ack.Code = 1
		} else {
			ack.Code = 0
		}
		ackbz, _ = ack.ABIPack()
	case "ackrelayer":
		ack.Relayer = w.Chains[m.Dst].Accts[AcctOutside].Acc.String()
		ackbz, _ = ack.ABIPack()
	case "ackother":
		for ok2, v := range w.AckBytes {
			if ok2 != k {
				ackbz = v
				must(ack.ABIDecode(ackbz))
				break
			}
		}
	}
	key := host.PacketAcknowledgementKey(p.SrcChain, p.DstChain, p.Sequence)
	other := host.PacketCommitmentKey(p.SrcChain, p.DstChain, p.Sequence)
	counter := m.Dst
	proof, height := w.proofFor(counter, key, other, m.PH, m.Proof)
	msg := packettypes.NewMsgAcknowledgement(bz, ackbz, proof, height, c.Accts[m.Signer].Acc)
	var tr Truth
	tr.HeightVerified = w.heightVerified(m.On, counter, m.PH)
	tr.ProofIntact = m.Proof == "ok" || m.Proof == ""
	path := fmt.Sprintf("%s/%s/%d", p.SrcChain, p.DstChain, p.Sequence)
	if m.PH >= 0 && m.PH < len(w.Snap[counter]) {
		h := sha256.Sum256(ackbz)
		tr.Committed = w.Snap[counter][m.PH].Acks[path] == hex.EncodeToString(h[:])
	}
	repack, _ := p.ABIPack()
	hp := sha256.Sum256(repack)
	tr.Held = hex.EncodeToString(c.App.XIBCKeeper.PacketKeeper.GetPacketCommitment(c.Ctx(), p.SrcChain, p.DstChain, p.Sequence)) == hex.EncodeToString(hp[:])
	r := c.DeliverMsgs(c.Accts[m.Signer], msg)
	w.harvest(m.On, r)
	return r, w.key(p.SrcChain, p.DstChain, p.Sequence), tr, ack
}

// ---------------------------------------------------------------------------
// projection
// ---------------------------------------------------------------------------

func (w *World) viewBig(c *Chain, a abiT, addr common.Address, method string, args ...interface{}) int64 {
	out, err := c.View(a, addr, method, args...)
	if err != nil || len(out) == 0 {
		return -1
	}
	switch v := out[0].(type) {
	case *big.Int:
		return v.Int64()
	case uint64:
		return int64(v)
	case uint8:
		return int64(v)
	}
	return -2
}

// identOf classifies a stored hash: "P" = hash of the packet bytes emitted for exactly this triple, else "X".
func (w *World) commitIdent(k string, hexhash string) string {
	if w.SentHash[hexhash] == k {
		return "P"
	}
	return "X"
}

// ackCode returns the code of the ack bytes whose hash is stored for triple k (-1 if the bytes are unknown).
func (w *World) ackCode(k string, hexhash string) int64 {
	if bz, ok := w.AckBytes[k]; ok {
		h := sha256.Sum256(bz)
		if hex.EncodeToString(h[:]) == hexhash {
			var a packettypes.Acknowledgement
			if a.ABIDecode(bz) == nil {
				return int64(a.Code)
			}
		}
	}
	return -1
}

func (w *World) absName(id string) string {
	if a, ok := w.Abs[id]; ok {
		return a
	}
	return id
}

// Project returns the abstract state of chain n (all numbers small, sets as sorted arrays).
func (w *World) Project(n string) M {
	c := w.Chains[n]
	ctx := c.Ctx()
	pk := c.App.XIBCKeeper.PacketKeeper
	commits, receipts, acks := [][]interface{}{}, [][]interface{}{}, [][]interface{}{}
	for _, pc := range pk.GetAllPacketCommitments(ctx) {
		k := w.key(pc.SrcChain, pc.DstChain, pc.Sequence)
		commits = append(commits, []interface{}{w.absName(pc.SrcChain), w.absName(pc.DstChain), pc.Sequence, w.commitIdent(k, hex.EncodeToString(pc.Data))})
	}
	for _, pr := range pk.GetAllPacketReceipts(ctx) {
		receipts = append(receipts, []interface{}{w.absName(pr.SrcChain), w.absName(pr.DstChain), pr.Sequence})
	}
	for _, pa := range pk.GetAllPacketAcks(ctx) {
		k := w.key(pa.SrcChain, pa.DstChain, pa.Sequence)
		acks = append(acks, []interface{}{w.absName(pa.SrcChain), w.absName(pa.DstChain), pa.Sequence, w.ackCode(k, hex.EncodeToString(pa.Data))})
	}
	seq, cseq, out, bind, wbal, wsup, clients, wlock := M{}, M{}, M{}, M{}, M{}, M{}, M{}, M{}
	rot, badrel := M{}, [][]interface{}{}
	relAddr := c.Accts[AcctRelayer].Acc.String()
	if ir, ok := c.App.XIBCKeeper.ClientKeeper.GetRelayer(ctx, relAddr); ok {
		for i, ch := range ir.Chains {
			if a := w.Abs[ch]; a != "" {
				rot[a] = ir.Addresses[i] != relAddr
			}
		}
	}
	for _, d := range w.Names {
		if _, ok := rot[d]; !ok && d != n {
			rot[d] = false
		}
	}
	for _, pa := range pk.GetAllPacketAcks(ctx) {
		// acknowledgements written by this chain (it is the destination) whose relayer field is not the relayer's own address
		if pa.DstChain != c.ChainID {
			continue
		}
		if bz, ok := w.AckBytes[w.key(pa.SrcChain, pa.DstChain, pa.Sequence)]; ok {
			var a packettypes.Acknowledgement
			if a.ABIDecode(bz) == nil && a.Relayer != relAddr {
				badrel = append(badrel, []interface{}{w.absName(pa.SrcChain), w.absName(pa.DstChain), pa.Sequence})
			}
		}
	}
	status, fees := [][]interface{}{}, [][]interface{}{}
	user := c.Accts[AcctUser]
	for _, d := range w.Names {
		if d == n {
			continue
		}
		did := w.ID[d]
		ns := int64(pk.GetNextSequenceSend(ctx, c.ChainID, did))
		seq[d] = ns
		cseq[d] = w.viewBig(c, packetABI, packetAddr, "getNextSequenceSend", did)
		out[d] = w.viewBig(c, endpointABI, endpAddr, "outTokens", w.Origin[n], did)
		// wrapped tokens are bound with a scale: 10^scale wrapped units stand for one unit of the origin token
		bind[d] = unscale(w.bindAmount(c, w.Wrap[n][d], did))
		wbal[d] = unscale(w.viewBig(c, erc20ABI, w.Wrap[n][d], "balanceOf", user.Eth))
		wsup[d] = unscale(w.viewBig(c, erc20ABI, w.Wrap[n][d], "totalSupply"))
		wlock[d] = unscale(w.viewBig(c, erc20ABI, w.Wrap[n][d], "balanceOf", endpAddr) + w.viewBig(c, erc20ABI, w.Wrap[n][d], "balanceOf", packetAddr) +
			w.viewBig(c, erc20ABI, w.Wrap[n][d], "balanceOf", common.HexToAddress(syscontracts.AgentContractAddress)))
		for s := int64(1); s < ns; s++ {
			status = append(status, []interface{}{n, d, s, w.viewBig(c, packetABI, packetAddr, "getAckStatus", did, uint64(s))})
			fo, err := c.View(packetABI, packetAddr, "packetFees", []byte(did+"/"+strconv.FormatInt(s, 10)))
			fee := int64(-1)
			if err == nil && len(fo) == 2 {
				fee = fo[1].(*big.Int).Int64()
			}
			fees = append(fees, []interface{}{n, d, s, fee})
		}
		cl := M{"exists": false, "latest": -1, "cons": []int{}, "proc": [][]int{}}
		if cs, ok := c.App.XIBCKeeper.ClientKeeper.GetClientState(ctx, did); ok {
			cons := []int{}
			drev := w.Chains[d].Revision()
			c.App.XIBCKeeper.ClientKeeper.IterateConsensusStates(ctx, func(chainName string, s clienttypes.ConsensusStateWithHeight) bool {
				if chainName == did && s.Height.RevisionNumber == drev { // (heights of a later revision installed by an upgrade are not abstract heights)
					cons = append(cons, w.absHeightOf(d, s.Height.RevisionHeight))
				}
				return false
			})
			sort.Ints(cons)
			// proc: for every verified height the abstract height this chain was at when it stored it (from the recorded processing time)
			proc := [][]int{}
			cstore := c.App.XIBCKeeper.ClientKeeper.ClientStore(ctx, did)
			c.App.XIBCKeeper.ClientKeeper.IterateConsensusStates(ctx, func(chainName string, s clienttypes.ConsensusStateWithHeight) bool {
				if chainName == did && s.Height.RevisionNumber == drev {
					at := -1
					if pt, ok := xibctmtypes.GetProcessedTime(cstore, s.Height); ok {
						for i, t := range w.AbsT[n] {
							if uint64(t) == pt {
								at = i
							}
						}
					}
					proc = append(proc, []int{w.absHeightOf(d, s.Height.RevisionHeight), at})
				}
				return false
			})
			latest := w.absHeightOf(d, cs.GetLatestHeight().GetRevisionHeight())
			if cs.GetLatestHeight().GetRevisionNumber() != drev {
				latest = 999 // XIBC.Beyond: the client was moved to another revision
			}
			cl = M{"exists": true, "latest": latest, "cons": cons, "proc": proc}
		}
		clients[d] = cl
	}
	org := w.Origin[n]
	lim := M{"own": w.projectLimit(c, org)}
	for _, d := range w.Names {
		if d != n {
			lim[d] = w.projectLimit(c, w.Wrap[n][d])
		}
	}
	return M{"h": len(w.AbsH[n]) - 1, "seq": seq, "cseq": cseq, "commits": commits, "receipts": receipts, "acks": acks,
		"rot": rot, "badrel": badrel, "out": out, "bind": bind, "wbal": wbal, "wsup": wsup, "wlock": wlock, "status": status, "fees": fees, "clients": clients, "lim": lim,
		"ubal":   w.viewBig(c, erc20ABI, org, "balanceOf", user.Eth),
		"rbal":   w.viewBig(c, erc20ABI, org, "balanceOf", c.Accts[AcctRelayer].Eth),
		"held":   w.viewBig(c, erc20ABI, org, "balanceOf", packetAddr),
		"endp":   w.viewBig(c, erc20ABI, org, "balanceOf", endpAddr),
		"supply": w.viewBig(c, erc20ABI, org, "totalSupply"),
		"marks":  w.viewBig(c, erc20ABI, org, "allowance", execAddr, w.Marker)}
}

func (w *World) bindAmount(c *Chain, token common.Address, oriChain string) int64 {
	out, err := c.View(endpointABI, endpAddr, "bindings", strings.ToLower(token.String())+"/"+oriChain)
	if err != nil || len(out) < 3 {
		return -1
	}
	if v, ok := out[2].(*big.Int); ok {
		return v.Int64()
	}
	return -2
}

// ValueDigest covers the stores in which a packet's application effects live.
func (w *World) ValueDigest(n string) string {
	return w.Chains[n].Digest("evm", "bank", "staking", "gov")
}

// FullDigest covers everything a rejected message must leave unchanged.
func (w *World) FullDigest(n string) string {
	return w.Chains[n].Digest("xibc", "evm", "bank", "aggregate", "staking", "gov", "distribution", "ibc", "transfer")
}

// unscale maps an amount of wrapped units to origin units (-999: not a whole number of origin units)
func unscale(v int64) int64 {
	f := int64(1)
	for i := uint8(0); i < worldScale(); i++ {
		f *= 10
	}
	if v < 0 {
		return v
	}
	if v%f != 0 {
		return -999
	}
	return v / f
}

// worldScale: the scale with which wrapped tokens are bound to their origin (VERIF_XIBC_SCALE, default 0)
func worldScale() uint8 {
	n, _ := strconv.Atoi(os.Getenv("VERIF_XIBC_SCALE"))
	return uint8(n)
}

// feeOptionOf: the fee option of a send is an ordinary argument of endpoint.crossChainCall carried in the packet and
// echoed in the acknowledgement; sends that pay a fee choose option 7, the others the default 0
func feeOptionOf(s SendSpec) uint64 {
	if s.Fee > 0 {
		return 7
	}
	return 0
}
