// Package harness binds the TLA+ specifications under /verif/spec to the real
// teleport application built from /repo: it builds deterministic chains,
// delivers transactions through BaseApp.DeliverTx, projects the application
// state to the abstract state of each specification and records ndjson traces
// which TLC then validates.
package harness

import (
	"bytes"
	"crypto/sha256"
	"encoding/hex"
	"encoding/json"
	"fmt"
	"math/big"
	"os"
	"sort"
	"strconv"
	"time"

	abci "github.com/tendermint/tendermint/abci/types"
	"github.com/tendermint/tendermint/crypto/tmhash"
	"github.com/tendermint/tendermint/libs/log"
	tmproto "github.com/tendermint/tendermint/proto/tendermint/types"
	tmprotoversion "github.com/tendermint/tendermint/proto/tendermint/version"
	tmtypes "github.com/tendermint/tendermint/types"
	"github.com/tendermint/tendermint/version"
	dbm "github.com/tendermint/tm-db"

	"github.com/cosmos/cosmos-sdk/client"
	"github.com/cosmos/cosmos-sdk/client/tx"
	codectypes "github.com/cosmos/cosmos-sdk/codec/types"
	cryptocodec "github.com/cosmos/cosmos-sdk/crypto/codec"
	"github.com/cosmos/cosmos-sdk/crypto/keys/ed25519"
	"github.com/cosmos/cosmos-sdk/simapp"
	sdk "github.com/cosmos/cosmos-sdk/types"
	"github.com/cosmos/cosmos-sdk/types/tx/signing"
	authsigning "github.com/cosmos/cosmos-sdk/x/auth/signing"
	authtypes "github.com/cosmos/cosmos-sdk/x/auth/types"
	banktypes "github.com/cosmos/cosmos-sdk/x/bank/types"
	govtypes "github.com/cosmos/cosmos-sdk/x/gov/types"
	slashingtypes "github.com/cosmos/cosmos-sdk/x/slashing/types"
	stakingtypes "github.com/cosmos/cosmos-sdk/x/staking/types"

	"github.com/ethereum/go-ethereum/accounts/abi"
	"github.com/ethereum/go-ethereum/common"
	ethtypes "github.com/ethereum/go-ethereum/core/types"

	"github.com/tharsis/ethermint/crypto/ethsecp256k1"
	"github.com/tharsis/ethermint/encoding"
	"github.com/tharsis/ethermint/server/config"
	"github.com/tharsis/ethermint/tests"
	evmtypes "github.com/tharsis/ethermint/x/evm/types"
	feemarkettypes "github.com/tharsis/ethermint/x/feemarket/types"

	"github.com/teleport-network/teleport/app"
	teletypes "github.com/teleport-network/teleport/types"
	xibctmtypes "github.com/teleport-network/teleport/x/xibc/clients/light-clients/tendermint/types"
	clienttypes "github.com/teleport-network/teleport/x/xibc/core/client/types"
	commitmenttypes "github.com/teleport-network/teleport/x/xibc/core/commitment/types"
	"github.com/teleport-network/teleport/x/xibc/core/host"
	"github.com/teleport-network/teleport/x/xibc/testing/mock"
)

// StartTime is the block time of height 1 of every harness chain.
var StartTime = time.Date(2020, 1, 2, 0, 0, 0, 0, time.UTC)

const BlockSeconds = 5

// Acct is a deterministic test account.
type Acct struct {
	Name string
	Priv *ethsecp256k1.PrivKey
	Acc  sdk.AccAddress
	Eth  common.Address
}

// NewAcct derives an account from a label (sha256 of the label is the key).
func NewAcct(label string) Acct {
	h := sha256.Sum256([]byte("verif-acct/" + label))
	priv := &ethsecp256k1.PrivKey{Key: h[:]}
	addr := priv.PubKey().Address().Bytes()
	return Acct{Name: label, Priv: priv, Acc: sdk.AccAddress(addr), Eth: common.BytesToAddress(addr)}
}

// Chain is one teleport application instance plus what a relayer would know
// about it (validator keys, last signed header).
type Chain struct {
	App          *app.Teleport
	DB           dbm.DB // the application's database (a restarted node opens a new application on it)
	commits      int
	ChainID      string // tendermint chain id == xibc chain name
	TxConfig     client.TxConfig
	Header       tmproto.Header      // header of the block being built
	LastHdr      *xibctmtypes.Header // signed header of the last committed block
	Hdrs         map[int64]*xibctmtypes.Header
	Vals         *tmtypes.ValidatorSet
	Signers      []tmtypes.PrivValidator
	Accts        []Acct
	Now          time.Time
	Panicked     string // set when Begin/EndBlock panicked (recorded, never hidden)
	LastBegin    abci.ResponseBeginBlock
	NextEvidence []abci.Evidence // misbehaviour reported to the next BeginBlock
	Val2Cons     sdk.ConsAddress // consensus address of the second validator (ChainOpts.SecondVal)
	LastEnd      abci.ResponseEndBlock
}

func seededPV(label string) mock.PV {
	return mock.PV{PrivKey: ed25519.GenPrivKeyFromSecret([]byte("verif-val/" + label))}
}

// ChainOpts configures NewChain.
type ChainOpts struct {
	ChainID     string
	Accts       []Acct
	Balance     int64            // initial "stake" balance of every account
	Balances    map[string]int64 // per-account override of the initial "stake" balance
	Coins       map[string]sdk.Coins
	Mutate      func(a *app.Teleport, gs simapp.GenesisState)
	NoCommit    bool
	NoChainName bool   // do not set the xibc chain name (genesis import tests)
	Bond        string // the validator's self-bond in base units (default 1e16)
	SecondVal   bool   // a second bonded validator (same self-bond, delegated by the first account): redelegation target
}

// NewChain builds a chain with one validator and the given funded accounts.
// Everything (validator key, account keys, block times) is derived from the
// arguments, so two processes build byte-identical chains.
func NewChain(o ChainOpts) *Chain {
	sdk.DefaultPowerReduction = teletypes.PowerReduction
	pv := seededPV(o.ChainID)
	pub, err := pv.GetPubKey()
	must(err)
	val := tmtypes.NewValidator(pub, 1)
	valSet := tmtypes.NewValidatorSet([]*tmtypes.Validator{val})

	db := dbm.NewMemDB()
	enc := encoding.MakeConfig(app.ModuleBasics)
	a := app.NewTeleport(log.NewNopLogger(), db, nil, true, map[int64]bool{}, app.DefaultNodeHome, 5, enc, simapp.EmptyAppOptions{})
	gs := app.NewDefaultGenesisState()

	if o.Balance == 0 {
		o.Balance = 1_000_000_000
	}
	var genAccs []authtypes.GenesisAccount
	var balances []banktypes.Balance
	total := sdk.NewCoins()
	for i, ac := range o.Accts {
		genAccs = append(genAccs, authtypes.NewBaseAccount(ac.Acc, ac.Priv.PubKey(), uint64(i), 0))
		bal := o.Balance
		if b, ok := o.Balances[ac.Name]; ok {
			bal = b
		}
		coins := sdk.NewCoins(sdk.NewCoin(sdk.DefaultBondDenom, sdk.NewInt(bal)))
		if extra, ok := o.Coins[ac.Name]; ok {
			coins = coins.Add(extra...)
		}
		balances = append(balances, banktypes.Balance{Address: ac.Acc.String(), Coins: coins})
		total = total.Add(coins...)
	}
	gs[authtypes.ModuleName] = a.AppCodec().MustMarshalJSON(authtypes.NewGenesisState(authtypes.DefaultParams(), genAccs))

	bondAmt := sdk.NewInt(1e16)
	if o.Bond != "" {
		b, ok := sdk.NewIntFromString(o.Bond)
		if !ok {
			panic("bad bond " + o.Bond)
		}
		bondAmt = b
	}
	pk, err := cryptocodec.FromTmPubKeyInterface(val.PubKey)
	must(err)
	pkAny, err := codectypes.NewAnyWithValue(pk)
	must(err)
	validator := stakingtypes.Validator{
		OperatorAddress: sdk.ValAddress(val.Address).String(), ConsensusPubkey: pkAny,
		Status: stakingtypes.Bonded, Tokens: bondAmt, DelegatorShares: bondAmt.ToDec(),
		UnbondingTime:     time.Unix(0, 0).UTC(),
		Commission:        stakingtypes.NewCommission(sdk.ZeroDec(), sdk.ZeroDec(), sdk.ZeroDec()),
		MinSelfDelegation: sdk.ZeroInt(),
	}
	deleg := stakingtypes.NewDelegation(o.Accts[0].Acc, val.Address.Bytes(), bondAmt.ToDec())
	validators, delegations, bonded := []stakingtypes.Validator{validator}, []stakingtypes.Delegation{deleg}, bondAmt
	if o.SecondVal {
		pub2, err := seededPV(o.ChainID + "/val2").GetPubKey()
		must(err)
		pk2, err := cryptocodec.FromTmPubKeyInterface(pub2)
		must(err)
		any2, err := codectypes.NewAnyWithValue(pk2)
		must(err)
		v2 := validator
		v2.OperatorAddress, v2.ConsensusPubkey = sdk.ValAddress(pub2.Address()).String(), any2
		validators = append(validators, v2)
		delegations = append(delegations, stakingtypes.NewDelegation(o.Accts[0].Acc, sdk.ValAddress(pub2.Address()), bondAmt.ToDec()))
		bonded = bondAmt.MulRaw(2)
	}
	gs[stakingtypes.ModuleName] = a.AppCodec().MustMarshalJSON(stakingtypes.NewGenesisState(stakingtypes.DefaultParams(), validators, delegations))
	var val2Cons sdk.ConsAddress
	if o.SecondVal {
		// the second validator can be reported for a double sign: the slashing module needs its signing info (validators
		// bonded at genesis get none from the staking hooks)
		pub2, _ := seededPV(o.ChainID + "/val2").GetPubKey()
		val2Cons = sdk.ConsAddress(pub2.Address())
		sl := slashingtypes.DefaultGenesisState()
		sl.SigningInfos = []slashingtypes.SigningInfo{{Address: val2Cons.String(), ValidatorSigningInfo: slashingtypes.NewValidatorSigningInfo(val2Cons, 0, 0, time.Unix(0, 0).UTC(), false, 0)}}
		gs[slashingtypes.ModuleName] = a.AppCodec().MustMarshalJSON(sl)
	}

	evmGen := evmtypes.DefaultGenesisState()
	evmGen.Params.EvmDenom = sdk.DefaultBondDenom
	gs[evmtypes.ModuleName] = a.AppCodec().MustMarshalJSON(evmGen)

	total = total.Add(sdk.NewCoin(sdk.DefaultBondDenom, bonded))
	balances = append(balances, banktypes.Balance{
		Address: authtypes.NewModuleAddress(stakingtypes.BondedPoolName).String(),
		Coins:   sdk.Coins{sdk.NewCoin(sdk.DefaultBondDenom, bonded)},
	})
	gs[banktypes.ModuleName] = a.AppCodec().MustMarshalJSON(banktypes.NewGenesisState(banktypes.DefaultGenesisState().Params, balances, total, []banktypes.Metadata{}))

	fm := feemarkettypes.DefaultGenesisState()
	fm.Params.NoBaseFee = true // zero gas price everywhere: balances move only by what the tx does
	gs[feemarkettypes.ModuleName] = a.AppCodec().MustMarshalJSON(fm)

	// short voting period so that real governance can be driven in a few blocks
	govGen := govtypes.DefaultGenesisState()
	govGen.VotingParams.VotingPeriod = 10 * time.Second
	govGen.DepositParams.MinDeposit = sdk.NewCoins(sdk.NewCoin(sdk.DefaultBondDenom, sdk.NewInt(1)))
	gs[govtypes.ModuleName] = a.AppCodec().MustMarshalJSON(govGen)

	if o.Mutate != nil {
		o.Mutate(a, gs)
	}
	stateBytes, err := json.MarshalIndent(gs, "", " ")
	must(err)
	a.InitChain(abci.RequestInitChain{
		ChainId: o.ChainID, Validators: []abci.ValidatorUpdate{},
		ConsensusParams: app.DefaultConsensusParams, AppStateBytes: stateBytes,
		Time: StartTime,
	})
	c := &Chain{App: a, DB: db, ChainID: o.ChainID, TxConfig: enc.TxConfig, Vals: valSet,
		Signers: []tmtypes.PrivValidator{pv}, Accts: o.Accts, Now: StartTime,
		Hdrs: map[int64]*xibctmtypes.Header{}, Val2Cons: val2Cons}
	a.Commit()
	c.Header = tmproto.Header{ChainID: o.ChainID, Height: a.LastBlockHeight() + 1, Time: c.Now,
		AppHash: a.LastCommitID().Hash, ValidatorsHash: valSet.Hash(), NextValidatorsHash: valSet.Hash(),
		ProposerAddress: valSet.Proposer.Address}
	c.beginBlock()
	if !o.NoChainName {
		c.App.XIBCKeeper.ClientKeeper.SetChainName(c.Ctx(), o.ChainID)
	}
	if !o.NoCommit {
		c.Commit()
	}
	return c
}

func must(err error) {
	if err != nil {
		panic(err)
	}
}

// Ctx is the deliver-state context of the block being built.
func (c *Chain) Ctx() sdk.Context { return c.App.BaseApp.NewContext(false, c.Header) }

func (c *Chain) beginBlock() {
	defer func() {
		if r := recover(); r != nil {
			c.Panicked = fmt.Sprintf("BeginBlock: %v", r)
		}
	}()
	c.LastBegin = abci.ResponseBeginBlock{}
	ev := c.NextEvidence
	c.NextEvidence = nil
	c.LastBegin = c.App.BeginBlock(abci.RequestBeginBlock{Header: c.Header, ByzantineValidators: ev})
	DetRecord("begin", c.LastBegin.Events)
}

// EndBlock runs EndBlock and reports a panic instead of hiding it.
func (c *Chain) EndBlock() (panicked string) {
	defer func() {
		if r := recover(); r != nil {
			panicked = fmt.Sprintf("EndBlock: %v", r)
			c.Panicked = panicked
		}
	}()
	c.LastEnd = c.App.EndBlock(abci.RequestEndBlock{Height: c.Header.Height})
	DetRecord("end", c.LastEnd.Events)
	return ""
}

// Commit ends the current block, commits, signs its header and begins the next block.
func (c *Chain) Commit() { c.CommitAdvance(BlockSeconds * time.Second) }

func (c *Chain) CommitAdvance(d time.Duration) {
	c.EndBlock()
	c.App.Commit()
	DetRecord(fmt.Sprintf("commit|%x", c.App.LastCommitID().Hash), nil)
	c.MaybeRestart()
	c.LastHdr = c.signedHeader(c.ChainID, c.Header.Height, c.Header.Time, c.Header.AppHash, c.Vals, c.Vals, c.Signers)
	c.Hdrs[c.Header.Height] = c.LastHdr
	c.Now = c.Now.Add(d)
	c.Header = tmproto.Header{ChainID: c.ChainID, Height: c.App.LastBlockHeight() + 1, Time: c.Now,
		AppHash: c.App.LastCommitID().Hash, ValidatorsHash: c.Vals.Hash(), NextValidatorsHash: c.Vals.Hash(),
		ProposerAddress: c.Vals.Proposer.Address}
	c.beginBlock()
}

// MaybeRestart: with VERIF_RESTART_EVERY=k the node is restarted after every k-th commit - a new application object is
// opened on the same database (what a crash recovery, an upgrade of the binary or a state-synced node runs on); what
// the next blocks do must not depend on anything the old process only held in memory.
func (c *Chain) MaybeRestart() {
	k, _ := strconv.Atoi(os.Getenv("VERIF_RESTART_EVERY"))
	c.commits++
	if k <= 0 || c.DB == nil || c.commits%k != 0 {
		return
	}
	h, hash := c.App.LastBlockHeight(), c.App.LastCommitID().Hash
	enc := encoding.MakeConfig(app.ModuleBasics)
	a := app.NewTeleport(log.NewNopLogger(), c.DB, nil, true, map[int64]bool{}, app.DefaultNodeHome, 5, enc, simapp.EmptyAppOptions{})
	if a.LastBlockHeight() != h || !bytes.Equal(a.LastCommitID().Hash, hash) {
		panic(fmt.Sprintf("restart: reopened at height %d (%x), expected %d (%x)", a.LastBlockHeight(), a.LastCommitID().Hash, h, hash))
	}
	c.App = a
}

// SetTime moves the clock of the block being built (re-runs BeginBlock like the repository's coordinator).
func (c *Chain) SetTime(t time.Time) {
	c.Now = t
	c.Header.Time = t
	c.beginBlock()
}

func makeBlockID(hash []byte, n uint32, psh []byte) tmtypes.BlockID {
	return tmtypes.BlockID{Hash: hash, PartSetHeader: tmtypes.PartSetHeader{Total: n, Hash: psh}}
}

// signedHeader builds a tendermint light-client header signed by signers.
func (c *Chain) signedHeader(chainID string, height int64, ts time.Time, appHash []byte,
	vals, nextVals *tmtypes.ValidatorSet, signers []tmtypes.PrivValidator) *xibctmtypes.Header {
	return SignedHeader(chainID, height, ts, appHash, vals, nextVals, signers)
}

// SignedHeader builds a signed tendermint header; signers[i] == nil means validator i does not sign.
func SignedHeader(chainID string, height int64, ts time.Time, appHash []byte,
	vals, nextVals *tmtypes.ValidatorSet, signers []tmtypes.PrivValidator) *xibctmtypes.Header {
	h := tmtypes.Header{
		Version: tmprotoversion.Consensus{Block: version.BlockProtocol, App: 2},
		ChainID: chainID, Height: height, Time: ts,
		LastBlockID:        makeBlockID(make([]byte, tmhash.Size), 10_000, make([]byte, tmhash.Size)),
		LastCommitHash:     tmhash.Sum([]byte("last_commit")),
		DataHash:           tmhash.Sum([]byte("data_hash")),
		ValidatorsHash:     vals.Hash(),
		NextValidatorsHash: nextVals.Hash(),
		ConsensusHash:      tmhash.Sum([]byte("consensus_hash")),
		AppHash:            appHash,
		LastResultsHash:    tmhash.Sum([]byte("last_results_hash")),
		EvidenceHash:       tmhash.Sum([]byte("evidence_hash")),
		ProposerAddress:    vals.Proposer.Address,
	}
	blockID := makeBlockID(h.Hash(), 3, tmhash.Sum([]byte("part_set")))
	sigs := make([]tmtypes.CommitSig, len(vals.Validators))
	for i, v := range vals.Validators {
		var pv tmtypes.PrivValidator
		for _, s := range signers {
			if s == nil {
				continue
			}
			pk, _ := s.GetPubKey()
			if pk.Address().String() == v.Address.String() {
				pv = s
			}
		}
		if pv == nil {
			sigs[i] = tmtypes.NewCommitSigAbsent()
			continue
		}
		vote := &tmtypes.Vote{ValidatorAddress: v.Address, ValidatorIndex: int32(i), Height: height, Round: 1,
			Timestamp: ts, Type: tmproto.PrecommitType, BlockID: blockID}
		pvote := vote.ToProto()
		must(pv.SignVote(chainID, pvote))
		vote.Signature = pvote.Signature
		sigs[i] = vote.CommitSig()
	}
	commit := tmtypes.NewCommit(height, 1, blockID, sigs)
	pvs, err := vals.ToProto()
	must(err)
	return &xibctmtypes.Header{
		SignedHeader: &tmproto.SignedHeader{Header: h.ToProto(), Commit: commit.ToProto()},
		ValidatorSet: pvs,
	}
}

// TxResult is what a delivered transaction returned.
type TxResult struct {
	Code      uint32
	Codespace string
	Log       string
	Data      []byte
	GasUsed   int64
	Events    []abci.Event
	VMError   string // for ethereum txs
	Ret       []byte
	Panic     string
}

func (r TxResult) OK() bool { return r.Code == 0 && r.VMError == "" }

// DeliverMsgs signs msgs with signer and delivers the transaction through
// BaseApp.DeliverTx (decoder, ante handler, router, per-tx recovery).
func (c *Chain) DeliverMsgs(signer Acct, msgs ...sdk.Msg) TxResult {
	acc := c.App.AccountKeeper.GetAccount(c.Ctx(), signer.Acc)
	var accNum, seq uint64
	if acc != nil {
		accNum, seq = acc.GetAccountNumber(), acc.GetSequence()
	}
	b := c.TxConfig.NewTxBuilder()
	must(b.SetMsgs(msgs...))
	b.SetGasLimit(50_000_000)
	b.SetFeeAmount(sdk.NewCoins())
	mode := c.TxConfig.SignModeHandler().DefaultMode()
	sig := signing.SignatureV2{PubKey: signer.Priv.PubKey(), Data: &signing.SingleSignatureData{SignMode: mode}, Sequence: seq}
	must(b.SetSignatures(sig))
	sd := authsigning.SignerData{ChainID: c.ChainID, AccountNumber: accNum, Sequence: seq}
	s2, err := tx.SignWithPrivKey(mode, sd, b, signer.Priv, c.TxConfig, seq)
	must(err)
	must(b.SetSignatures(s2))
	bz, err := c.TxConfig.TxEncoder()(b.GetTx())
	must(err)
	return c.deliverRaw(bz)
}

func (c *Chain) deliverRaw(bz []byte) (out TxResult) {
	defer func() {
		if r := recover(); r != nil {
			out.Panic = fmt.Sprint(r)
			out.Code = 111222
		}
	}()
	res := c.App.BaseApp.DeliverTx(abci.RequestDeliverTx{Tx: bz})
	DetRecord(fmt.Sprintf("tx|%d|%s|%x|%d|%d", res.Code, res.Codespace, res.Data, res.GasWanted, res.GasUsed), res.Events)
	return TxResult{Code: res.Code, Codespace: res.Codespace, Log: res.Log, Data: res.Data, GasUsed: res.GasUsed, Events: res.Events}
}

// DeliverEth signs an ethereum transaction and delivers it through DeliverTx.
func (c *Chain) DeliverEth(signer Acct, to *common.Address, value *big.Int, data []byte) TxResult {
	if value == nil {
		value = big.NewInt(0)
	}
	chainID := c.App.EvmKeeper.ChainID()
	nonce := c.App.EvmKeeper.GetNonce(c.Ctx(), signer.Eth)
	etx := evmtypes.NewTx(chainID, nonce, to, value, config.DefaultGasCap, big.NewInt(0), big.NewInt(0), big.NewInt(0), data, &ethtypes.AccessList{})
	etx.From = signer.Eth.Hex()
	must(etx.Sign(ethtypes.LatestSignerForChainID(chainID), tests.NewSigner(signer.Priv)))
	b := c.TxConfig.NewTxBuilder()
	t, err := etx.BuildTx(b, sdk.DefaultBondDenom)
	must(err)
	bz, err := c.TxConfig.TxEncoder()(t)
	must(err)
	r := c.deliverRaw(bz)
	if r.Code == 0 && len(r.Data) > 0 {
		var txMsgData sdk.TxMsgData
		if err := txMsgData.Unmarshal(r.Data); err == nil && len(txMsgData.Data) > 0 {
			var resp evmtypes.MsgEthereumTxResponse
			if err := resp.Unmarshal(txMsgData.Data[0].Data); err == nil {
				r.VMError = resp.VmError
				r.Ret = resp.Ret
			}
		}
	}
	return r
}

// View performs a read-only EVM call in a discarded cache context.
func (c *Chain) View(a abi.ABI, contract common.Address, method string, args ...interface{}) ([]interface{}, error) {
	data, err := a.Pack(method, args...)
	if err != nil {
		return nil, err
	}
	ctx, _ := c.Ctx().CacheContext()
	from := common.HexToAddress("0x00000000000000000000000000000000000face5")
	msg := ethtypes.NewMessage(from, &contract, 0, big.NewInt(0), config.DefaultGasCap, big.NewInt(0), big.NewInt(0), big.NewInt(0), data, ethtypes.AccessList{}, false)
	res, err := c.App.EvmKeeper.ApplyMessage(ctx, msg, evmtypes.NewNoOpTracer(), false)
	if err != nil {
		return nil, err
	}
	if res.Failed() {
		return nil, fmt.Errorf("view %s reverted: %s", method, res.VmError)
	}
	return a.Unpack(method, res.Ret)
}

// ModuleCall executes a state-changing EVM call from a module address in the
// deliver context (used only for set-up the way the repository's tests do).
func (c *Chain) ModuleCall(from common.Address, to *common.Address, data []byte) (*evmtypes.MsgEthereumTxResponse, error) {
	return c.App.AggregateKeeper.CallEVMWithData(c.Ctx(), from, to, data)
}

// DigestStores is the default set of stores covered by the state digest.
var DigestStores = []string{"xibc", "evm", "bank", "aggregate", "staking", "gov", "distribution", "params", "ibc", "transfer"}

// Digest hashes all keys and values of the named stores in the deliver state.
func (c *Chain) Digest(stores ...string) string {
	if len(stores) == 0 {
		stores = DigestStores
	}
	h := sha256.New()
	ctx := c.Ctx()
	for _, name := range stores {
		key := c.App.GetKey(name)
		if key == nil {
			continue
		}
		it := ctx.KVStore(key).Iterator(nil, nil)
		for ; it.Valid(); it.Next() {
			k, v := it.Key(), it.Value()
			fmt.Fprintf(h, "%s|%d|%d|", name, len(k), len(v))
			h.Write(k)
			h.Write(v)
		}
		it.Close()
	}
	return hex.EncodeToString(h.Sum(nil))[:16]
}

// DumpStore returns all key/value pairs (hex) of a store, optionally under a prefix.
func (c *Chain) DumpStore(name string, prefix []byte) map[string]string {
	out := map[string]string{}
	key := c.App.GetKey(name)
	if key == nil {
		return out
	}
	it := sdk.KVStorePrefixIterator(c.Ctx().KVStore(key), prefix)
	defer it.Close()
	for ; it.Valid(); it.Next() {
		out[hex.EncodeToString(it.Key())] = hex.EncodeToString(it.Value())
	}
	return out
}

// QueryProofAt returns the ICS-23 proof of key in the xibc store for a
// tendermint light-client height h (IAVL version h-1), as relayers do.
func (c *Chain) QueryProofAt(key []byte, h int64) ([]byte, clienttypes.Height, error) {
	res := c.App.Query(abci.RequestQuery{Path: fmt.Sprintf("store/%s/key", host.StoreKey), Height: h - 1, Data: key, Prove: true})
	if res.ProofOps == nil {
		return nil, clienttypes.Height{}, fmt.Errorf("no proof: %s", res.Log)
	}
	mp, err := commitmenttypes.ConvertProofs(res.ProofOps)
	if err != nil {
		return nil, clienttypes.Height{}, err
	}
	bz, err := c.App.AppCodec().Marshal(&mp)
	if err != nil {
		return nil, clienttypes.Height{}, err
	}
	return bz, clienttypes.NewHeight(clienttypes.ParseChainID(c.ChainID), uint64(res.Height)+1), nil
}

// Revision is the revision number other chains use for heights of this chain.
func (c *Chain) Revision() uint64 { return clienttypes.ParseChainID(c.ChainID) }

// Bal returns the bank balance of addr in denom.
func (c *Chain) Bal(addr sdk.AccAddress, denom string) sdk.Int {
	return c.App.BankKeeper.GetBalance(c.Ctx(), addr, denom).Amount
}

// SortedKeys returns the sorted keys of a string map.
func SortedKeys(m map[string]string) []string {
	ks := make([]string, 0, len(m))
	for k := range m {
		ks = append(ks, k)
	}
	sort.Strings(ks)
	return ks
}
