package harness

import (
	"encoding/base64"

	"github.com/ethereum/go-ethereum/accounts/abi"
	abci "github.com/tendermint/tendermint/abci/types"
)

type abciAttr = abci.EventAttribute
type abiT = abi.ABI

func base64Decode(s string) ([]byte, error) { return base64.StdEncoding.DecodeString(s) }
