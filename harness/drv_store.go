package harness

import (
	"sort"
	"testing"

	sdk "github.com/cosmos/cosmos-sdk/types"
	"github.com/cosmos/cosmos-sdk/types/query"

	clienttypes "github.com/teleport-network/teleport/x/xibc/core/client/types"
)

func init() { Drivers["store"] = driveStore }

func toks(v interface{}) []interface{} {
	if v == nil {
		return nil
	}
	return v.([]interface{})
}

// driveStore replays Store.tla behaviours (client create / update / toggle with heights and revisions of all
// byte patterns) on the real application and performs a genesis round trip after every step.
func driveStore(t *testing.T, in, out string, seed int64) {
	behaviours := ReadBehaviours(in)
	tw := NewTraceWriter(out)
	defer tw.Close()
	for bi, b := range behaviours {
		l := NewLC()
		names := map[string]bool{}
		for _, st := range b {
			names[RealName(str(st["n"]))] = true
		}
		var ns []string
		for n := range names {
			ns = append(ns, n)
		}
		sort.Strings(ns) // the registration is part of the replayed history: same order in every process
		l.EnsureRelayer(ns)
		tw.Emit(storeLine(l, M{"ev": "Reset", "b": bi, "i": 0, "res": "ok", "args": M{}, "sig": "Reset"}))
		for si, st := range b {
			act := str(st["act"])
			name := RealName(str(st["n"]))
			rev, h := concNum(toks(st["r"])), concNum(toks(st["h"]))
			line := M{"ev": act, "b": bi, "i": si + 1, "args": st}
			pre := l.C.Digest("xibc")
			switch act {
			case "Create", "Toggle", "Upgrade":
				res, msg := l.C.ExecProposal(l.Proposal(act, name, str(st["ty"]), rev, h))
				line["res"], line["msg"] = res, clip(msg)
				line["sig"] = act + "/" + str(st["ty"])
			case "Update":
				r := l.UpdateTM(name, rev, h, lcRelayer)
				line["res"], line["msg"] = resOf(r), clip(r.Log)
				line["sig"] = "Update"
			default:
				t.Fatalf("unknown action %q", act)
			}
			line["dg"] = M{"pre": pre, "post": l.C.Digest("xibc")}
			tw.Emit(storeLine(l, line))
		}
	}
}

func storeLine(l *LC, line M) M {
	line["store"] = l.AbstractStore(l.C)
	rt := l.RoundTrip(l.C)
	if rt.Missing == nil {
		rt.Missing = []interface{}{}
	}
	if rt.Extra == nil {
		rt.Extra = []interface{}{}
	}
	line["rt"] = M{"validate": clip(rt.Validate), "init": clip(rt.Init), "missing": rt.Missing, "extra": rt.Extra, "equal2": rt.Equal2}
	line["rb"] = readBack(l)
	return line
}

// readBack compares, per client, the consensus heights present in the raw store with the heights each reader of the
// code returns: the keeper's iterator, and the gRPC ConsensusStates query (both parse the height out of the key).
func readBack(l *LC) M {
	c := l.C
	ctx := c.Ctx()
	k := c.App.XIBCKeeper.ClientKeeper
	byIter := map[string]map[string]bool{}
	k.IterateConsensusStates(ctx, func(name string, cs clienttypes.ConsensusStateWithHeight) bool {
		if byIter[name] == nil {
			byIter[name] = map[string]bool{}
		}
		byIter[name][cs.Height.String()] = true
		return false
	})
	var missIter, missQuery []interface{}
	n := 0
	for _, ic := range k.GetAllGenesisClients(ctx) {
		name := ic.ChainName
		byQuery := map[string]bool{}
		res, err := k.ConsensusStates(sdk.WrapSDKContext(ctx), &clienttypes.QueryConsensusStatesRequest{ChainName: name, Pagination: &query.PageRequest{Limit: 10000}})
		if err == nil {
			for _, cs := range res.ConsensusStates {
				byQuery[cs.Height.String()] = true
			}
		}
		for _, h := range l.ConsHeights(name) {
			n++
			if !byIter[name][h.String()] {
				missIter = append(missIter, AbsName(name)+"@"+h.String())
			}
			if !byQuery[h.String()] {
				missQuery = append(missQuery, AbsName(name)+"@"+h.String())
			}
		}
	}
	if missIter == nil {
		missIter = []interface{}{}
	}
	if missQuery == nil {
		missQuery = []interface{}{}
	}
	return M{"heights": n, "missing_iter": missIter, "missing_query": missQuery}
}
