package harness

import (
	"sort"
	"testing"
)

func init() { Drivers["store"] = driveStore }

func toks(v interface{}) []interface{} {
	if v == nil {
		return nil
	}
	return v.([]interface{})
}

// driveStore replays Store.tla behaviours (client create / update / toggle with heights and revisions of all
// byte patterns) on the real application and performs a genesis round trip after every step.
func driveStore(t *testing.T, in, out string, seed int64) {
	behaviours := ReadBehaviours(in)
	tw := NewTraceWriter(out)
	defer tw.Close()
	for bi, b := range behaviours {
		l := NewLC()
		names := map[string]bool{}
		for _, st := range b {
			names[RealName(str(st["n"]))] = true
		}
		var ns []string
		for n := range names {
			ns = append(ns, n)
		}
		sort.Strings(ns) // the registration is part of the replayed history: same order in every process
		l.EnsureRelayer(ns)
		tw.Emit(storeLine(l, M{"ev": "Reset", "b": bi, "i": 0, "res": "ok", "args": M{}, "sig": "Reset"}))
		for si, st := range b {
			act := str(st["act"])
			name := RealName(str(st["n"]))
			rev, h := concNum(toks(st["r"])), concNum(toks(st["h"]))
			line := M{"ev": act, "b": bi, "i": si + 1, "args": st}
			pre := l.C.Digest("xibc")
			switch act {
			case "Create", "Toggle", "Upgrade":
				res, msg := l.C.ExecProposal(l.Proposal(act, name, str(st["ty"]), rev, h))
				line["res"], line["msg"] = res, clip(msg)
				line["sig"] = act + "/" + str(st["ty"])
			case "Update":
				r := l.UpdateTM(name, rev, h, lcRelayer)
				line["res"], line["msg"] = resOf(r), clip(r.Log)
				line["sig"] = "Update"
			default:
				t.Fatalf("unknown action %q", act)
			}
			line["dg"] = M{"pre": pre, "post": l.C.Digest("xibc")}
			tw.Emit(storeLine(l, line))
		}
	}
}

func storeLine(l *LC, line M) M {
	line["store"] = l.AbstractStore(l.C)
	rt := l.RoundTrip(l.C)
	if rt.Missing == nil {
		rt.Missing = []interface{}{}
	}
	if rt.Extra == nil {
		rt.Extra = []interface{}{}
	}
	line["rt"] = M{"validate": clip(rt.Validate), "init": clip(rt.Init), "missing": rt.Missing, "extra": rt.Extra, "equal2": rt.Equal2}
	return line
}
