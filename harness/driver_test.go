package harness

import (
	"os"
	"strconv"
	"testing"
)

// TestDriver is the single entry point of the harness binary:
//
//	VERIF_DRIVER=<name> VERIF_IN=<behaviours.ndjson> VERIF_OUT=<trace.ndjson> harness.test -test.run TestDriver
func TestDriver(t *testing.T) {
	name := os.Getenv("VERIF_DRIVER")
	if name == "" {
		t.Skip("VERIF_DRIVER not set")
	}
	d, ok := Drivers[name]
	if !ok {
		t.Fatalf("unknown driver %q", name)
	}
	seed, _ := strconv.ParseInt(os.Getenv("VERIF_SEED"), 10, 64)
	if seed == 0 {
		seed = 1
	}
	d(t, os.Getenv("VERIF_IN"), os.Getenv("VERIF_OUT"), seed)
	CloseRoundTrip()
}
