package harness

import (
	"encoding/binary"
	"encoding/hex"
	"fmt"
	"os"
	"sort"
	"strings"
	"testing"
	"time"

	tmtypes "github.com/tendermint/tendermint/types"

	xibctmtypes "github.com/teleport-network/teleport/x/xibc/clients/light-clients/tendermint/types"
	clienttypes "github.com/teleport-network/teleport/x/xibc/core/client/types"
	commitmenttypes "github.com/teleport-network/teleport/x/xibc/core/commitment/types"
	"github.com/teleport-network/teleport/x/xibc/core/host"
)

// tmTrustLevel: the trust level the replayed clients are configured with (VERIF_TM_TL = "2/3" for the second leg)
func tmTrustLevel() xibctmtypes.Fraction {
	if os.Getenv("VERIF_TM_TL") == "2/3" {
		return xibctmtypes.Fraction{Numerator: 2, Denominator: 3}
	}
	return xibctmtypes.Fraction{Numerator: 1, Denominator: 3}
}

func init() { Drivers["tmclient"] = driveTMClient }

const tmUnit = time.Hour // one model time unit

type tmWorld struct {
	C      *Chain
	Base   time.Time
	PVs    map[string]tmtypes.PrivValidator
	VSName map[string]M // hex(valset hash) -> model value {"a":1,...}
	Name   string
}

func (w *tmWorld) valset(m M) *tmtypes.ValidatorSet {
	var vals []*tmtypes.Validator
	names := make([]string, 0, len(m))
	for n := range m {
		names = append(names, n)
	}
	sort.Strings(names)
	for _, n := range names {
		pk, _ := w.PVs[n].GetPubKey()
		vals = append(vals, tmtypes.NewValidator(pk, num(m[n])))
	}
	vs := tmtypes.NewValidatorSet(vals)
	w.VSName[hex.EncodeToString(vs.Hash())] = m
	return vs
}

func (w *tmWorld) rootBytes(r string) []byte {
	b := make([]byte, 32)
	copy(b, []byte("root/"+r))
	return b
}

func (w *tmWorld) header(hd M) *xibctmtypes.Header {
	vals, next, tvals := w.valset(hd["vals"].(M)), w.valset(hd["next"].(M)), w.valset(hd["tvals"].(M))
	var signers []tmtypes.PrivValidator
	for _, s := range hd["signers"].([]interface{}) {
		signers = append(signers, w.PVs[str(s)])
	}
	rev := uint64(1 + num(hd["rev"]))
	chainID := fmt.Sprintf("verif-%d", rev)
	h := SignedHeader(chainID, num(hd["height"]), w.Base.Add(time.Duration(num(hd["time"]))*tmUnit), w.rootBytes(str(hd["root"])), vals, next, signers)
	th := uint64(num(hd["th"])) // height key: revision * 100 + block number (model revision 0 = chain id revision 1)
	h.TrustedHeight = clienttypes.NewHeight(1+th/100, th%100)
	tv, err := tvals.ToProto()
	must(err)
	h.TrustedValidators = tv
	return h
}

func (w *tmWorld) project() M {
	c := w.C
	cons, meta := [][]interface{}{}, [][]interface{}{}
	pre := []byte("clients/" + w.Name + "/" + host.KeyConsensusStatePrefix + "/")
	dump := c.DumpStore("xibc", pre)
	for _, k := range SortedKeys(dump) {
		kb, _ := hex.DecodeString(k)
		rest := kb[len(pre):]
		vb, _ := hex.DecodeString(dump[k])
		if len(rest) == 16 {
			h := (int64(binary.BigEndian.Uint64(rest[:8]))-1)*100 + int64(binary.BigEndian.Uint64(rest[8:]))
			csI, err := clienttypes.UnmarshalConsensusState(c.App.AppCodec(), vb)
			if err != nil {
				continue
			}
			cs := csI.(*xibctmtypes.ConsensusState)
			root := "?"
			if strings.HasPrefix(string(cs.Root), "root/") {
				root = strings.TrimRight(strings.TrimPrefix(string(cs.Root), "root/"), "\x00")
			}
			next, ok := w.VSName[hex.EncodeToString(cs.NextValidatorsHash)]
			if !ok {
				next = M{"unknown": 1}
			}
			cons = append(cons, []interface{}{h, M{"time": int64(cs.Timestamp.Sub(w.Base) / tmUnit), "root": root, "next": next}})
		} else if len(rest) == 16+len("/processedTime") {
			h := (int64(binary.BigEndian.Uint64(rest[:8]))-1)*100 + int64(binary.BigEndian.Uint64(rest[8:16]))
			meta = append(meta, []interface{}{h, (int64(binary.BigEndian.Uint64(vb)) - w.Base.UnixNano()) / int64(tmUnit)})
		}
	}
	latest := int64(0)
	if cs, ok := c.App.XIBCKeeper.ClientKeeper.GetClientState(c.Ctx(), w.Name); ok {
		latest = (int64(cs.GetLatestHeight().GetRevisionNumber())-1)*100 + int64(cs.GetLatestHeight().GetRevisionHeight())
	}
	return M{"cons": cons, "meta": meta, "latest": latest, "now": int64(c.Header.Time.Sub(w.Base) / tmUnit)}
}

// verifyGate probes, for every height, whether a proof would get past the client's height / delay gate
// (the proof itself is empty, so a probe that passes the gate fails later with an invalid-proof error).
func (w *tmWorld) verifyGate() [][]interface{} {
	c := w.C
	out := [][]interface{}{}
	cs, ok := c.App.XIBCKeeper.ClientKeeper.GetClientState(c.Ctx(), w.Name)
	if !ok {
		return out
	}
	empty, _ := c.App.AppCodec().Marshal(&commitmenttypes.MerkleProof{})
	if empty == nil {
		empty = []byte{}
	}
	for _, key := range []uint64{1, 2, 3, 4, 5, 6, 7, 101, 102, 103, 104, 105, 106, 107} {
		h := key
		ctx, _ := c.Ctx().CacheContext()
		store := c.App.XIBCKeeper.ClientKeeper.ClientStore(ctx, w.Name)
		err := cs.VerifyPacketCommitment(ctx, store, c.App.AppCodec(), clienttypes.NewHeight(1+key/100, key%100), empty, "verif-1", c.ChainID, 1, []byte("x"))
		res := "pass"
		if err != nil {
			m := err.Error()
			if strings.Contains(m, "processed time") || strings.Contains(m, "cannot verify packet until") || strings.Contains(m, "client state height <") ||
				strings.Contains(m, "consensus state does not exist") {
				res = "gate"
			}
		}
		out = append(out, []interface{}{h, res})
	}
	return out
}

func driveTMClient(t *testing.T, in, out string, seed int64) {
	behaviours := ReadBehaviours(in)
	tw := NewTraceWriter(out)
	defer tw.Close()
	for bi, b := range behaviours {
		l := NewLC()
		c := l.C
		w := &tmWorld{C: c, Base: c.Header.Time, PVs: map[string]tmtypes.PrivValidator{}, VSName: map[string]M{}, Name: "cli-tm"}
		for _, n := range []string{"a", "b", "c"} {
			w.PVs[n] = seededPV("tmval/" + n)
		}
		l.EnsureRelayer([]string{w.Name})
		initVals := b[0]["vals"].(M)
		vs := w.valset(initVals)
		hd0 := SignedHeader("verif-1", 1, w.Base, w.rootBytes("r1"), vs, vs, []tmtypes.PrivValidator{w.PVs["a"], w.PVs["b"], w.PVs["c"]})
		cs := xibctmtypes.NewClientState("verif-1", tmTrustLevel(), 3*tmUnit, 4*tmUnit, 1*tmUnit,
			clienttypes.NewHeight(1, 1), commitmenttypes.GetSDKSpecs(), commitmenttypes.MerklePrefix{KeyPrefix: []byte("xibc")}, uint64(tmUnit))
		prop, err := clienttypes.NewCreateClientProposal("t", "d", w.Name, cs, hd0.ConsensusState())
		must(err)
		if res, msg := c.ExecProposal(prop); res != "ok" {
			t.Fatalf("create client: %s", msg)
		}
		z := M{"pre": "", "post": ""}
		tw.Emit(M{"ev": "Reset", "b": bi, "i": 0, "res": "ok", "args": M{}, "sig": "Reset", "st": w.project(), "verify": w.verifyGate(), "dg": z})
		for si, st := range b[1:] {
			act := str(st["act"])
			line := M{"ev": act, "b": bi, "i": si + 1, "args": st, "sig": act}
			pre := c.Digest("xibc")
			switch act {
			case "Update":
				hd := w.header(st["hd"].(M))
				msg, err := clienttypes.NewMsgUpdateClient(w.Name, hd, c.Accts[lcRelayer].Acc)
				must(err)
				r := c.DeliverMsgs(c.Accts[lcRelayer], msg)
				line["res"], line["msg"] = resOf(r), clip(r.Log)
			case "Tick":
				c.CommitAdvance(time.Duration(num(st["d"])) * tmUnit)
				line["res"] = "ok"
			case "Upgrade":
				// governance moves the client to the counterparty's next revision (chain id verif-2) at block h, dated now
				nx := w.valset(st["next"].(M))
				chainU := fmt.Sprintf("verif-%d", 1+num(st["rev"]))
				// the consensus state a proposal carries is older than the block that executes it (TMClient.UpgradeAge)
				dated := c.Header.Time
				if num(st["h"])%2 == 0 && !dated.Add(-2*tmUnit).Before(w.Base) {
					dated = dated.Add(-2 * tmUnit)
				}
				hdU := SignedHeader(chainU, num(st["h"]), dated, w.rootBytes(str(st["root"])), nx, nx, nil)
				csU := xibctmtypes.NewClientState(chainU, tmTrustLevel(), 3*tmUnit, 4*tmUnit, 1*tmUnit,
					clienttypes.NewHeight(uint64(1+num(st["rev"])), uint64(num(st["h"]))), commitmenttypes.GetSDKSpecs(), commitmenttypes.MerklePrefix{KeyPrefix: []byte("xibc")}, uint64(tmUnit))
				prop, err := clienttypes.NewUpgradeClientProposal("t", "d", w.Name, csU, hdU.ConsensusState())
				must(err)
				res, msg := c.ExecProposal(prop)
				line["res"], line["msg"] = res, clip(msg)
			default:
				t.Fatalf("unknown action %q", act)
			}
			line["dg"] = M{"pre": pre, "post": c.Digest("xibc")}
			line["st"] = w.project()
			line["verify"] = w.verifyGate()
			tw.Emit(line)
		}
	}
}
