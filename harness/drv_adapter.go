package harness

import (
	"encoding/binary"
	"fmt"
	stakingtypes "github.com/cosmos/cosmos-sdk/x/staking/types"
	"github.com/ethereum/go-ethereum/core/vm"
	abci "github.com/tendermint/tendermint/abci/types"
	"math/big"
	"testing"
	"time"

	sdk "github.com/cosmos/cosmos-sdk/types"
	authtypes "github.com/cosmos/cosmos-sdk/x/auth/types"
	banktypes "github.com/cosmos/cosmos-sdk/x/bank/types"
	distrtypes "github.com/cosmos/cosmos-sdk/x/distribution/types"
	govtypes "github.com/cosmos/cosmos-sdk/x/gov/types"

	"github.com/ethereum/go-ethereum/common"
	"github.com/ethereum/go-ethereum/crypto"

	"github.com/teleport-network/teleport/syscontracts"
	govcontract "github.com/teleport-network/teleport/syscontracts/gov"
	stakingcontract "github.com/teleport-network/teleport/syscontracts/staking"
)

func init() { Drivers["adapter"] = driveAdapter }

const adStart = 5

// One model unit is 2^64+1 base units, so that amounts do not fit 64 bits and an amount narrowed to its low 64 bits
// (n instead of n*(2^64+1)) is told apart from the right one.
var adUnit = new(big.Int).Add(new(big.Int).Lsh(big.NewInt(1), 64), big.NewInt(1))

func adCoins(n int64) sdk.Coins {
	return sdk.NewCoins(sdk.NewCoin(sdk.DefaultBondDenom, sdk.NewIntFromBigInt(new(big.Int).Mul(big.NewInt(n), adUnit))))
}

// adUnits converts base units to model units; -999 when the amount is not a whole number of units
func adUnits(x sdk.Int) int64 {
	q, r := new(big.Int).QuoRem(x.BigInt(), adUnit, new(big.Int))
	if r.Sign() != 0 || !q.IsInt64() {
		return -999
	}
	return q.Int64()
}

// proxyCode returns the init code of a tiny hand-assembled helper contract (there is no Solidity compiler here):
//
//	forward      - CALLs target with its own call data, reverts if the call fails
//	fwdrevert    - CALLs target with its own call data and then always reverts
//	delegatecall - DELEGATECALLs target with its own call data
//	lookalike    - emits LOG1(topic = calldata[0:32], data = calldata[32:]) from its own address
func proxyCode(mode string, target common.Address) []byte {
	copyIn := []byte{0x36, 0x60, 0x00, 0x60, 0x00, 0x37} // calldatacopy(0, 0, calldatasize)
	var rt []byte
	switch mode {
	case "forward", "fwdrevert":
		rt = append(rt, copyIn...)
		rt = append(rt, 0x60, 0x00, 0x60, 0x00, 0x36, 0x60, 0x00, 0x60, 0x00, 0x73)
		rt = append(rt, target.Bytes()...)
		rt = append(rt, 0x5a, 0xf1)
		if mode == "forward" {
			dest := byte(len(rt) + 8)
			rt = append(rt, 0x60, dest, 0x57, 0x60, 0x00, 0x60, 0x00, 0xfd, 0x5b, 0x00)
		} else {
			rt = append(rt, 0x60, 0x00, 0x60, 0x00, 0xfd)
		}
	case "delegatecall":
		rt = append(rt, copyIn...)
		rt = append(rt, 0x60, 0x00, 0x60, 0x00, 0x36, 0x60, 0x00, 0x73)
		rt = append(rt, target.Bytes()...)
		rt = append(rt, 0x5a, 0xf4)
		dest := byte(len(rt) + 8)
		rt = append(rt, 0x60, dest, 0x57, 0x60, 0x00, 0x60, 0x00, 0xfd, 0x5b, 0x00)
	case "double":
		// two CALLs to target in one transaction: the first with the first half of the call data, the second with the rest
		rt = append(rt, copyIn...)
		half := []byte{0x60, 0x02, 0x36, 0x04} // calldatasize / 2
		rt = append(rt, 0x60, 0x00, 0x60, 0x00)
		rt = append(rt, half...)
		rt = append(rt, 0x60, 0x00, 0x60, 0x00, 0x73)
		rt = append(rt, target.Bytes()...)
		rt = append(rt, 0x5a, 0xf1, 0x50)
		rt = append(rt, 0x60, 0x00, 0x60, 0x00)
		rt = append(rt, half...)
		rt = append(rt, 0x80, 0x60, 0x00, 0x73)
		rt = append(rt, target.Bytes()...)
		rt = append(rt, 0x5a, 0xf1, 0x50, 0x00)
	case "lookalike":
		rt = append(rt, copyIn...)
		rt = append(rt, 0x60, 0x00, 0x35, 0x60, 0x20, 0x36, 0x03, 0x60, 0x20, 0xa1, 0x00)
	case "mixed":
		// call data = [L (32 bytes)] [L bytes: call data of a genuine call] [topic (32 bytes)] [event data]: the contract first
		// makes the genuine call to target (for itself; reverts if it fails) and then emits LOG1(topic, event data) from its
		// own address - a real event of the system contract followed by a look-alike in one receipt
		a := newAsm()
		a.op(vm.CALLDATASIZE).push(0).push(0).op(vm.CALLDATACOPY)
		a.push(0).push(0).push(0).op(vm.MLOAD).push(32).push(0).push(target.Bytes()...).op(vm.GAS, vm.CALL)
		a.pushLabel("ok").op(vm.JUMPI).push(0).op(vm.DUP1, vm.REVERT)
		a.label("ok")
		a.push(0).op(vm.MLOAD).push(32).op(vm.ADD, vm.MLOAD)
		a.push(0).op(vm.MLOAD).push(64).op(vm.ADD)
		a.op(vm.DUP1, vm.CALLDATASIZE, vm.SUB, vm.SWAP1, vm.LOG1, vm.STOP)
		rt = a.bytes()
	}
	init := []byte{0x60, byte(len(rt)), 0x80, 0x60, 0x0b, 0x60, 0x00, 0x39, 0x60, 0x00, 0xf3}
	return append(init, rt...)
}

type adWorld struct {
	C       *Chain
	Val     string
	Val2    string                               // the second validator (redelegation target)
	Helpers map[string]map[string]common.Address // helper[mode][contract]
	sink0   sdk.Int
	sup0    sdk.Int
	h0      int64 // height and time at which the behaviour started (the infraction reported by Slash)
	t0      time.Time
}

var (
	stakingAddr = common.HexToAddress(syscontracts.StakingContractAddress)
	govAddr     = common.HexToAddress(syscontracts.GovContractAddress)
)

func newAdWorld() *adWorld {
	rich, eoa := NewAcct("ad/rich"), NewAcct("ad/eoa")
	c := NewChain(ChainOpts{ChainID: "teleport_9000-10", Accts: []Acct{rich, eoa}, Balances: map[string]int64{eoa.Name: 0},
		Bond:      "1000000000000000000000000", // far above what the actors can delegate: their votes never reach the quorum
		SecondVal: true,
		Coins:     map[string]sdk.Coins{eoa.Name: adCoins(adStart), rich.Name: adCoins(100)}})
	w := &adWorld{C: c, Helpers: map[string]map[string]common.Address{}}
	vals := c.App.StakingKeeper.GetAllValidators(c.Ctx())
	w.Val = sdk.ValAddress(c.Vals.Validators[0].Address).String()
	for _, v := range vals {
		if v.OperatorAddress != w.Val {
			w.Val2 = v.OperatorAddress
		}
	}
	if w.Val2 == "" {
		panic("no second validator")
	}
	for _, mode := range []string{"forward", "fwdrevert", "delegatecall", "lookalike", "double", "mixed"} {
		w.Helpers[mode] = map[string]common.Address{}
		for _, name := range []string{"staking", "gov"} { // fixed order: the helper addresses depend on the deployer's nonce
			target := map[string]common.Address{"staking": stakingAddr, "gov": govAddr}[name]
			nonce := c.App.EvmKeeper.GetNonce(c.Ctx(), rich.Eth)
			addr := crypto.CreateAddress(rich.Eth, nonce)
			if r := c.DeliverEth(rich, nil, nil, proxyCode(mode, target)); !r.OK() {
				panic("deploy helper: " + r.Log + r.VMError)
			}
			w.Helpers[mode][name] = addr
		}
	}
	// the forwarding contracts act with their own coins
	for _, name := range []string{"forward", "double", "mixed"} {
		fwd := sdk.AccAddress(w.Helpers[name]["staking"].Bytes())
		if r := c.DeliverMsgs(rich, banktypes.NewMsgSend(rich.Acc, fwd, adCoins(adStart))); !r.OK() {
			panic("fund forwarder: " + r.Log)
		}
	}
	// an active proposal to vote on
	msg, err := govtypes.NewMsgSubmitProposal(govtypes.NewTextProposal("t", "d"), adCoins(1), rich.Acc)
	must(err)
	if r := c.DeliverMsgs(rich, msg); !r.OK() {
		panic("submit proposal: " + r.Log)
	}
	w.sink0, w.sup0 = w.sink(), c.App.BankKeeper.GetSupply(c.Ctx(), sdk.DefaultBondDenom).Amount
	return w
}

func (w *adWorld) sink() sdk.Int {
	c := w.C
	return c.Bal(authtypes.NewModuleAddress(authtypes.FeeCollectorName), sdk.DefaultBondDenom).Add(
		c.Bal(authtypes.NewModuleAddress(distrtypes.ModuleName), sdk.DefaultBondDenom))
}

// actor accounts of the specification: the EOA, and the forwarding contract in front of the staking contract
// (the forwarder in front of the gov contract is a different address: its votes are projected under "fwd" too)
func (w *adWorld) actorAddrs(a string) []sdk.AccAddress {
	if a == "eoa" {
		return []sdk.AccAddress{w.C.Accts[1].Acc}
	}
	if a == "dbl" {
		return []sdk.AccAddress{sdk.AccAddress(w.Helpers["double"]["staking"].Bytes()), sdk.AccAddress(w.Helpers["double"]["gov"].Bytes())}
	}
	if a == "mix" {
		return []sdk.AccAddress{sdk.AccAddress(w.Helpers["mixed"]["staking"].Bytes()), sdk.AccAddress(w.Helpers["mixed"]["gov"].Bytes())}
	}
	return []sdk.AccAddress{sdk.AccAddress(w.Helpers["forward"]["staking"].Bytes()), sdk.AccAddress(w.Helpers["forward"]["gov"].Bytes())}
}

func (w *adWorld) project() M {
	c := w.C
	ctx := c.Ctx()
	vaddr := map[string]sdk.ValAddress{}
	for k, b32 := range map[string]string{"v1": w.Val, "v2": w.Val2} {
		va, err := sdk.ValAddressFromBech32(b32)
		must(err)
		vaddr[k] = va
	}
	st := M{}
	for _, a := range []string{"eoa", "fwd", "dbl", "mix"} {
		var voted int64
		bal, unb := sdk.ZeroInt(), sdk.ZeroInt()
		del := map[string]sdk.Int{"v1": sdk.ZeroInt(), "v2": sdk.ZeroInt()}
		redel := []interface{}{}
		for i, addr := range w.actorAddrs(a) {
			if i == 0 {
				bal = c.Bal(addr, sdk.DefaultBondDenom)
			}
			for _, vk := range []string{"v1", "v2"} {
				if d, ok := c.App.StakingKeeper.GetDelegation(ctx, addr, vaddr[vk]); ok {
					v, _ := c.App.StakingKeeper.GetValidator(ctx, vaddr[vk])
					del[vk] = del[vk].Add(v.TokensFromShares(d.Shares).TruncateInt())
				}
				if u, ok := c.App.StakingKeeper.GetUnbondingDelegation(ctx, addr, vaddr[vk]); ok {
					for _, e := range u.Entries {
						unb = unb.Add(e.Balance)
					}
				}
				other := map[string]string{"v1": "v2", "v2": "v1"}[vk]
				if r, ok := c.App.StakingKeeper.GetRedelegation(ctx, addr, vaddr[vk], vaddr[other]); ok && len(r.Entries) > 0 {
					redel = append(redel, []interface{}{vk, other})
				}
			}
			if v, ok := c.App.GovKeeper.GetVote(ctx, 1, addr); ok && len(v.Options) > 0 {
				voted = int64(v.Options[0].Option)
				if len(v.Options) == 2 && v.Options[0].Weight.Equal(sdk.NewDecWithPrec(5, 1)) && v.Options[1].Weight.Equal(sdk.NewDecWithPrec(5, 1)) {
					voted = int64(v.Options[0].Option)*10 + int64(v.Options[1].Option)
				} else if len(v.Options) != 1 || !v.Options[0].Weight.Equal(sdk.OneDec()) {
					voted = -1
				}
			}
		}
		st[a] = M{"bal": adUnits(bal), "del": M{"v1": adUnits(del["v1"]), "v2": adUnits(del["v2"])}, "unb": adUnits(unb), "voted": voted, "redel": redel}
	}
	p, ok := c.App.GovKeeper.GetProposal(ctx, 1)
	st["active"] = ok && p.Status == govtypes.StatusVotingPeriod
	st["sink"] = adUnits(w.sink().Sub(w.sink0))
	st["burned"] = adUnits(w.sink().Sub(w.sink0))
	st["supply"] = adUnits(c.App.BankKeeper.GetSupply(ctx, sdk.DefaultBondDenom).Amount.Sub(w.sup0))
	return st
}

func driveAdapter(t *testing.T, in, out string, seed int64) {
	behaviours := ReadBehaviours(in)
	tw := NewTraceWriter(out)
	defer tw.Close()
	for bi, b := range behaviours {
		w := newAdWorld()
		c := w.C
		w.h0, w.t0 = c.Header.Height, c.Header.Time
		eoa := c.Accts[1]
		z := M{"pre": "", "post": ""}
		tw.Emit(M{"ev": "Reset", "b": bi, "i": 0, "res": "ok", "args": M{}, "sig": "Reset", "st": w.project(), "dg": z, "ndg": z})
		for si, st := range b {
			act := str(st["act"])
			line := M{"ev": act, "b": bi, "i": si + 1, "args": st, "sig": act}
			pre, npre := c.Digest("staking", "gov", "bank", "evm", "distribution"), c.Digest("staking", "gov", "bank", "distribution")
			switch act {
			case "Tx":
				path, op := str(st["path"]), str(st["op"])
				val, otherVal := w.Val, w.Val2
				switch str(st["val"]) {
				case "valid":
				case "second":
					val, otherVal = w.Val2, w.Val
				default:
					val = "teleportvaloper1unknownvalidatorxxxxxxxxxxxxxxxxxxxx"
				}
				amt := new(big.Int).Mul(big.NewInt(num(st["amt"])), adUnit)
				var data []byte
				contract, target := "staking", stakingAddr
				var eventName string
				var eventArgs []interface{}
				switch op {
				case "delegate":
					data = mustPack(stakingcontract.StakingContract.ABI, "delegate", val, amt)
					eventName, eventArgs = "Delegated", []interface{}{eoa.Eth, val, amt}
				case "undelegate":
					data = mustPack(stakingcontract.StakingContract.ABI, "undelegate", val, amt)
					eventName, eventArgs = "Undelegated", []interface{}{eoa.Eth, val, amt}
				case "withdraw":
					data = mustPack(stakingcontract.StakingContract.ABI, "withdraw", val)
					eventName, eventArgs = "Withdrew", []interface{}{eoa.Eth, val}
				case "redelegate":
					data = mustPack(stakingcontract.StakingContract.ABI, "redelegate", val, otherVal, amt)
					eventName, eventArgs = "Redelegated", []interface{}{eoa.Eth, val, otherVal, amt}
				case "vote":
					contract, target = "gov", govAddr
					data = mustPack(govcontract.GovContract.ABI, "vote", uint64(1), uint32(num(st["opt"])))
					eventName, eventArgs = "Voted", []interface{}{eoa.Eth, uint64(1), uint32(num(st["opt"]))}
				case "votew":
					contract, target = "gov", govAddr
					opts := []govcontract.GovOptionWeight{{Option: uint32(num(st["opt"])), Weight: 100}}
					switch num(st["opt"]) {
					case 12:
						opts = []govcontract.GovOptionWeight{{Option: 1, Weight: 50}, {Option: 2, Weight: 50}}
					case 31: // a single option whose weight is not the whole
						opts = []govcontract.GovOptionWeight{{Option: 1, Weight: 30}}
					case 32:
						opts = []govcontract.GovOptionWeight{{Option: 2, Weight: 250}}
					}
					data = mustPack(govcontract.GovContract.ABI, "vote0", uint64(1), opts)
					eventName, eventArgs = "VotedWeighted", []interface{}{eoa.Eth, uint64(1), opts}
				}
				to := target
				switch path {
				case "direct":
				case "lookalike":
					to = w.Helpers[path][contract]
					abi := stakingcontract.StakingContract.ABI
					if contract == "gov" {
						abi = govcontract.GovContract.ABI
					}
					ev := abi.Events[eventName]
					enc, err := ev.Inputs.Pack(eventArgs...)
					must(err)
					data = append(ev.ID.Bytes(), enc...)
				case "mixed":
					// the helper makes the genuine call (acting for itself) and then emits a look-alike event naming the EOA
					to = w.Helpers[path][contract]
					abi := stakingcontract.StakingContract.ABI
					if contract == "gov" {
						abi = govcontract.GovContract.ABI
					}
					ev := abi.Events[eventName]
					enc, err := ev.Inputs.Pack(eventArgs...)
					must(err)
					l := make([]byte, 32)
					binary.BigEndian.PutUint64(l[24:], uint64(len(data)))
					data = append(append(append(l, data...), ev.ID.Bytes()...), enc...)
				default:
					to = w.Helpers[path][contract]
				}
				r := c.DeliverEth(eoa, &to, nil, data)
				line["res"], line["msg"] = resOf(r), clip(r.Log+r.VMError)
				line["sig"] = fmt.Sprintf("Tx/%s/%s", path, op)
			case "Tx2":
				prop := uint64(1)
				if str(st["val"]) != "valid" {
					prop = 999 // no such proposal: the first native vote fails
				}
				d1 := mustPack(govcontract.GovContract.ABI, "vote", prop, uint32(num(st["opt"])))
				d2 := mustPack(govcontract.GovContract.ABI, "vote", uint64(1), uint32(num(st["opt2"])))
				if str(st["kind2"]) == "weighted" {
					// the second call is the weighted vote: two kinds of event in one receipt.  The helper splits its call data in
					// two halves, so the first (plain) call is padded with zero bytes, which the ABI decoder ignores
					d2 = mustPack(govcontract.GovContract.ABI, "vote0", uint64(1), []govcontract.GovOptionWeight{{Option: uint32(num(st["opt2"])), Weight: 100}})
					d1 = append(d1, make([]byte, len(d2)-len(d1))...)
				}
				to := w.Helpers["double"]["gov"]
				r := c.DeliverEth(eoa, &to, nil, append(d1, d2...))
				line["res"], line["msg"] = resOf(r), clip(r.Log+r.VMError)
				line["sig"] = "Tx2"
			case "Slash":
				// double-sign evidence against the second validator, dated at the start of the behaviour: whatever was
				// unbonded or redelegated away from it since is slashed too (out of the not-bonded pool)
				snap := func() (sup, sink, pools sdk.Int) {
					ctx := c.Ctx()
					pools = c.Bal(authtypes.NewModuleAddress(stakingtypes.BondedPoolName), sdk.DefaultBondDenom).Add(c.Bal(authtypes.NewModuleAddress(stakingtypes.NotBondedPoolName), sdk.DefaultBondDenom))
					return c.App.BankKeeper.GetSupply(ctx, sdk.DefaultBondDenom).Amount, w.sink(), pools
				}
				sup0, sink0, pools0 := snap()
				v2, ok := c.App.StakingKeeper.GetValidatorByConsAddr(c.Ctx(), c.Val2Cons)
				if !ok {
					t.Fatalf("second validator not found by consensus address")
				}
				c.NextEvidence = []abci.Evidence{{Type: abci.EvidenceType_DUPLICATE_VOTE, Validator: abci.Validator{Address: c.Val2Cons, Power: v2.ConsensusPower(c.App.StakingKeeper.PowerReduction(c.Ctx()))},
					Height: w.h0, Time: w.t0, TotalVotingPower: 2 * v2.ConsensusPower(c.App.StakingKeeper.PowerReduction(c.Ctx()))}}
				c.Commit()
				sup1, sink1, pools1 := snap()
				line["res"] = "ok"
				line["slash"] = M{"supply": sup1.Sub(sup0).String(), "sink": sink1.Sub(sink0).String(), "pools": pools0.Sub(pools1).String(), "power": v2.ConsensusPower(c.App.StakingKeeper.PowerReduction(c.Ctx()))}
			case "Expire":
				c.CommitAdvance(11 * time.Second)
				c.Commit()
				line["res"] = "ok"
			default:
				t.Fatalf("unknown action %q", act)
			}
			line["dg"] = M{"pre": pre, "post": c.Digest("staking", "gov", "bank", "evm", "distribution")}
			line["ndg"] = M{"pre": npre, "post": c.Digest("staking", "gov", "bank", "distribution")}
			line["st"] = w.project()
			tw.Emit(line)
		}
	}
}
