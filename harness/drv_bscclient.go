package harness

import (
	"bytes"
	"crypto/ecdsa"
	"crypto/sha256"
	"encoding/hex"
	tsstypes "github.com/teleport-network/teleport/x/xibc/clients/tss-client/types"
	"math/big"
	"sort"
	"strings"
	"testing"

	"golang.org/x/crypto/sha3"

	"github.com/ethereum/go-ethereum/common"
	gethtypes "github.com/ethereum/go-ethereum/core/types"
	"github.com/ethereum/go-ethereum/crypto"
	"github.com/ethereum/go-ethereum/rlp"

	bsctypes "github.com/teleport-network/teleport/x/xibc/clients/light-clients/bsc/types"
	clienttypes "github.com/teleport-network/teleport/x/xibc/core/client/types"
	"github.com/teleport-network/teleport/x/xibc/core/host"
)

func init() { Drivers["bscclient"] = driveBSCClient }

const (
	bscName    = "cli-bsc"
	bscChainID = 56
)

// bscKeys are seven secp256k1 keys; validator i of the specification is the key with the i-th smallest address.
type bscKeys struct {
	Keys  []*ecdsa.PrivateKey // index 0 = validator 1
	Addrs []common.Address
}

func newBSCKeys() *bscKeys {
	type ka struct {
		k *ecdsa.PrivateKey
		a common.Address
	}
	var all []ka
	for i := 0; len(all) < 7; i++ {
		h := sha256.Sum256([]byte{byte(i), 'b', 's', 'c'})
		k, err := crypto.ToECDSA(h[:])
		if err != nil {
			continue
		}
		all = append(all, ka{k, crypto.PubkeyToAddress(k.PublicKey)})
	}
	sort.Slice(all, func(i, j int) bool { return bytes.Compare(all[i].a[:], all[j].a[:]) < 0 })
	out := &bscKeys{}
	for _, x := range all {
		out.Keys = append(out.Keys, x.k)
		out.Addrs = append(out.Addrs, x.a)
	}
	return out
}

func (k *bscKeys) idx(a common.Address) int64 {
	for i, x := range k.Addrs {
		if x == a {
			return int64(i + 1)
		}
	}
	return 0
}

// bscSealHash is an independent re-implementation of the header hash that Parlia validators sign.
func bscSealHash(h *bsctypes.Header, chainID int64) common.Hash {
	hasher := sha3.NewLegacyKeccak256()
	must(rlp.Encode(hasher, []interface{}{
		big.NewInt(chainID), h.ParentHash, h.UncleHash, h.Coinbase, h.Root, h.TxHash, h.ReceiptHash, h.Bloom, h.Difficulty,
		h.Height.RevisionHeight, h.GasLimit, h.GasUsed, h.Time, h.Extra[:len(h.Extra)-65], h.MixDigest, h.Nonce,
	}))
	var out common.Hash
	hasher.Sum(out[:0])
	return out
}

// bscHeader builds and seals a header. vals == nil: no validator list in the extra data.
func (k *bscKeys) header(number uint64, parent common.Hash, signer int, coinbaseOK bool, diff int64, vals []int, structOK bool, rootTag string) *bsctypes.Header {
	root := make([]byte, 32)
	copy(root, []byte(rootTag))
	return k.headerRoot(number, parent, signer, coinbaseOK, diff, vals, structOK, root)
}

func (k *bscKeys) headerRoot(number uint64, parent common.Hash, signer int, coinbaseOK bool, diff int64, vals []int, structOK bool, root []byte) *bsctypes.Header {
	extra := make([]byte, 32)
	for _, v := range vals {
		extra = append(extra, k.Addrs[v-1].Bytes()...)
	}
	extra = append(extra, make([]byte, 65)...)
	coinbase := k.Addrs[signer-1]
	if !coinbaseOK {
		coinbase = k.Addrs[signer%4] // another validator's address
	}
	difficulty := big.NewInt(diff)
	if diff > 100 {
		// classes 101 / 102: a difficulty wider than 64 bits whose low 64 bits are 1 / 2
		difficulty = new(big.Int).Add(new(big.Int).Lsh(big.NewInt(1), 64), big.NewInt(diff-100))
	}
	h := &bsctypes.Header{
		ParentHash: parent.Bytes(), UncleHash: gethtypes.CalcUncleHash(nil).Bytes(), Coinbase: coinbase.Bytes(), Root: root,
		TxHash: make([]byte, 32), ReceiptHash: make([]byte, 32), Bloom: make([]byte, 256), Difficulty: difficulty.Bytes(),
		Height: clienttypes.NewHeight(0, number), GasLimit: 30_000_000, GasUsed: 0, Time: 1_577_000_000 + number*3, Extra: extra,
		MixDigest: make([]byte, 32), Nonce: make([]byte, 8),
	}
	if !structOK {
		h.MixDigest[0] = 1 // non-zero mix digest
	}
	sig, err := crypto.Sign(bscSealHash(h, bscChainID).Bytes(), k.Keys[signer-1])
	must(err)
	copy(h.Extra[len(h.Extra)-65:], sig)
	return h
}

type bscWorld struct {
	C    *Chain
	K    *bscKeys
	Head *bsctypes.Header
}

func ints(v interface{}) []int {
	var out []int
	if v == nil {
		return out
	}
	for _, x := range v.([]interface{}) {
		out = append(out, int(num(x)))
	}
	sort.Ints(out)
	return out
}

func (w *bscWorld) project() M {
	c := w.C
	st := M{"number": int64(-1), "validators": []int64{}, "pending": []int64{}, "recents": [][]interface{}{}, "cons": []int64{}}
	csI, ok := c.App.XIBCKeeper.ClientKeeper.GetClientState(c.Ctx(), bscName)
	if !ok {
		return st
	}
	cs := csI.(*bsctypes.ClientState)
	st["number"] = int64(cs.Header.Height.RevisionHeight)
	vals := []int64{}
	for _, v := range cs.Validators {
		vals = append(vals, w.K.idx(common.BytesToAddress(v)))
	}
	sort.Slice(vals, func(i, j int) bool { return vals[i] < vals[j] })
	st["validators"] = vals
	store := c.App.XIBCKeeper.ClientKeeper.ClientStore(c.Ctx(), bscName)
	pend := []int64{}
	func() {
		defer func() { recover() }()
		for _, v := range bsctypes.GetPendingValidators(c.App.AppCodec(), store).Validators {
			pend = append(pend, w.K.idx(common.BytesToAddress(v)))
		}
	}()
	sort.Slice(pend, func(i, j int) bool { return pend[i] < pend[j] })
	st["pending"] = pend
	rec := [][]interface{}{}
	if rs, err := bsctypes.GetRecentSigners(store); err == nil {
		for _, r := range rs {
			rec = append(rec, []interface{}{int64(r.Height.RevisionHeight), w.K.idx(common.BytesToAddress(r.Validator))})
		}
	}
	st["recents"] = rec
	cons := []int64{}
	pre := "clients/" + bscName + "/" + host.KeyConsensusStatePrefix + "/"
	dump := c.DumpStore("xibc", []byte(pre))
	rootsOK := true
	for _, k := range SortedKeys(dump) {
		kb, _ := hex.DecodeString(k)
		if len(kb) != len(pre)+16 {
			continue
		}
		vb, _ := hex.DecodeString(dump[k])
		csI, err := clienttypes.UnmarshalConsensusState(c.App.AppCodec(), vb)
		if err != nil {
			continue
		}
		bc := csI.(*bsctypes.ConsensusState)
		cons = append(cons, int64(bc.Height.RevisionHeight))
		if !strings.HasPrefix(string(bc.Root), "root") {
			rootsOK = false
		}
	}
	st["cons"] = cons
	st["rootsok"] = rootsOK
	st["headok"] = w.Head != nil && cs.Header.Hash() == w.Head.Hash()
	return st
}

func driveBSCClient(t *testing.T, in, out string, seed int64) {
	behaviours := ReadBehaviours(in)
	tw := NewTraceWriter(out)
	defer tw.Close()
	keys := newBSCKeys()
	for bi, b := range behaviours {
		l := NewLC()
		c := l.C
		RoundTripAtEnd("bscclient", bi, map[string]*Chain{"host": c})
		w := &bscWorld{C: c, K: keys}
		l.EnsureRelayer([]string{bscName})
		init := b[0]
		epoch, initNumber, initSet, initSigner := uint64(num(init["epoch"])), uint64(num(init["number"])), ints(init["set"]), int(num(init["signer"]))
		initAnn := initSet // the list the creation header announces (default: the set in force)
		if _, ok := init["ann"]; ok {
			initAnn = ints(init["ann"])
		}
		g := keys.header(initNumber, common.Hash{}, initSigner, true, 2, initAnn, true, "root-genesis")
		var valBytes [][]byte
		for _, v := range initSet {
			valBytes = append(valBytes, keys.Addrs[v-1].Bytes())
		}
		cs := &bsctypes.ClientState{Header: *g, ChainId: bscChainID, Epoch: epoch, BlockInteval: 3, Validators: valBytes,
			ContractAddress: common.HexToAddress("0x1234").Bytes(), TrustingPeriod: 1_000_000_000}
		cons := &bsctypes.ConsensusState{Timestamp: g.Time, Height: g.Height, Root: g.Root}
		if str(init["via"]) == "toggle" {
			// the name first gets a TSS client; governance then toggles it to the BSC type
			tss := &tsstypes.ClientState{TssAddress: c.Accts[lcRelayer].Acc.String(), Pubkey: []byte{1, 2, 3}, PartPubkeys: [][]byte{{4}, {5}}, Threshold: 2}
			p0, err := clienttypes.NewCreateClientProposal("t", "d", bscName, tss, &tsstypes.ConsensusState{})
			must(err)
			if res, msg := c.ExecProposal(p0); res != "ok" {
				t.Fatalf("create tss client: %s %s", res, msg)
			}
			p1, err := clienttypes.NewToggleClientProposal("t", "d", bscName, cs, cons)
			must(err)
			if res, msg := c.ExecProposal(p1); res != "ok" {
				t.Fatalf("toggle to bsc client: %s %s", res, msg)
			}
		} else {
			prop, err := clienttypes.NewCreateClientProposal("t", "d", bscName, cs, cons)
			must(err)
			if res, msg := c.ExecProposal(prop); res != "ok" {
				t.Fatalf("create bsc client: %s %s", res, msg)
			}
		}
		w.Head = g
		z := M{"pre": "", "post": ""}
		tw.Emit(M{"ev": "Reset", "b": bi, "i": 0, "res": "ok", "args": init, "sig": "Reset", "st": w.project(), "dg": z})
		for si, st := range b[1:] {
			act := str(st["act"])
			line := M{"ev": act, "b": bi, "i": si + 1, "args": st, "sig": act}
			pre := c.Digest("xibc")
			switch act {
			case "Update":
				hd := st["hd"].(M)
				parent := w.Head.Hash()
				if !hd["parentOK"].(bool) {
					parent = common.BytesToHash([]byte("some other parent"))
				}
				h := keys.header(uint64(num(hd["number"])), parent, int(num(hd["signer"])), hd["coinbaseOK"].(bool), num(hd["diff"]), ints(hd["extra"]),
					hd["structOK"].(bool), "root-"+str(hd["number"]))
				msg, err := clienttypes.NewMsgUpdateClient(bscName, h, c.Accts[lcRelayer].Acc)
				must(err)
				r := c.DeliverMsgs(c.Accts[lcRelayer], msg)
				line["res"], line["msg"] = resOf(r), clip(r.Log)
				if r.OK() {
					w.Head = h
				}
			case "Upgrade":
				// a governance UpgradeClientProposal installing a new client state whose header is hd and whose validator set is st["set"]
				hd := st["hd"].(M)
				h := keys.header(uint64(num(hd["number"])), common.BytesToHash([]byte("upgrade parent")), int(num(hd["signer"])), hd["coinbaseOK"].(bool), num(hd["diff"]), ints(hd["extra"]),
					hd["structOK"].(bool), "root-up-"+str(hd["number"]))
				var vb [][]byte
				for _, v := range ints(st["set"]) {
					vb = append(vb, keys.Addrs[v-1].Bytes())
				}
				ncs := &bsctypes.ClientState{Header: *h, ChainId: bscChainID, Epoch: epoch, BlockInteval: 3, Validators: vb,
					ContractAddress: common.HexToAddress("0x1234").Bytes(), TrustingPeriod: 1_000_000_000}
				ncons := &bsctypes.ConsensusState{Timestamp: h.Time, Height: h.Height, Root: h.Root}
				up, err := clienttypes.NewUpgradeClientProposal("t", "d", bscName, ncs, ncons)
				must(err)
				res, msg := c.ExecProposal(up)
				line["res"], line["msg"] = res, clip(msg)
				if res == "ok" {
					w.Head = h
				}
			default:
				t.Fatalf("unknown action %q", act)
			}
			line["dg"] = M{"pre": pre, "post": c.Digest("xibc")}
			line["st"] = w.project()
			tw.Emit(line)
		}
	}
}

func cryptoSign(hash []byte, k *bscKeys, signer int) ([]byte, error) {
	return crypto.Sign(hash, k.Keys[signer-1])
}
