package harness

import (
	"encoding/json"
	"fmt"
	aggregatemodule "github.com/teleport-network/teleport/x/aggregate/module"
	rvestingmodule "github.com/teleport-network/teleport/x/rvesting/module"
	xibcmodule "github.com/teleport-network/teleport/x/xibc/module"
	xibctypes "github.com/teleport-network/teleport/x/xibc/types"
	"math/big"
	"strings"
	"testing"
	"time"

	codectypes "github.com/cosmos/cosmos-sdk/codec/types"
	"github.com/cosmos/cosmos-sdk/simapp"
	sdk "github.com/cosmos/cosmos-sdk/types"
	banktypes "github.com/cosmos/cosmos-sdk/x/bank/types"
	govtypes "github.com/cosmos/cosmos-sdk/x/gov/types"
	paramproposal "github.com/cosmos/cosmos-sdk/x/params/types/proposal"

	"github.com/ethereum/go-ethereum/common"

	"github.com/teleport-network/teleport/app"
	aggtypes "github.com/teleport-network/teleport/x/aggregate/types"
	rvestingtypes "github.com/teleport-network/teleport/x/rvesting/types"
	bsctypes "github.com/teleport-network/teleport/x/xibc/clients/light-clients/bsc/types"
	ethtypes "github.com/teleport-network/teleport/x/xibc/clients/light-clients/eth/types"
	xibctmtypes "github.com/teleport-network/teleport/x/xibc/clients/light-clients/tendermint/types"
	tsstypes "github.com/teleport-network/teleport/x/xibc/clients/tss-client/types"
	clienttypes "github.com/teleport-network/teleport/x/xibc/core/client/types"
	"github.com/teleport-network/teleport/x/xibc/exported"
)

func init() { Drivers["halt"] = driveHalt }

// execIn validates a proposal content the way submission does and executes it the way gov.EndBlocker does,
// inside ctx (a cache context the caller discards).  Panics are reported, never hidden.
func execIn(c *Chain, ctx sdk.Context, content govtypes.Content) (submit, res, msg string) {
	func() {
		defer func() {
			if r := recover(); r != nil {
				submit, msg = "panic-at-submit", fmt.Sprint(r)
			}
		}()
		if err := content.ValidateBasic(); err != nil {
			submit, msg = "invalid", err.Error()
			return
		}
		submit = "ok"
	}()
	if submit != "ok" {
		return submit, "none", msg
	}
	defer func() {
		if r := recover(); r != nil {
			res, msg = "panic", fmt.Sprint(r)
		}
	}()
	if !c.App.GovKeeper.Router().HasRoute(content.ProposalRoute()) {
		return submit, "err", "no route"
	}
	handler := c.App.GovKeeper.Router().GetRoute(content.ProposalRoute())
	cacheCtx, write := ctx.CacheContext()
	if err := handler(cacheCtx, content); err != nil {
		return submit, "err", err.Error()
	}
	write()
	return submit, "ok", ""
}

func ctxDigest(c *Chain, ctx sdk.Context, stores ...string) string {
	saved := c.Header
	_ = saved
	h := ""
	for _, name := range stores {
		key := c.App.GetKey(name)
		it := ctx.KVStore(key).Iterator(nil, nil)
		n, acc := 0, uint64(1469598103934665603)
		for ; it.Valid(); it.Next() {
			for _, b := range it.Key() {
				acc = (acc ^ uint64(b)) * 1099511628211
			}
			for _, b := range it.Value() {
				acc = (acc ^ uint64(b)) * 1099511628211
			}
			n++
		}
		it.Close()
		h += fmt.Sprintf("%s:%d:%x;", name, n, acc)
	}
	return h
}

func clientProposal(kind, name string, cs exported.ClientState, cons exported.ConsensusState, nilCons bool) govtypes.Content {
	csAny, err := clienttypes.PackClientState(cs)
	must(err)
	var consAny *codectypes.Any
	if !nilCons {
		consAny, err = clienttypes.PackConsensusState(cons)
		must(err)
	}
	switch kind {
	case "Create":
		return &clienttypes.CreateClientProposal{Title: "t", Description: "d", ChainName: name, ClientState: csAny, ConsensusState: consAny}
	case "Upgrade":
		return &clienttypes.UpgradeClientProposal{Title: "t", Description: "d", ChainName: name, ClientState: csAny, ConsensusState: consAny}
	}
	return &clienttypes.ToggleClientProposal{Title: "t", Description: "d", ChainName: name, ClientState: csAny, ConsensusState: consAny}
}

type haltWorld struct {
	L    *LC
	Keys *bscKeys
	Agg  *AggWorld
}

func (w *haltWorld) bscStates(cs M) (exported.ClientState, exported.ConsensusState, bool) {
	k := w.Keys
	epoch := map[string]uint64{"0": 0, "1": 1, "4": 4}[str(cs["epoch"])]
	height := uint64(0)
	switch str(cs["height"]) {
	case "epochmult":
		height = 8
	case "other":
		height = 5
	}
	var vals []int
	if str(cs["extra"]) == "vals" {
		vals = []int{1, 2, 3}
	}
	h := k.headerRoot(height, common.Hash{}, 2, true, 2, vals, true, make([]byte, 32))
	reseal := false
	switch str(cs["extra"]) {
	case "short":
		h.Extra = h.Extra[:50]
	case "sealonly":
		// 20 bytes and a valid seal: long enough for the seal, too short for the 32-byte vanity prefix the validator list follows
		h.Extra = make([]byte, 20+65)
		func() {
			defer func() { recover() }()
			if sig, err := cryptoSign(bscSealHash(h, bscChainID).Bytes(), w.Keys, 2); err == nil {
				copy(h.Extra[len(h.Extra)-65:], sig)
			}
		}()
	case "odd":
		h.Extra = append(append(append([]byte{}, h.Extra[:32]...), make([]byte, 10)...), make([]byte, 65)...)
		reseal = true
	}
	switch str(cs["shape"]) {
	case "longbloom":
		h.Bloom = make([]byte, 300)
		reseal = true
	case "longnonce":
		h.Nonce = make([]byte, 9)
		reseal = true
	case "nodiff":
		h.Difficulty = []byte{}
		reseal = true
	}
	if reseal && len(h.Extra) >= 97 {
		w.Keys.reseal(h, 2)
	}
	if str(cs["sig"]) == "garbage" && len(h.Extra) >= 65 {
		for i := len(h.Extra) - 65; i < len(h.Extra); i++ {
			h.Extra[i] = byte(i*7 + 1)
		}
	}
	valBytes := [][]byte{k.Addrs[0].Bytes(), k.Addrs[1].Bytes(), k.Addrs[2].Bytes()}
	if str(cs["shape"]) == "novalidators" {
		valBytes = nil
	}
	cst := &bsctypes.ClientState{Header: *h, ChainId: bscChainID, Epoch: epoch, BlockInteval: 3, Validators: valBytes, ContractAddress: []byte{1}, TrustingPeriod: 1_000_000_000}
	if str(cs["shape"]) == "hugechainid" {
		cst.ChainId = 1 << 63 // a chain id that does not fit a signed 64-bit integer
	}
	var cons exported.ConsensusState = &bsctypes.ConsensusState{Timestamp: h.Time, Height: h.Height, Root: h.Root}
	if str(cs["shape"]) == "wrongcons" {
		cons = &tsstypes.ConsensusState{}
	}
	return cst, cons, false
}

func (k *bscKeys) reseal(h *bsctypes.Header, signer int) {
	defer func() { recover() }()
	sigHash := bscSealHash(h, bscChainID)
	sig, err := cryptoSign(sigHash.Bytes(), k, signer)
	if err == nil {
		copy(h.Extra[len(h.Extra)-65:], sig)
	}
}

func (w *haltWorld) ethStates(f string) (exported.ClientState, exported.ConsensusState, bool) {
	tree := newEthTree(uint64(w.L.C.Header.Time.Unix()) - 1000)
	h := *tree.Hdr["a1"]
	switch f {
	case "nodiff":
		h.Difficulty = []byte{}
	case "gasover":
		h.GasUsed = h.GasLimit + 1
	case "longbloom":
		h.Bloom = make([]byte, 300)
	case "bigextra":
		h.Extra = make([]byte, 5000)
	case "nobasefee":
		h.BaseFee = nil
	case "zeroheight":
		h.Height = clienttypes.NewHeight(0, 0)
	}
	cs := &ethtypes.ClientState{Header: h, ChainId: 4, ContractAddress: []byte{1}, TrustingPeriod: 1_000_000_000}
	var cons exported.ConsensusState = &ethtypes.ConsensusState{Timestamp: h.Time, Height: h.Height, Root: h.Root}
	if f == "wrongcons" {
		cons = &tsstypes.ConsensusState{}
	}
	return cs, cons, f == "nilcons"
}

func (w *haltWorld) tmStates(f string) (exported.ClientState, exported.ConsensusState, bool) {
	l := w.L
	cs := l.Synth.ClientState(1, 5)
	var cons exported.ConsensusState = l.Synth.Header(1, 5).ConsensusState()
	switch f {
	case "wrongcons":
		cons = &tsstypes.ConsensusState{}
	case "zeroheight":
		cs.LatestHeight = clienttypes.NewHeight(1, 0)
	case "notrust":
		cs.TrustLevel = xibctmtypes.Fraction{Numerator: 0, Denominator: 0}
	case "nospecs":
		cs.ProofSpecs = nil
	}
	return cs, cons, f == "nilcons"
}

func (w *haltWorld) tssStates(f string) (exported.ClientState, exported.ConsensusState, bool) {
	cs, cons0 := w.L.tssState()
	var cons exported.ConsensusState = cons0
	switch f {
	case "wrongcons":
		cons = w.L.Synth.Header(1, 5).ConsensusState()
	case "badaddr":
		cs.TssAddress = "not-an-address"
	case "nopubkey":
		cs.Pubkey, cs.PartPubkeys = nil, nil
	}
	return cs, cons, f == "nilcons"
}

func (w *haltWorld) statesFor(ty string, cs M) (exported.ClientState, exported.ConsensusState, bool) {
	switch ty {
	case "tm":
		return w.tmStates(str(cs["f"]))
	case "tss":
		return w.tssStates(str(cs["f"]))
	case "bsc":
		return w.bscStates(cs)
	}
	return w.ethStates(str(cs["f"]))
}

// validStates returns a valid client of the type (used to prepare the module state of a case).
func (w *haltWorld) validStates(ty string) (exported.ClientState, exported.ConsensusState) {
	switch ty {
	case "tm":
		a, b, _ := w.tmStates("valid")
		return a, b
	case "tss":
		a, b, _ := w.tssStates("valid")
		return a, b
	case "bsc":
		a, b, _ := w.bscStates(M{"epoch": "4", "height": "epochmult", "extra": "vals", "sig": "good", "shape": "ok"})
		return a, b
	}
	a, b, _ := w.ethStates("valid")
	return a, b
}

func (w *haltWorld) runClient(cs M) (submit, res, msg, pre, post string) {
	c := w.L.C
	outer, _ := c.Ctx().CacheContext()
	name := "cli-halt"
	ty := str(cs["ty"])
	switch str(cs["st"]) {
	case "sametype", "expired":
		a, b := w.validStates(ty)
		execIn(c, outer, clientProposal("Create", name, a, b, false))
	case "foreigncons":
		// a client of the type, then an upgrade that keeps a valid client state of the type but carries the consensus state of
		// another light-client type (with the same fields where the types have them)
		a, b := w.validStates(ty)
		execIn(c, outer, clientProposal("Create", name, a, b, false))
		var foreign exported.ConsensusState = &tsstypes.ConsensusState{}
		switch x := b.(type) {
		case *bsctypes.ConsensusState:
			foreign = &ethtypes.ConsensusState{Timestamp: x.Timestamp, Height: x.Height, Root: x.Root}
		case *ethtypes.ConsensusState:
			foreign = &bsctypes.ConsensusState{Timestamp: x.Timestamp, Height: x.Height, Root: x.Root}
		}
		execIn(c, outer, clientProposal("Upgrade", name, a, foreign, false))
	case "othertype":
		other := "tss"
		if ty == "tss" {
			other = "tm"
		}
		a, b := w.validStates(other)
		execIn(c, outer, clientProposal("Create", name, a, b, false))
	}
	st, cons, nilCons := w.statesFor(ty, cs)
	if str(cs["st"]) == "expired" {
		// a trusting period of one second: every stored consensus state is older than that at execution time
		switch x := st.(type) {
		case *bsctypes.ClientState:
			x.TrustingPeriod = 1
		case *ethtypes.ClientState:
			x.TrustingPeriod = 1
		case *xibctmtypes.ClientState:
			x.TrustingPeriod = time.Second
		}
	}
	pre = ctxDigest(c, outer, "xibc")
	submit, res, msg = execIn(c, outer, clientProposal(str(cs["kind"]), name, st, cons, nilCons))
	post = ctxDigest(c, outer, "xibc")
	return
}

func rvJSON(cs M) string {
	coin := func(i int) string {
		denom := map[string]string{"lower": "atele", "upper": "ATELE", "empty": "", "absent": "\x00", "short": "x", "badchar": "a!b"}[str(cs["denom"])]
		if i == 1 && str(cs["list"]) == "two" && denom == "atele" {
			denom = "btok"
		}
		amount := map[string]string{"present": "\"2\"", "absent": "", "null": "null", "negative": "\"-1\"", "nonnumeric": "\"abc\"", "zero": "\"0\"",
			"huge": "\"1000000000000000000000000000000000000000\""}[str(cs["amount"])]
		var fields []string
		if denom != "\x00" {
			fields = append(fields, fmt.Sprintf("\"denom\":%q", denom))
		}
		if amount != "" {
			fields = append(fields, "\"amount\":"+amount)
		}
		return "{" + strings.Join(fields, ",") + "}"
	}
	switch str(cs["list"]) {
	case "empty":
		return "[]"
	case "one":
		return "[" + coin(0) + "]"
	case "three": // three entries of one denomination (the running total must cover all earlier ones)
		return "[" + coin(0) + "," + coin(0) + "," + coin(0) + "]"
	}
	return "[" + coin(0) + "," + coin(1) + "]"
}

func (w *haltWorld) runParam(cs M) (submit, res, msg, block, pre, post string) {
	funder := NewAcct("funder")
	extra := sdk.NewCoins(sdk.NewInt64Coin("atele", 10), sdk.NewInt64Coin("btok", 10))
	pool := sdk.NewCoins()
	if str(cs["pool"]) == "small" {
		pool = sdk.NewCoins(sdk.NewInt64Coin("atele", 3), sdk.NewInt64Coin("btok", 1))
	}
	c := NewChain(ChainOpts{ChainID: "teleport_9000-10", Accts: []Acct{funder}, Coins: map[string]sdk.Coins{"funder": extra},
		Mutate: func(a *app.Teleport, gs simapp.GenesisState) {
			g := rvestingtypes.DefaultGenesisState()
			g.Params.EnableVesting = false // the pool keeps its genesis balance until the proposal's own values take effect
			g.Params.PerBlockReward = sdk.NewCoins(sdk.NewInt64Coin("atele", 1))
			if len(pool) > 0 {
				g.From, g.InitReward = funder.Acc.String(), pool
			}
			gs[rvestingtypes.ModuleName] = a.AppCodec().MustMarshalJSON(g)
		}})
	var changes []paramproposal.ParamChange
	if str(cs["sub"]) == "rvesting" {
		changes = append(changes, paramproposal.NewParamChange(rvestingtypes.ModuleName, string(rvestingtypes.KeyPerBlockReward), rvJSON(cs)))
		changes = append(changes, paramproposal.NewParamChange(rvestingtypes.ModuleName, string(rvestingtypes.KeyEnableVesting),
			map[string]string{"true": "true", "false": "false", "garbage": "\"maybe\""}[str(cs["enable"])]))
	} else {
		changes = append(changes, paramproposal.NewParamChange(aggtypes.ModuleName, str(cs["key"]),
			map[string]string{"true": "true", "false": "false", "garbage": "\"x\"", "null": "null"}[str(cs["val"])]))
	}
	content := paramproposal.NewParameterChangeProposal("t", "d", changes)
	pre = c.Digest("params")
	submit, res, msg = execIn(c, c.Ctx(), content)
	post = c.Digest("params")
	block = "none"
	if res == "ok" {
		c.Panicked = ""
		c.Commit()
		c.Commit()
		c.CommitAdvance(time.Second)
		block = "ok"
		if c.Panicked != "" {
			block, msg = "panic", c.Panicked
		}
	}
	return
}

func (w *haltWorld) runAgg(cs M) (submit, res, msg, pre, post string) {
	a := w.Agg
	c := a.C
	outer, _ := c.Ctx().CacheContext()
	x1, x2, xd := a.Addr["x1"], a.Addr["x2"], a.Addr["xd"]
	noCode := common.HexToAddress("0x00000000000000000000000000000000deadbeef")
	md := func(base string) banktypes.Metadata { return a.metadata(base, base) }
	var content govtypes.Content
	p, f := str(cs["p"]), str(cs["f"])
	switch p {
	case "RegisterCoin":
		m := md("acoin")
		switch f {
		case "evmdenom":
			m = md("stake")
		case "nosupply":
			m = md("zcoin")
		case "bigexponent":
			m.DenomUnits = append(m.DenomUnits, &banktypes.DenomUnit{Denom: "megaacoin", Exponent: 300})
			m.DenomUnits[0].Exponent = 0
		case "nounits":
			m.DenomUnits = nil
		case "ibcnochannel":
			m = md("ibc/27394FB092D2ECCD56123C74F36E4C1F926001CEADA9CA97EA622B25F41E5EB2")
		case "again", "againfeweraliases", "againmorealiases":
			// a second proposal for the same coin after a first one stored its bank metadata (the name differs from the base
			// denomination, so the "already registered" test by name does not stop it): the metadata comparison runs
			m.Name = "Coin acoin"
			first := m
			first.DenomUnits = []*banktypes.DenomUnit{{Denom: m.DenomUnits[0].Denom, Exponent: m.DenomUnits[0].Exponent, Aliases: []string{"a1"}}}
			second := m
			second.DenomUnits = []*banktypes.DenomUnit{{Denom: m.DenomUnits[0].Denom, Exponent: m.DenomUnits[0].Exponent, Aliases: []string{"a1"}}}
			switch f {
			case "againfeweraliases":
				second.DenomUnits[0].Aliases = nil
			case "againmorealiases":
				second.DenomUnits[0].Aliases = []string{"a1", "a2"}
			}
			execIn(c, outer, aggtypes.NewRegisterCoinProposal("t", "d", first))
			m = second
		}
		content = aggtypes.NewRegisterCoinProposal("t", "d", m)
	case "AddCoin":
		execIn(c, outer, aggtypes.NewRegisterERC20Proposal("t", "d", x1.Hex()))
		m, addr := md("bcoin"), x1.Hex()
		switch f {
		case "badaddr":
			addr = "0x12"
		case "unknownpair":
			addr = x2.Hex()
		case "nosupply":
			m = md("zcoin")
		}
		content = aggtypes.NewAddCoinProposal("t", "d", m, addr)
	case "RegisterERC20":
		addr := x1.Hex()
		switch f {
		case "zeroaddr":
			addr = common.Address{}.Hex()
		case "notcontract":
			addr = noCode.Hex()
		case "noviews":
			addr = endpAddr.Hex() // a contract without the ERC-20 views
		case "registered":
			execIn(c, outer, aggtypes.NewRegisterERC20Proposal("t", "d", x1.Hex()))
		}
		content = aggtypes.NewRegisterERC20Proposal("t", "d", addr)
	case "Toggle":
		execIn(c, outer, aggtypes.NewRegisterERC20Proposal("t", "d", x1.Hex()))
		tok := x1.Hex()
		switch f {
		case "denom":
			tok = a.voucher("x1")
		case "unknown":
			tok = x2.Hex()
		case "garbage":
			tok = "!!"
		}
		content = aggtypes.NewToggleTokenRelayProposal("t", "d", tok)
	case "UpdateERC20":
		execIn(c, outer, aggtypes.NewRegisterERC20Proposal("t", "d", x1.Hex()))
		o, n := x1.Hex(), x2.Hex()
		switch f {
		case "unknownold":
			o = xd.Hex()
		case "notcontract":
			n = noCode.Hex()
		case "same":
			n = o
		}
		content = aggtypes.NewUpdateTokenPairERC20Proposal("t", "d", o, n)
	case "Trace":
		addr, origin, chain, scale := x1.Hex(), "0xabc", "some-chain", uint64(0)
		switch f {
		case "notcontract":
			addr = noCode.Hex()
		case "blankorigin":
			origin = " "
		case "bigscale":
			scale = 200
		case "twice":
			execIn(c, outer, aggtypes.NewRegisterERC20TraceProposal("t", "d", addr, origin, chain, 0))
		}
		content = aggtypes.NewRegisterERC20TraceProposal("t", "d", addr, origin, chain, scale)
	case "EnableLimit":
		execIn(c, outer, aggtypes.NewRegisterERC20TraceProposal("t", "d", x1.Hex(), "0xabc", "some-chain", 0))
		addr := x1.Hex()
		period, limit, max, min := "100", "1000", "500", "10"
		switch f {
		case "zero":
			period = "0"
		case "negative":
			min = "-5"
		case "nonnumeric":
			max = "many"
		case "huge":
			limit = new(big.Int).Lsh(big.NewInt(1), 300).String()
		case "notbound":
			addr = x2.Hex()
		}
		content = aggtypes.NewEnableTimeBasedSupplyLimitProposal("t", "d", addr, period, limit, max, min)
	case "DisableLimit":
		execIn(c, outer, aggtypes.NewRegisterERC20TraceProposal("t", "d", x1.Hex(), "0xabc", "some-chain", 0))
		addr := x1.Hex()
		switch f {
		case "valid":
			execIn(c, outer, aggtypes.NewEnableTimeBasedSupplyLimitProposal("t", "d", addr, "100", "1000", "500", "10"))
		case "notcontract":
			addr = noCode.Hex()
		}
		content = aggtypes.NewDisableTimeBasedSupplyLimitProposal("t", "d", addr)
	}
	pre = ctxDigest(c, outer, "aggregate", "bank", "evm")
	submit, res, msg = execIn(c, outer, content)
	post = ctxDigest(c, outer, "aggregate", "bank", "evm")
	return
}

// runGenesis: a genesis state of one module (by classes).  submit = "ok" when the module's own genesis validation accepts
// it (an error or a panic there means it is refused); res = what InitChain of a fresh application does with it.
func (w *haltWorld) runGenesis(cs M) (submit, res, msg string) {
	accts := []Acct{NewAcct("host/user"), NewAcct("relayer"), NewAcct("outsider"), NewAcct("tss")}
	ref := w.L.C
	cdc := ref.App.AppCodec()
	sub := str(cs["sub"])
	var raw json.RawMessage
	switch sub {
	case "aggregate":
		gs := aggtypes.DefaultGenesisState()
		a1, a2 := "0x00000000000000000000000000000000000000a1", "0x00000000000000000000000000000000000000a2"
		pair := func(addr string, denoms ...string) aggtypes.TokenPair {
			return aggtypes.TokenPair{ERC20Address: addr, Denoms: denoms, Enabled: true, ContractOwner: aggtypes.OWNER_MODULE}
		}
		switch str(cs["f"]) {
		case "one":
			gs.TokenPairs = []aggtypes.TokenPair{pair(a1, "acoin")}
		case "two":
			gs.TokenPairs = []aggtypes.TokenPair{pair(a1, "acoin", "bcoin"), pair(a2, "ccoin")}
		case "nodenoms":
			gs.TokenPairs = []aggtypes.TokenPair{pair(a1)}
		case "emptydenom":
			gs.TokenPairs = []aggtypes.TokenPair{pair(a1, "")}
		case "dupdenom":
			gs.TokenPairs = []aggtypes.TokenPair{pair(a1, "acoin"), pair(a2, "acoin")}
		case "dupsecond":
			gs.TokenPairs = []aggtypes.TokenPair{pair(a1, "acoin", "bcoin"), pair(a2, "ccoin", "bcoin")}
		case "duperc20":
			gs.TokenPairs = []aggtypes.TokenPair{pair(a1, "acoin"), pair(a1, "bcoin")}
		case "badaddr":
			gs.TokenPairs = []aggtypes.TokenPair{pair("not-an-address", "acoin")}
		case "noowner":
			p := pair(a1, "acoin")
			p.ContractOwner = aggtypes.OWNER_UNSPECIFIED
			gs.TokenPairs = []aggtypes.TokenPair{p}
		case "paramsonly":
			gs.Params.EnableAggregate = false
		}
		raw = cdc.MustMarshalJSON(gs)
	case "rvesting":
		gs := rvestingtypes.DefaultGenesisState()
		switch str(cs["from"]) {
		case "funded", "poor":
			gs.From = accts[0].Acc.String()
		case "unknown":
			gs.From = NewAcct("nobody").Acc.String()
		case "invalid":
			gs.From = "not-a-bech32-address"
		}
		big := sdk.NewInt(1)
		if str(cs["from"]) == "poor" || str(cs["from"]) == "unknown" {
			big, _ = sdk.NewIntFromString("1000000000000000000000000000000000000")
		}
		switch str(cs["reward"]) {
		case "small":
			gs.InitReward = sdk.Coins{sdk.NewCoin(sdk.DefaultBondDenom, big)}
		case "big":
			b, _ := sdk.NewIntFromString("1000000000000000000000000000000000000")
			gs.InitReward = sdk.Coins{sdk.NewCoin(sdk.DefaultBondDenom, b)}
		case "zero":
			gs.InitReward = sdk.Coins{sdk.Coin{Denom: sdk.DefaultBondDenom, Amount: sdk.ZeroInt()}}
		case "twodenoms":
			gs.InitReward = sdk.Coins{sdk.NewCoin("aaa", big), sdk.NewCoin(sdk.DefaultBondDenom, big)}
		case "unsorted":
			gs.InitReward = sdk.Coins{sdk.NewCoin(sdk.DefaultBondDenom, big), sdk.NewCoin("aaa", big)}
		}
		raw = cdc.MustMarshalJSON(gs)
	default:
		gs := xibctypes.DefaultGenesisState()
		tssCS, _ := w.L.tssState()
		any, err := clienttypes.PackClientState(tssCS)
		must(err)
		rel := accts[1].Acc.String()
		switch str(cs["f"]) {
		case "tssclient":
			gs.ClientGenesis.Clients = []clienttypes.IdentifiedClientState{{ChainName: "gen-tss", ClientState: any}}
		case "clientnocons":
			cst, _ := w.L.states("tm", 1, 2)
			a2, err := clienttypes.PackClientState(cst)
			must(err)
			gs.ClientGenesis.Clients = []clienttypes.IdentifiedClientState{{ChainName: "gen-tm", ClientState: a2}}
		case "consnoclient":
			_, cons := w.L.states("tm", 1, 2)
			ca, err := clienttypes.PackConsensusState(cons)
			must(err)
			gs.ClientGenesis.ClientsConsensus = []clienttypes.ClientConsensusStates{{ChainName: "gen-tm", ConsensusStates: []clienttypes.ConsensusStateWithHeight{{Height: clienttypes.NewHeight(0, 2), ConsensusState: ca}}}}
		case "metanoclient":
			gs.ClientGenesis.ClientsMetadata = []clienttypes.IdentifiedGenesisMetadata{{ChainName: "gen-tm", Metadata: []clienttypes.GenesisMetadata{{Key: []byte("k"), Value: []byte("v")}}}}
		case "relayermismatch":
			gs.ClientGenesis.Relayers = []clienttypes.IdentifiedRelayer{{Address: rel, Chains: []string{"one", "two"}, Addresses: []string{"a"}}}
		case "emptynative":
			gs.ClientGenesis.NativeChainName = ""
		case "duprelayer":
			gs.ClientGenesis.Relayers = []clienttypes.IdentifiedRelayer{{Address: rel, Chains: []string{"one"}, Addresses: []string{"a"}}, {Address: rel, Chains: []string{"two"}, Addresses: []string{"b"}}}
		}
		raw = cdc.MustMarshalJSON(gs)
	}
	// the module's own genesis validation
	submit = func() (r string) {
		defer func() {
			if p := recover(); p != nil {
				r, msg = "refused", fmt.Sprint("validation panic: ", p)
			}
		}()
		var err error
		switch sub {
		case "aggregate":
			err = (aggregatemodule.AppModuleBasic{}).ValidateGenesis(cdc, ref.TxConfig, raw)
		case "rvesting":
			err = (rvestingmodule.AppModuleBasic{}).ValidateGenesis(cdc, ref.TxConfig, raw)
		default:
			err = (xibcmodule.AppModuleBasic{}).ValidateGenesis(cdc, ref.TxConfig, raw)
		}
		if err != nil {
			msg = err.Error()
			return "refused"
		}
		return "ok"
	}()
	// InitChain of a fresh application with that module state
	res = func() (r string) {
		defer func() {
			if p := recover(); p != nil {
				r, msg = "panic", fmt.Sprint(p)
			}
		}()
		NewChain(ChainOpts{ChainID: "teleport_9000-10", Accts: accts, NoChainName: true, NoCommit: true,
			Mutate: func(a *app.Teleport, g simapp.GenesisState) {
				g[map[string]string{"aggregate": "aggregate", "rvesting": "rvesting", "xibc": "xibc"}[sub]] = raw
			}})
		return "ok"
	}()
	return submit, res, msg
}

func driveHalt(t *testing.T, in, out string, seed int64) {
	cases := ReadBehaviours(in)
	tw := NewTraceWriter(out)
	defer tw.Close()
	w := &haltWorld{L: NewLC(), Keys: newBSCKeys(), Agg: newAggWorld()}
	for bi, b := range cases {
		cs := b[0]
		line := M{"ev": "Exec", "b": bi, "i": 0, "args": cs, "block": "none"}
		var submit, res, msg, pre, post string
		switch str(cs["fam"]) {
		case "client":
			submit, res, msg, pre, post = w.runClient(cs)
		case "param":
			var block string
			submit, res, msg, block, pre, post = w.runParam(cs)
			line["block"] = block
		case "agg":
			submit, res, msg, pre, post = w.runAgg(cs)
		case "genesis":
			submit, res, msg = w.runGenesis(cs)
		}
		line["submit"], line["res"], line["msg"] = submit, res, clip(msg)
		line["dg"] = M{"pre": pre, "post": post}
		sig := str(cs["fam"])
		for _, k := range []string{"ty", "kind", "sub", "p", "f", "epoch", "shape", "amount", "list", "denom", "key", "val", "from", "reward"} {
			if v, ok := cs[k]; ok {
				sig += "/" + k + "=" + str(v)
			}
		}
		if str(cs["fam"]) == "genesis" && res == "panic" {
			// the kind of panic is part of the signature, so that a known finding names one kind only
			kind := "other"
			if strings.Contains(msg, "insufficient funds") {
				kind = "insufficient-funds"
			}
			sig += "/panic=" + kind
		}
		line["sig"] = sig
		tw.Emit(line)
	}
}
