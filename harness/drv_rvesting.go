package harness

import (
	"encoding/json"
	"fmt"
	banktypes "github.com/cosmos/cosmos-sdk/x/bank/types"
	"math/big"
	"sort"
	"testing"

	"github.com/cosmos/cosmos-sdk/simapp"
	sdk "github.com/cosmos/cosmos-sdk/types"
	authtypes "github.com/cosmos/cosmos-sdk/x/auth/types"
	distrtypes "github.com/cosmos/cosmos-sdk/x/distribution/types"
	govtypes "github.com/cosmos/cosmos-sdk/x/gov/types"
	paramproposal "github.com/cosmos/cosmos-sdk/x/params/types/proposal"

	"github.com/teleport-network/teleport/app"
	rvestingtypes "github.com/teleport-network/teleport/x/rvesting/types"
)

func init() { Drivers["rvesting"] = driveRVesting }

var rvDenoms = []string{"atele", "btok"}
var rvOther = []string{"evm", "xibc", "aggregate", "gov", "slashing", "ibc", "transfer"}

const rvFunderBalance = 10

// rvUnit: one model unit is 2^64+1 base units, so that every non-zero amount of the behaviours lies above 2^63 and 2^64
// (amounts that do not fit machine integers) while sums and minima stay exact multiples.
var rvUnit = new(big.Int).Add(new(big.Int).Lsh(big.NewInt(1), 64), big.NewInt(1))

func rvCoin(d string, n int64) sdk.Coin {
	return sdk.NewCoin(d, sdk.NewIntFromBigInt(new(big.Int).Mul(big.NewInt(n), rvUnit)))
}

// rvUnits: base units -> model units (-999: not a multiple)
func rvUnits(x sdk.Int) int64 {
	q, r := new(big.Int).QuoRem(x.BigInt(), rvUnit, new(big.Int))
	if r.Sign() != 0 || !q.IsInt64() {
		return -999
	}
	return q.Int64()
}

// rvState projects the application to RVesting.tla's state.
func rvState(c *Chain) M {
	ctx := c.Ctx()
	poolAddr := authtypes.NewModuleAddress(rvestingtypes.ModuleName)
	collAddr := authtypes.NewModuleAddress(authtypes.FeeCollectorName)
	distAddr := authtypes.NewModuleAddress(distrtypes.ModuleName)
	pool, sink, supply, rest := M{}, M{}, M{}, M{}
	for _, d := range rvDenoms {
		p := rvUnits(c.Bal(poolAddr, d))
		s := rvUnits(c.Bal(collAddr, d).Add(c.Bal(distAddr, d)))
		sup := rvUnits(c.App.BankKeeper.GetSupply(ctx, d).Amount)
		pool[d], sink[d], supply[d], rest[d] = p, s, sup, sup-p-s
	}
	ps := c.App.RVestingKeeper.GetParams(ctx)
	rw := []M{}
	for _, co := range ps.PerBlockReward {
		rw = append(rw, M{"denom": co.Denom, "amt": rvUnits(co.Amount)})
	}
	return M{"pool": pool, "sink": sink, "supply": supply, "rest": rest,
		"params": M{"enabled": ps.EnableVesting, "reward": rw}}
}

// rvMoved sums, per denomination, the bank transfers out of the pool account reported by the last BeginBlock.
func rvMoved(c *Chain) M {
	poolAddr := authtypes.NewModuleAddress(rvestingtypes.ModuleName).String()
	out := M{}
	for _, d := range rvDenoms {
		out[d] = int64(0)
	}
	for _, ev := range c.LastBegin.Events {
		if ev.Type != "transfer" {
			continue
		}
		var sender, amount string
		for _, a := range ev.Attributes {
			switch string(a.Key) {
			case "sender":
				sender = string(a.Value)
			case "amount":
				amount = string(a.Value)
			}
		}
		if sender != poolAddr {
			continue
		}
		coins, err := sdk.ParseCoinsNormalized(amount)
		if err != nil {
			continue
		}
		for _, co := range coins {
			if v, ok := out[co.Denom]; ok {
				out[co.Denom] = v.(int64) + rvUnits(co.Amount)
			}
		}
	}
	return out
}

func rvParamsFromModel(p M) (bool, string) {
	rw := p["reward"].([]interface{})
	type coin struct {
		Denom  string `json:"denom"`
		Amount string `json:"amount"`
	}
	var cs []coin
	for _, e := range rw {
		m := e.(M)
		cs = append(cs, coin{Denom: str(m["denom"]), Amount: new(big.Int).Mul(big.NewInt(num(m["amt"])), rvUnit).String()})
	}
	bz, _ := json.Marshal(cs)
	return p["enabled"].(bool), string(bz)
}

// ExecProposal executes a proposal content the way gov.EndBlocker does: routed
// handler, cache context, written only when the handler returns nil.  A panic is
// reported, not hidden (in production nothing recovers it).
func (c *Chain) ExecProposal(content govtypes.Content) (res string, msg string) {
	defer func() {
		if r := recover(); r != nil {
			res, msg = "panic", fmt.Sprint(r)
		}
	}()
	if err := content.ValidateBasic(); err != nil {
		return "invalid", err.Error()
	}
	if !c.App.GovKeeper.Router().HasRoute(content.ProposalRoute()) {
		return "invalid", "no route"
	}
	handler := c.App.GovKeeper.Router().GetRoute(content.ProposalRoute())
	cacheCtx, write := c.Ctx().CacheContext()
	cacheCtx = cacheCtx.WithEventManager(sdk.NewEventManager())
	if err := handler(cacheCtx, content); err != nil {
		DetRecord("proposal|err|"+err.Error(), nil)
		return "err", err.Error()
	}
	write()
	DetRecord("proposal|ok", cacheCtx.EventManager().ABCIEvents())
	return "ok", ""
}

func driveRVesting(t *testing.T, in, out string, seed int64) {
	behaviours := ReadBehaviours(in)
	tw := NewTraceWriter(out)
	defer tw.Close()
	funder := NewAcct("funder")
	for bi, b := range behaviours {
		init := b[0]
		initPool := init["pool"].(M)
		var reward sdk.Coins
		keys := make([]string, 0)
		for d := range initPool {
			keys = append(keys, d)
		}
		sort.Strings(keys)
		for _, d := range keys {
			if n := num(initPool[d]); n > 0 {
				reward = append(reward, rvCoin(d, n))
			}
		}
		extra := sdk.NewCoins()
		for _, d := range rvDenoms {
			extra = extra.Add(rvCoin(d, rvFunderBalance))
		}
		c := NewChain(ChainOpts{ChainID: "teleport_9000-10", Accts: []Acct{funder}, Coins: map[string]sdk.Coins{"funder": extra},
			Mutate: func(a *app.Teleport, gs simapp.GenesisState) {
				g := rvestingtypes.DefaultGenesisState()
				g.Params.EnableVesting = false
				if len(reward) > 0 {
					g.From = funder.Acc.String()
					g.InitReward = reward
				}
				gs[rvestingtypes.ModuleName] = a.AppCodec().MustMarshalJSON(g)
			}})
		RoundTripAtEnd("rvesting", bi, map[string]*Chain{"host": c})
		// set-up (not under test): install the behaviour's initial parameters
		en, rw := rvParamsFromModel(init["params"].(M))
		var coins sdk.Coins
		must(json.Unmarshal([]byte(rw), &coins))
		c.App.RVestingKeeper.SetParams(c.Ctx(), rvestingtypes.Params{EnableVesting: en, PerBlockReward: coins})
		zero := M{}
		for _, d := range rvDenoms {
			zero[d] = 0
		}
		tw.Emit(M{"ev": "Reset", "b": bi, "i": 0, "res": "ok", "st": rvState(c), "moved": zero, "other": c.Digest(rvOther...)})
		for si, step := range b[1:] {
			act := str(step["act"])
			line := M{"ev": act, "b": bi, "i": si + 1, "sig": act}
			switch act {
			case "Block":
				c.Panicked = ""
				c.Commit()
				line["moved"] = rvMoved(c)
				if c.Panicked != "" {
					line["res"], line["msg"] = "panic", c.Panicked
				} else {
					line["res"] = "ok"
				}
			case "ParamChange":
				en, rw := rvParamsFromModel(step["params"].(M))
				content := paramproposal.NewParameterChangeProposal("t", "d", []paramproposal.ParamChange{
					paramproposal.NewParamChange(rvestingtypes.ModuleName, string(rvestingtypes.KeyPerBlockReward), rw),
					paramproposal.NewParamChange(rvestingtypes.ModuleName, string(rvestingtypes.KeyEnableVesting), fmt.Sprint(en)),
				})
				res, msg := c.ExecProposal(content)
				line["res"], line["msg"] = res, msg
				line["moved"] = zero
				line["args"] = step["params"]
			case "BankSwitch":
				// the bank module's transfer switches, changed by a parameter-change proposal (they concern transfers between
				// accounts; nothing a module moves between module accounts)
				d, on := str(step["denom"]), step["on"] == true
				bp := c.App.BankKeeper.GetParams(c.Ctx())
				var change paramproposal.ParamChange
				if d == "default" {
					change = paramproposal.NewParamChange(banktypes.ModuleName, string(banktypes.KeyDefaultSendEnabled), fmt.Sprint(on))
				} else {
					list := []*banktypes.SendEnabled{}
					for _, se := range bp.SendEnabled {
						if se.Denom != d {
							list = append(list, se)
						}
					}
					list = append(list, &banktypes.SendEnabled{Denom: d, Enabled: on})
					bz, err := json.Marshal(list)
					must(err)
					change = paramproposal.NewParamChange(banktypes.ModuleName, string(banktypes.KeySendEnabled), string(bz))
				}
				res, msg := c.ExecProposal(paramproposal.NewParameterChangeProposal("t", "d", []paramproposal.ParamChange{change}))
				line["res"], line["msg"] = res, msg
				line["moved"] = zero
			default:
				t.Fatalf("unknown action %q", act)
			}
			line["st"] = rvState(c)
			line["other"] = c.Digest(rvOther...)
			tw.Emit(line)
			if line["res"] == "panic" {
				break // the chain has halted; nothing after this is meaningful
			}
		}
	}
}
