package harness

import (
	"encoding/hex"
	"fmt"
	"github.com/teleport-network/teleport/x/aggregate"
	"math/big"
	"sort"
	"strings"
	"testing"

	sdk "github.com/cosmos/cosmos-sdk/types"
	authtypes "github.com/cosmos/cosmos-sdk/x/auth/types"
	banktypes "github.com/cosmos/cosmos-sdk/x/bank/types"
	paramproposal "github.com/cosmos/cosmos-sdk/x/params/types/proposal"

	"github.com/ethereum/go-ethereum/common"
	"github.com/ethereum/go-ethereum/crypto"

	"github.com/tharsis/ethermint/x/evm/statedb"

	erc20contracts "github.com/teleport-network/teleport/syscontracts/erc20"
	aggtypes "github.com/teleport-network/teleport/x/aggregate/types"
)

func init() { Drivers["aggregate"] = driveAggregate }

const aggStart = 5

// AggWorld is one chain with two native coins, standard and misbehaving external ERC-20 contracts.
type AggWorld struct {
	C      *Chain
	Coins  []string
	Addr   map[string]common.Address // abstract contract name -> address
	Name   map[common.Address]string
	Mods   []string // abstract names for module-deployed contracts, in order
	nmods  int
	Denoms []string
}

func newAggWorld() *AggWorld {
	user := NewAcct("agg/user")
	extra := sdk.NewCoins(sdk.NewInt64Coin("acoin", aggStart), sdk.NewInt64Coin("bcoin", aggStart))
	c := NewChain(ChainOpts{ChainID: "teleport_9000-10", Accts: []Acct{user}, Coins: map[string]sdk.Coins{user.Name: extra}})
	w := &AggWorld{C: c, Coins: []string{"acoin", "bcoin"}, Addr: map[string]common.Address{}, Name: map[common.Address]string{}, Mods: []string{"m1", "m2"}}
	for _, n := range []string{"x1", "x2", "x3"} {
		w.reg(n, w.deploy(erc20contracts.ERC20MinterBurnerDecimalsContract.Bin, mustPack(erc20contracts.ERC20MinterBurnerDecimalsContract.ABI, "", "name", "symbol", uint8(18))))
		r := c.DeliverEth(user, addrp(w.Addr[n]), nil, mustPack(erc20ABI, "mint", user.Eth, big.NewInt(aggStart)))
		if !r.OK() {
			panic("mint: " + r.Log + r.VMError)
		}
	}
	// xb: a token whose transfer pays a bonus (more than requested from an amount of 2 on); the user holds some
	w.reg("xb", w.deploy(bonusTokenCode(), nil))
	if r := c.DeliverEth(user, addrp(w.Addr["xb"]), nil, mustPack(erc20ABI, "mint", user.Eth, big.NewInt(aggStart))); !r.OK() {
		panic("mint xb: " + r.Log + r.VMError)
	}
	w.reg("xd", w.deploy(erc20contracts.ERC20MaliciousDelayedContract.Bin, mustPack(erc20contracts.ERC20MaliciousDelayedContract.ABI, "", big.NewInt(aggStart))))
	w.reg("xm", w.deploy(erc20contracts.ERC20DirectBalanceManipulationContract.Bin, mustPack(erc20contracts.ERC20DirectBalanceManipulationContract.ABI, "", big.NewInt(aggStart))))
	w.Denoms = append([]string{}, w.Coins...)
	for _, n := range []string{"x1", "x2", "x3", "xb", "xd", "xm"} {
		w.Denoms = append(w.Denoms, w.voucher(n))
	}
	c.Commit()
	return w
}

func (w *AggWorld) reg(n string, a common.Address) {
	w.Addr[n] = a
	w.Name[a] = n
}

func (w *AggWorld) voucher(n string) string { return aggtypes.CreateDenom(w.Addr[n].String()) }

// absDenom maps a real denomination to the specification's name ("agg/x1" for vouchers).
func (w *AggWorld) absDenom(d string) string {
	if strings.HasPrefix(d, aggtypes.ModuleName+"/") {
		a := common.HexToAddress(strings.TrimPrefix(d, aggtypes.ModuleName+"/"))
		if n, ok := w.Name[a]; ok {
			return "agg/" + n
		}
	}
	return d
}

func (w *AggWorld) realDenom(d string) string {
	if strings.HasPrefix(d, "agg/") {
		return w.voucher(strings.TrimPrefix(d, "agg/"))
	}
	return d
}

func (w *AggWorld) absContract(a common.Address) string {
	if n, ok := w.Name[a]; ok {
		return n
	}
	return "?" + strings.ToLower(a.Hex())
}

func (w *AggWorld) contractAddr(n string) common.Address {
	if a, ok := w.Addr[n]; ok {
		return a
	}
	// a module contract that does not exist yet: a fixed unused address
	return common.BytesToAddress(crypto.Keccak256([]byte("undeployed/" + n))[12:])
}

func (w *AggWorld) deploy(bin []byte, ctor []byte) common.Address {
	user := w.C.Accts[0]
	nonce := w.C.App.EvmKeeper.GetNonce(w.C.Ctx(), user.Eth)
	addr := crypto.CreateAddress(user.Eth, nonce)
	r := w.C.DeliverEth(user, nil, nil, append(append([]byte{}, bin...), ctor...))
	if !r.OK() {
		panic("deploy failed: " + r.Log + r.VMError)
	}
	return addr
}

func (w *AggWorld) metadata(base, name string) banktypes.Metadata {
	n := name
	if name == "Name" {
		n = "Coin " + base
	}
	return banktypes.Metadata{Description: "native coin " + base, Base: base, Display: base, Name: n, Symbol: strings.ToUpper(base),
		DenomUnits: []*banktypes.DenomUnit{{Denom: base, Exponent: 0}}}
}

func (w *AggWorld) tokenBal(contract, who common.Address) int64 {
	out, err := w.C.View(erc20ABI, contract, "balanceOf", who)
	if err != nil || len(out) == 0 {
		return 0
	}
	return out[0].(*big.Int).Int64()
}

func (w *AggWorld) tokenSupply(contract common.Address) int64 {
	out, err := w.C.View(erc20ABI, contract, "totalSupply")
	if err != nil || len(out) == 0 {
		return 0
	}
	return out[0].(*big.Int).Int64()
}

func (w *AggWorld) pairID(erc20 string, denom0 string) []interface{} {
	return []interface{}{w.absContract(common.HexToAddress(erc20)), w.absDenom(denom0)}
}

// project reads the registry by RAW iteration of the three store prefixes (not through the getters under test).
func (w *AggWorld) project() M {
	c := w.C
	ctx := c.Ctx()
	k := c.App.AggregateKeeper
	idName := map[string][]interface{}{}
	pairs := []interface{}{}
	for _, kv := range sortedKV(c.DumpStore("aggregate", aggtypes.KeyPrefixTokenPair)) {
		var p aggtypes.TokenPair
		vb, _ := hex.DecodeString(kv[1])
		c.App.AppCodec().MustUnmarshal(vb, &p)
		denoms := []string{}
		for _, d := range p.Denoms {
			denoms = append(denoms, w.absDenom(d))
		}
		owner := "external"
		if p.ContractOwner == aggtypes.OWNER_MODULE {
			owner = "module"
		}
		id := w.pairID(p.ERC20Address, p.Denoms[0])
		kb, _ := hex.DecodeString(kv[0])
		idName[hex.EncodeToString(kb[1:])] = id
		stored := hex.EncodeToString(kb[1:]) == hex.EncodeToString(p.GetID())
		// what the registry's public lookups (the ones conversions, toggles and the TokenPair query go through) answer for
		// this pair's contract address and for each of its denominations
		lookups := true
		for _, tok := range append([]string{p.ERC20Address}, p.Denoms...) {
			if hex.EncodeToString(k.GetTokenPairID(ctx, tok)) != hex.EncodeToString(kb[1:]) {
				lookups = false
			}
			if q, err := k.TokenPair(sdk.WrapSDKContext(ctx), &aggtypes.QueryTokenPairRequest{Token: tok}); err != nil || q.TokenPair.ERC20Address != p.ERC20Address {
				lookups = false
			}
		}
		pairs = append(pairs, M{"erc20": w.absContract(common.HexToAddress(p.ERC20Address)), "denoms": denoms, "enabled": p.Enabled, "owner": owner, "keyok": stored, "lookups": lookups})
	}
	resolve := func(idhex string) []interface{} {
		if id, ok := idName[idhex]; ok {
			return id
		}
		return []interface{}{"?" + idhex[:8], "?"}
	}
	byErc20, byDenom := []interface{}{}, []interface{}{}
	for _, kv := range sortedKV(c.DumpStore("aggregate", aggtypes.KeyPrefixTokenPairByERC20)) {
		kb, _ := hex.DecodeString(kv[0])
		byErc20 = append(byErc20, []interface{}{w.absContract(common.BytesToAddress(kb[1:])), resolve(kv[1])})
	}
	for _, kv := range sortedKV(c.DumpStore("aggregate", aggtypes.KeyPrefixTokenPairByDenom)) {
		kb, _ := hex.DecodeString(kv[0])
		byDenom = append(byDenom, []interface{}{w.absDenom(string(kb[1:])), resolve(kv[1])})
	}
	user := c.Accts[0]
	mod := authtypes.NewModuleAddress(aggtypes.ModuleName)
	cbal, escrow, csup, meta := M{}, M{}, M{}, []string{}
	for _, d := range w.Denoms {
		a := w.absDenom(d)
		cbal[a] = c.Bal(user.Acc, d).Int64()
		escrow[a] = c.Bal(mod, d).Int64()
		csup[a] = c.App.BankKeeper.GetSupply(ctx, d).Amount.Int64()
		if _, ok := c.App.BankKeeper.GetDenomMetaData(ctx, d); ok {
			meta = append(meta, a)
		}
	}
	tbal, tesc, tsup, code := M{}, M{}, M{}, M{}
	for _, n := range []string{"m1", "m2", "x1", "x2", "x3", "xb", "xd", "xm"} {
		a, ok := w.Addr[n]
		if !ok {
			tbal[n], tesc[n], tsup[n], code[n] = 0, 0, 0, false
			continue
		}
		acc := c.App.EvmKeeper.GetAccountWithoutBalance(ctx, a)
		code[n] = acc != nil && acc.IsContract()
		tbal[n], tesc[n], tsup[n] = w.tokenBal(a, user.Eth), w.tokenBal(a, aggtypes.ModuleAddress), w.tokenSupply(a)
	}
	return M{"enabled": k.GetParams(ctx).EnableAggregate, "pairs": pairs, "byErc20": byErc20, "byDenom": byDenom, "meta": meta,
		"cbal": cbal, "escrow": escrow, "csup": csup, "tbal": tbal, "tesc": tesc, "tsup": tsup, "code": code, "deployed": w.nmods}
}

func sortedKV(m map[string]string) [][2]string {
	ks := SortedKeys(m)
	out := make([][2]string, 0, len(ks))
	for _, k := range ks {
		out = append(out, [2]string{k, m[k]})
	}
	return out
}

func (w *AggWorld) recvAddr(r string) (common.Address, sdk.AccAddress) {
	if r == "blocked" {
		a := authtypes.NewModuleAddress(authtypes.FeeCollectorName)
		return common.BytesToAddress(a), a
	}
	u := w.C.Accts[0]
	return u.Eth, u.Acc
}

func driveAggregate(t *testing.T, in, out string, seed int64) {
	behaviours := ReadBehaviours(in)
	tw := NewTraceWriter(out)
	defer tw.Close()
	for bi, b := range behaviours {
		w := newAggWorld()
		c := w.C
		RoundTripAtEnd("aggregate", bi, map[string]*Chain{"host": c})
		user := c.Accts[0]
		tw.Emit(M{"ev": "Reset", "b": bi, "i": 0, "res": "ok", "args": M{}, "sig": "Reset", "st": w.project(), "dg": M{"pre": "", "post": ""}, "delta": M{}})
		for si, st := range b {
			act := str(st["act"])
			line := M{"ev": act, "b": bi, "i": si + 1, "args": st, "sig": act}
			pre := c.Digest("aggregate", "bank", "evm")
			switch act {
			case "RegisterCoin":
				res, msg := c.ExecProposal(aggtypes.NewRegisterCoinProposal("t", "d", w.metadata(str(st["base"]), str(st["name"]))))
				line["res"], line["msg"] = res, clip(msg)
				if res == "ok" {
					id := c.App.AggregateKeeper.GetDenomMap(c.Ctx(), str(st["base"]))
					if p, ok := c.App.AggregateKeeper.GetTokenPair(c.Ctx(), id); ok && w.nmods < len(w.Mods) {
						w.reg(w.Mods[w.nmods], p.GetERC20Contract())
						w.nmods++
					}
				}
			case "AddCoin":
				res, msg := c.ExecProposal(aggtypes.NewAddCoinProposal("t", "d", w.metadata(str(st["base"]), str(st["name"])), w.contractAddr(str(st["c"])).Hex()))
				line["res"], line["msg"] = res, clip(msg)
			case "RegisterERC20":
				res, msg := c.ExecProposal(aggtypes.NewRegisterERC20Proposal("t", "d", w.contractAddr(str(st["c"])).Hex()))
				line["res"], line["msg"] = res, clip(msg)
			case "Toggle":
				tok := str(st["t"])
				if _, isC := map[string]bool{"m1": true, "m2": true, "x1": true, "x2": true, "x3": true, "xb": true, "xd": true, "xm": true}[tok]; isC {
					tok = w.contractAddr(tok).Hex()
				} else {
					tok = w.realDenom(tok)
				}
				res, msg := c.ExecProposal(aggtypes.NewToggleTokenRelayProposal("t", "d", tok))
				line["res"], line["msg"] = res, clip(msg)
			case "UpdateERC20":
				res, msg := c.ExecProposal(aggtypes.NewUpdateTokenPairERC20Proposal("t", "d", w.contractAddr(str(st["old"])).Hex(), w.contractAddr(str(st["new"])).Hex()))
				line["res"], line["msg"] = res, clip(msg)
			case "Reimport":
				// the module's export, with the contract addresses spelt as an operator might (all forms pass genesis validation),
				// imported into the emptied module store - what a restart from a genesis file does
				gs := aggregate.ExportGenesis(c.Ctx(), *c.App.AggregateKeeper)
				for i := range gs.TokenPairs {
					switch str(st["form"]) {
					case "lower":
						gs.TokenPairs[i].ERC20Address = strings.ToLower(gs.TokenPairs[i].ERC20Address)
					case "upper":
						gs.TokenPairs[i].ERC20Address = "0x" + strings.ToUpper(gs.TokenPairs[i].ERC20Address[2:])
					}
				}
				line["res"], line["msg"] = "ok", ""
				if err := gs.Validate(); err != nil {
					line["res"], line["msg"] = "err", clip(err.Error())
				} else {
					store := c.Ctx().KVStore(c.App.GetKey(aggtypes.StoreKey))
					var keys [][]byte
					it := store.Iterator(nil, nil)
					for ; it.Valid(); it.Next() {
						keys = append(keys, append([]byte{}, it.Key()...))
					}
					it.Close()
					for _, k := range keys {
						store.Delete(k)
					}
					func() {
						defer func() {
							if r := recover(); r != nil {
								line["res"], line["msg"] = "panic", fmt.Sprint(r)
							}
						}()
						aggregate.InitGenesis(c.Ctx(), *c.App.AggregateKeeper, c.App.AccountKeeper, *gs)
					}()
				}
			case "Param":
				on := st["on"].(bool)
				content := paramproposal.NewParameterChangeProposal("t", "d", []paramproposal.ParamChange{
					paramproposal.NewParamChange(aggtypes.ModuleName, string(aggtypes.ParamStoreKeyEnableAggregate), fmt.Sprint(on))})
				res, msg := c.ExecProposal(content)
				line["res"], line["msg"] = res, clip(msg)
			case "ParamHook":
				content := paramproposal.NewParameterChangeProposal("t", "d", []paramproposal.ParamChange{
					paramproposal.NewParamChange(aggtypes.ModuleName, string(aggtypes.ParamStoreKeyEnableEVMHook), fmt.Sprint(st["on"].(bool)))})
				res, msg := c.ExecProposal(content)
				line["res"], line["msg"] = res, clip(msg)
			case "Destroy":
				// the contract self-destructs (the repository's tests reach this state the same way)
				a := w.contractAddr(str(st["c"]))
				db := statedb.New(c.Ctx(), c.App.EvmKeeper, statedb.NewEmptyTxConfig(common.BytesToHash(c.Ctx().HeaderHash().Bytes())))
				db.Suicide(a)
				must(db.Commit())
				line["res"] = "ok"
			case "ConvertCoin":
				recvEth, _ := w.recvAddr(str(st["recv"]))
				msg := aggtypes.NewMsgConvertCoin(sdk.NewInt64Coin(w.realDenom(str(st["d"])), num(st["amt"])), recvEth, user.Acc)
				r := c.DeliverMsgs(user, msg)
				line["res"], line["msg"] = resOf(r), clip(r.Log)
				line["sig"] = "ConvertCoin/" + str(st["recv"])
			case "ConvertERC20":
				_, recvAcc := w.recvAddr(str(st["recv"]))
				msg := aggtypes.NewMsgConvertERC20(sdk.NewInt(num(st["amt"])), recvAcc, w.contractAddr(str(st["c"])), user.Eth, w.realDenom(str(st["d"])))
				r := c.DeliverMsgs(user, msg)
				line["res"], line["msg"] = resOf(r), clip(r.Log)
				line["sig"] = "ConvertERC20/" + str(st["recv"])
			default:
				t.Fatalf("unknown action %q", act)
			}
			line["dg"] = M{"pre": pre, "post": c.Digest("aggregate", "bank", "evm")}
			line["st"] = w.project()
			tw.Emit(line)
		}
	}
}

var _ = sort.Strings
