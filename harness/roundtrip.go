package harness

import (
	"os"
	"sort"
)

// Genesis round trips of the state a behaviour ends in (VERIF_ROUNDTRIP=1): any driver registers the chains of the
// behaviour it starts; the round trip is taken when the next behaviour starts (or the driver returns), i.e. on the
// final state.  One line per chain goes to <VERIF_OUT>.rt and is judged by spec/store/RT_Trace.tla (C13).
var (
	rtPending func()
	rtWriter  *TraceWriter
)

func RoundTripAtEnd(driver string, bi int, chains map[string]*Chain) {
	if os.Getenv("VERIF_ROUNDTRIP") != "1" {
		return
	}
	FlushRoundTrip()
	rtPending = func() {
		if rtWriter == nil {
			rtWriter = NewTraceWriter(os.Getenv("VERIF_OUT") + ".rt")
		}
		names := make([]string, 0, len(chains))
		for n := range chains {
			names = append(names, n)
		}
		sort.Strings(names)
		for _, n := range names {
			c := chains[n]
			rt := (&LC{C: c, W: 2}).RoundTrip(c)
			diff := rt.RawDiff
			if len(diff) > 6 {
				diff = diff[:6]
			}
			d := []interface{}{}
			for _, x := range diff {
				d = append(d, x)
			}
			clients := []interface{}{}
			for _, ic := range c.App.XIBCKeeper.ClientKeeper.GetAllGenesisClients(c.Ctx()) {
				if cs, err := ic.ClientState.GetCachedValue().(interface{ ClientType() string }); err {
					clients = append(clients, cs.ClientType())
				}
			}
			rtWriter.Emit(M{"ev": "RoundTrip", "driver": driver, "b": bi, "chain": n, "sig": "RoundTrip/" + driver,
				"clients": clients, "nkeys": len(rtDump(c)),
				"rt": M{"validate": rt.Validate, "init": rt.Init, "nmissing": len(rt.Missing), "nextra": len(rt.Extra), "equal2": rt.Equal2, "diff": d}})
		}
	}
}

func FlushRoundTrip() {
	if rtPending != nil {
		rtPending()
		rtPending = nil
	}
}

func CloseRoundTrip() {
	FlushRoundTrip()
	if rtWriter != nil {
		rtWriter.Close()
		rtWriter = nil
	}
}
